"""C17 violation 1: element-derived fragment masses ignore the valences used by the
bonding descriptors, so the summed mass that stops the growth loop is larger than
the mass really added and the sampled molecule is lighter than target_weight."""
import sys, warnings
warnings.filterwarnings('ignore')
import pysmiles
from cgsmiles.sample import MoleculeSampler

M = lambda e: pysmiles.PTE[e]['AtomicMass']
bad = False

# (a) the mass table: a polyethylene repeat unit [>]CC[<] is C2H4 (28.05), which is also
#     the value cgsmiles/tests/test_sampler.py lists for it (in a pytest.approx that asserts nothing)
s = MoleculeSampler.from_fragment_string("{#PE=[>]CC[<],#CH2=[>]C[<],#OH=[$]O}", polymer_reactivities={}, seed=1)
expected = {'PE': 2 * M('C') + 4 * M('H'), 'CH2': M('C') + 2 * M('H'), 'OH': M('O') + M('H')}
for name, exp in expected.items():
    obs = s.fragment_masses[name]
    print(f"fragment {name}: observed mass {obs:.3f}, expected {exp:.3f} (atoms + implicit H left after the descriptors are bonded)")
    bad |= abs(obs - exp) > 1e-3

# (b) end to end: the real mass of what was added never reaches the target
for target in (1000, 10000):
    s = MoleculeSampler.from_fragment_string("{#CH2=[>]C[<]}", polymer_reactivities={'>': 1, '<': 1}, seed=1)
    mol = s.sample(target)
    total = sum(M(e) for _, e in mol.nodes(data='element'))
    added = sum(M(a['element']) for _, a in mol.nodes(data=True) if a['fragid'][0] > 0)
    print(f"target {target}: mass of all atoms of the returned molecule {total:.1f}, of the added fragments {added:.1f}; expected >= {target}")
    bad |= added < target

sys.exit(1 if bad else 0)
