"""C17 violation 2: bonding-descriptor labels that end in a digit ([$1], [>A2] ...) are legal
('alphanumeric label'), but the order-suffix defaulting of sample.py treats the trailing digit
as the bond order. Zero reactivities are then attached to the wrong descriptor or ignored."""
import sys, warnings
warnings.filterwarnings('ignore')
from cgsmiles.sample import MoleculeSampler

bad = False

def bonds(mol):
    return [d['bonding'] for _, _, d in mol.edges(data=True) if 'bonding' in d]

# (a) conditional reactivity 0 ignored: head-to-tail only polymer, labels 1/2 instead of A/B
def run(l1, l2, seed):
    frs = "{#M=[$%s][#a][#b][$%s]}" % (l1, l2)
    fr = {'$' + l1: {'$' + l1: 0.0, '$' + l2: 1.0}, '$' + l2: {'$' + l1: 1.0, '$' + l2: 0.0}}
    s = MoleculeSampler.from_fragment_string(frs, polymer_reactivities={}, fragment_reactivities=fr,
                                             fragment_masses={'M': 1}, all_atom=False, seed=seed)
    return bonds(s.sample(30))
hh_letters = sum(1 for sd in range(20) for b in run('A', 'B', sd) if b[0][:2] == b[1][:2])
hh_digits = sum(1 for sd in range(20) for b in run('1', '2', sd) if b[0][:2] == b[1][:2])
print(f"(a) bonds between partners of conditional reactivity 0: labels A/B -> {hh_letters}, labels 1/2 -> {hh_digits}; expected 0 and 0")
bad |= hh_digits > 0

# (b) reactivity 0 growth site chosen: the unlabelled [>] has reactivity 0, [>1] (label '1') has reactivity 1
cnt = 0; tot = 0
for sd in range(20):
    s = MoleculeSampler.from_fragment_string("{#M=[<][#a][<1][#b][>][>1]}",
                                             polymer_reactivities={'>': 0.0, '>1': 1.0, '<': 0.0, '<1': 0.0},
                                             fragment_masses={'M': 1}, all_atom=False, seed=sd)
    for b in bonds(s.sample(10)):
        tot += 1
        cnt += b[0] == '>1'      # internal name of the unlabelled descriptor [>] with order 1
print(f"(b) growth steps that used the unlabelled [>] (reactivity 0) as growth site: {cnt} of {tot}; expected 0 "
      f"(all growth should go through [>1], internal name '>11')")
bad |= cnt > 0

# (c) terminal descriptor with a digit label is not recognised
left = 0
for sd in range(20):
    s = MoleculeSampler.from_fragment_string("{#M=[<][#a][#b][>][$1],#T=[$2][#t]}", polymer_reactivities={},
                                             terminal_bonds=['$1', '$2'], fragment_masses={'M': 1, 'T': 1}, all_atom=False, seed=sd)
    mol = s.sample(10, start_fragment='M')
    for n, d in mol.nodes(data=True):
        nbr_frag = {mol.nodes[m]['fragname'] for m in mol[n]}
        if d['fragname'] == 'M' and 'T' in nbr_frag and d.get('bonding'):
            left += 1
print(f"(c) atoms that received the terminal fragment T and still offer descriptors: {left}; expected 0")
bad |= left > 0
sys.exit(1 if bad else 0)
