"""C17 (borderline) 4: the terminal bookkeeping is only done for the atom of the growing molecule
(source). When the growth site sits on a terminal fragment (e.g. the random start fragment is the
end group), the atom of the NEW fragment that is bonded to the terminal fragment keeps all its other
descriptors -> the 'trivalent PEG' the class docstring promises to avoid."""
import sys, warnings
warnings.filterwarnings('ignore')
from cgsmiles.sample import MoleculeSampler
F = "{#PEG=[<A][#c][#o][#c][>A][$A],#OH=[$B][#oh]}"
n_bad = 0
for sd in range(30):
    s = MoleculeSampler.from_fragment_string(F, terminal_bonds=['$A', '$B'],
            polymer_reactivities={'>A': 1.0, '<A': 1.0, '$A': 0.3, '$B': 0.3},
            fragment_reactivities={'$A': {'$A': 0, '$B': 1.0}, '$B': {'$A': 1.0, '$B': 0}},
            fragment_masses={'PEG': 44, 'OH': 17}, all_atom=False, seed=sd)
    mol = s.sample(44, start_fragment='OH')   # exactly one growth step: OH + PEG
    for n, d in mol.nodes(data=True):
        if d['fragname'] == 'PEG' and any(mol.nodes[m]['fragname'] == 'OH' for m in mol[n]) and d.get('bonding'):
            n_bad += 1
            if n_bad == 1:
                print("PEG atom bonded to the OH terminal still offers", d['bonding'])
print(f"{n_bad} of 30 molecules have a PEG atom that carries a terminal fragment and still offers descriptors; expected 0")
sys.exit(1 if n_bad else 0)
