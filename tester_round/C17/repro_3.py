"""C17 violation 3: the seed is put into the process-wide `random` generator at construction
time, so a sampler built with seed=1 does not yield 'its' molecule when another sampler is
constructed before sample() is called."""
import sys, warnings
warnings.filterwarnings('ignore')
from cgsmiles.sample import MoleculeSampler
F = "{#PMMA=[>]C(C)C[<]C(=O)OC,#PS=[>]CC[<]c1ccccc1}"
kw = dict(polymer_reactivities={'>': 0.5, '<': 0.5})
def seq(m):
    d = {a['fragid'][0]: a['fragname'] for _, a in m.nodes(data=True)}
    return ''.join('M' if d[k] == 'PMMA' else 'S' for k in sorted(d))
a = MoleculeSampler.from_fragment_string(F, seed=1, **kw)
ref = seq(a.sample(1500))
a = MoleculeSampler.from_fragment_string(F, seed=1, **kw)
b = MoleculeSampler.from_fragment_string(F, seed=2, **kw)     # an unrelated second sampler
got = seq(a.sample(1500))
print("sampler(seed=1).sample()                               :", ref)
print("sampler(seed=1), then construct sampler(seed=2), sample:", got)
print("expected: identical sequences")
sys.exit(1 if ref != got else 0)
