"""
C16 violation: all-atom sampling with a bonding descriptor on an AROMATIC atom.

Fragments: #PH = p-phenylene  [$]c1ccc([$])cc1 ,  #ME = methyl  [$]C
Growing ME - PH - ME must give p-xylene, C8H10: 18 atoms, the six ring atoms of
the PH copy aromatic (isomorphic to the template c1ccccc1 ring), no H on the two
substituted ring carbons.  The resolver gives exactly that for
{[#ME][#PH][#ME]}.{#PH=[$]c1ccc([$])cc1,#ME=[$]C}.

The sampler returns C8H12 (3,6-dimethyl-cyclohexa-1,4-diene): ring not aromatic,
two extra hydrogen atoms, sp3 ring carbons.  When a ring keeps an odd number of
unsubstituted atoms (every chain with >= 2 PH units, PPO, biphenyl ...) the same
defect surfaces as a SyntaxError("... cannot be kekulized") instead.
"""
import sys
import logging
from cgsmiles.sample import MoleculeSampler
from cgsmiles import MoleculeResolver
logging.disable(logging.CRITICAL)

def summary(mol):
    heavy = [n for n in sorted(mol.nodes) if mol.nodes[n]['element'] != 'H']
    return {'fragments': [mol.nodes[n]['fragname'] for n in heavy],
            'atoms': len(mol),
            'H': len(mol) - len(heavy),
            'aromatic atoms': sum(1 for n in heavy if mol.nodes[n].get('aromatic')),
            'ring C with 4 neighbours': sum(1 for n in heavy if mol.nodes[n]['fragname'] == 'PH' and mol.degree(n) == 4)}

frags = "{#PH=[$]c1ccc([$])cc1,#ME=[$]C}"
bad = 0
obs = None
for seed in range(200):                                       # first seed that grows ME-PH-ME
    smp = MoleculeSampler.from_fragment_string(frags, polymer_reactivities={}, all_atom=True, seed=seed)
    try:
        mol = smp.sample(target_weight=90, start_fragment='ME')
    except (SyntaxError, IndexError):                         # PH-PH chains: kekulisation error, ME-ME: dead end
        continue
    obs = summary(mol)
    if obs['fragments'].count('PH') == 6 and obs['fragments'].count('ME') == 2:
        print("seed", seed)
        break
_, ref = MoleculeResolver.from_string("{[#ME][#PH][#ME]}." + frags).resolve()
exp = summary(ref)
print("sampler  :", obs)
print("expected :", exp, "(p-xylene C8H10, from the resolver / chemistry)")
if obs['fragments'].count('PH') == 6 and obs['fragments'].count('ME') == 2:
    if (obs['atoms'], obs['H'], obs['aromatic atoms']) != (18, 10, 6):
        print("VIOLATION: the PH copy is not isomorphic to its aromatic template and the molecule has", obs['H'] - 10, "extra H")
        bad = 1
else:
    print("(seed gave another sequence; check skipped)")

# same root cause, other symptom: poly(phenylene oxide), 2+ units
try:
    smp = MoleculeSampler.from_fragment_string("{#PPO=[<]Oc1ccc([>])cc1}", polymer_reactivities={}, all_atom=True, seed=0)
    mol = smp.sample(target_weight=150)
    s = summary(mol)
    k = s['fragments'].count('PPO') // 7
    print("PPO sampler :", s)
    if s['aromatic atoms'] != 6 * k or s['H'] != 4 * k + 2:
        print("VIOLATION: PPO oligomer wrong (expected %d aromatic atoms, %d H)" % (6 * k, 4 * k + 2)); bad = 1
except SyntaxError as err:
    print("PPO sampler : SyntaxError:", str(err)[:70], "...")
    print("expected    : a phenylene-oxide oligomer HO-(C6H4-O)n-C6H5 (legal input, no error)")
    bad = 1
sys.exit(bad)
