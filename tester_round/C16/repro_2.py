"""
C16 side finding: a fragment written with the multiplication operator is
mis-read (descriptor lands on the wrong node), so the sampled polymer is not
built from the fragment that was given.

{#F=[$][#A]|3[$]} is, by docs/source/syntax (multiplication operator, "Fragment
graphs use the same general graph syntax"), the same fragment as
{#F=[$][#A][#A][#A][$]}: a linear A-A-A unit with one '$' on each END node.
Polymers sampled from it must therefore be linear chains (max degree 2) and
both spellings must give the same molecules for the same seed.
"""
import sys
import networkx as nx
from cgsmiles.sample import MoleculeSampler

def sample(frag_str, seed):
    smp = MoleculeSampler.from_fragment_string(frag_str, polymer_reactivities={},
                                               fragment_masses={'F': 1}, all_atom=False, seed=seed)
    return smp.sample(target_weight=3)

bad = 0
for seed in range(5):
    short = sample("{#F=[$][#A]|3[$]}", seed)
    longf = sample("{#F=[$][#A][#A][#A][$]}", seed)
    deg_s = max(d for _, d in short.degree)
    deg_l = max(d for _, d in longf.degree)
    iso = nx.is_isomorphic(short, longf)
    print(f"seed {seed}: '|3' spelling max degree {deg_s}, written-out spelling max degree {deg_l}, isomorphic: {iso}")
    if deg_s != 2 or not iso:
        bad += 1
smp = MoleculeSampler.from_fragment_string("{#F=[$][#A]|3[$]}", polymer_reactivities={}, fragment_masses={'F': 1}, all_atom=False, seed=0)
print("descriptors read for {#F=[$][#A]|3[$]}:", dict(nx.get_node_attributes(smp.fragment_dict['F'], 'bonding')))
print("expected: {0: ['$1'], 2: ['$1']}  (one on each end of A-A-A) -> linear polymer, max degree 2")
if bad:
    print("VIOLATION: sampled polymer is branched / differs from the written-out spelling")
    sys.exit(1)
print("no violation")
