"""A bond-order symbol written before the *closing* ring marker is silently
ignored (only the symbol before the opening marker is used)."""
import sys
from cgsmiles.read_cgsmiles import read_cgsmiles

def ring_order(s, a, b):
    g = read_cgsmiles(s)
    return g.edges[a, b]['order']

cases = [("{[#A]1[#B][#C]=1}", 0, 2, 2),
         ("{[#A]1[#B][#C].1}", 0, 2, 0),
         ("{[#A]%10[#B][#C]#%10}", 0, 2, 3),
         ("{[#A]1[#B]([#C]$1)[#D]}", 0, 2, 4),
         # control: symbol at the opening marker works
         ("{[#A]=1[#B][#C]1}", 0, 2, 2)]
bad = 0
for s, a, b, exp in cases:
    got = ring_order(s, a, b)
    bad += got != exp
    print('ok ' if got == exp else 'BAD', s, 'order of ring edge (%d,%d): observed %s expected %s' % (a, b, got, exp))
sys.exit(1 if bad else 0)
