"""Annotation written with the long keyword of the reserved-symbol table
(charge / weight) is silently replaced by the default value."""
import sys
from cgsmiles.read_cgsmiles import read_cgsmiles
bad = 0
for s, key, exp in [("{[#A;charge=1]}", 'charge', 1.0), ("{[#A;weight=2]}", 'weight', 2.0),
                    ("{[#A;q=1]}", 'charge', 1.0), ("{[#A;w=2]}", 'weight', 2.0)]:
    got = read_cgsmiles(s).nodes[0].get(key)
    ok = got is not None and float(got) == exp
    bad += not ok
    print('ok ' if ok else 'BAD', s, 'node attribute %s: observed %r expected %r' % (key, got, exp))
sys.exit(1 if bad else 0)
