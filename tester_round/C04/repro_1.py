"""A branch that ends with a nested branch ('))'): the node after it is attached
to the wrong anchor and the bond order written after the branch is lost."""
import sys
from cgsmiles.read_cgsmiles import read_cgsmiles

def edges(s):
    try:
        g = read_cgsmiles(s)
    except Exception as e:
        return '%s: %s' % (type(e).__name__, e)
    return sorted((min(a, b), max(a, b), o) for a, b, o in g.edges(data='order'))

cases = [
    # string, expected edges
    ("{[#A]([#B]([#C]))[#D]}",  [(0, 1, 1), (0, 3, 1), (1, 2, 1)]),
    ("{[#A]([#B]([#C])).[#D]}", [(0, 1, 1), (0, 3, 0), (1, 2, 1)]),
    ("{[#A]([#B]([#C]))([#D])[#E]}", [(0, 1, 1), (0, 3, 1), (0, 4, 1), (1, 2, 1)]),
    # same graph written without the nested parentheses is read correctly
    ("{[#A]([#B][#C])[#D]}",    [(0, 1, 1), (0, 3, 1), (1, 2, 1)]),
    # the wrong anchor turns a legal ring closure into a spurious SyntaxError
    ("{[#A]([#B]1([#C]))[#D]1}", [(0, 1, 1), (0, 3, 1), (1, 2, 1), (1, 3, 1)]),
]
bad = 0
for s, exp in cases:
    got = edges(s)
    flag = 'ok ' if got == exp else 'BAD'
    bad += got != exp
    print(flag, s, '\n     observed:', got, '\n     expected:', exp)
sys.exit(1 if bad else 0)
