"""
C02 violation 3 (minor): an atom shared by two coarse nodes through the squash
operator [!] gets, in the fine graph, the name it has in the LAST coarse node;
the per-node fragment graph of the first coarse node keeps another name for the
same atom, and inside the first coarse node two atoms end up with the same name.

Fragment A = CC  -> its copy has the atom names C0, C1 (element + index in the fragment,
the convention set_atom_names_atomistic documents).
"""
import sys
from cgsmiles.resolve import MoleculeResolver

resolver = MoleculeResolver.from_string("{[#A][#B]}.{#A=CC[!],#B=[!]CO}")
meta, mol = resolver.resolve_all()

bad = False
for cg in meta.nodes:
    frag_graph = meta.nodes[cg]['graph']
    heavy = [n for n in sorted(frag_graph.nodes) if mol.nodes[n]['element'] != 'H']
    in_fine = [mol.nodes[n]['atomname'] for n in heavy]
    in_frag = [frag_graph.nodes[n]['atomname'] for n in heavy]
    print("coarse node %d (%s): heavy atoms %s" % (cg, meta.nodes[cg]['fragname'], heavy))
    print("    names in the fine graph          :", in_fine)
    print("    names in the per-node graph      :", in_frag)
    if in_fine != in_frag:
        print("    -> the two outputs disagree about the name of a shared atom")
        bad = True
    if len(set(in_fine)) != len(in_fine):
        print("    -> two atoms of one coarse node carry the same name in the fine graph")
        bad = True
print("expected: coarse node 0 (A=CC) has the atoms C0, C1 in both outputs")
if bad:
    sys.exit(1)
print("no violation")
