"""
C02 violation 1: a multiplied node inside a coarse fragment shifts / drops the
per-node annotations of the fragment copy.

docs/source/syntax/fragments.rst: "Fragments graphs use the same general graph
syntax as outlined before"; basic_graph_description.rst: "[#A]|5 ... is equivalent
to writing [#A][#A][#A][#A][#A]" and annotations are part of the node.
So a fragment written with the multiplication operator must give the same fine
nodes (names AND annotations) as the written-out fragment.
"""
import sys
from cgsmiles.resolve import MoleculeResolver

KEYS = ('atomname', 'weight', 'foo')


def fine_nodes(string):
    resolver = MoleculeResolver.from_string(string, last_all_atom=False)
    meta, mol = resolver.resolve_all()
    out = []
    for node in sorted(meta.nodes[0]['graph'].nodes):
        attrs = mol.nodes[node]
        out.append(tuple(attrs.get(k) for k in KEYS))
    return out


CASES = [
    # (multiplied form, written-out form)
    ("{[#X]}.{#X=[#B]|3[#C;foo=1]}", "{[#X]}.{#X=[#B][#B][#B][#C;foo=1]}"),
    ("{[#X]}.{#X=[#B;w=0.5]|3[#C]}", "{[#X]}.{#X=[#B;w=0.5][#B;w=0.5][#B;w=0.5][#C]}"),
    ("{[#X]}.{#X=[#B]|1[#C;foo=1]}", "{[#X]}.{#X=[#B][#C;foo=1]}"),
    ("{[#X]}.{#X=[#A]([#B])|2[#C;w=0.5]}", "{[#X]}.{#X=[#A]([#B])[#A]([#B])[#C;w=0.5]}"),
]

bad = 0
for mult, plain in CASES:
    got = fine_nodes(mult)
    exp = fine_nodes(plain)
    print(mult)
    print("   observed (atomname, weight, foo):", got)
    print("   expected (= written-out %s):" % plain, exp)
    if got != exp:
        bad += 1
        print("   -> VIOLATION: the fine nodes of coarse node 0 are not a copy of fragment X")

if bad:
    sys.exit(1)
print("no violation")
