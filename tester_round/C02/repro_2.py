"""
C02 violation 2: the reserved per-node annotations of a coarse fragment (charge q,
positional form ;q;w) are not carried by the fine nodes of the fragment copy.

docs/source/syntax/basic_graph_description.rst, table "Reserved Annotation Symbols":
  q | coarse | charge | float | {[#A;q=1]} or {[#A;1]}
  w | coarse | weight | float | {[#A;w=0.5]} or {[#A;0;0.5]}
and fragments.rst: "Fragments graphs use the same general graph syntax as outlined
before". The same node string therefore has to yield the same annotations whether it
is written in the base graph or in a (coarse) fragment.
"""
import sys
from cgsmiles import read_cgsmiles
from cgsmiles.resolve import MoleculeResolver

KEYS = ('charge', 'weight')
NODES = "[#B;q=1][#C;1;0.5][#D;q=-1;w=2]"

# reference: the very same nodes read as a base graph
ref_graph = read_cgsmiles("{" + NODES + "}")
expected = [tuple(ref_graph.nodes[n].get(k) for k in KEYS) for n in sorted(ref_graph.nodes)]

resolver = MoleculeResolver.from_string("{[#X]}.{#X=" + NODES + "}", last_all_atom=False)
meta, mol = resolver.resolve_all()
nodes = sorted(meta.nodes[0]['graph'].nodes)
observed = [tuple(mol.nodes[n].get(k) for k in KEYS) for n in nodes]

print("fragment X =", NODES)
print("expected (charge, weight) of the fine nodes B, C, D:", expected)
print("observed (charge, weight) of the fine nodes B, C, D:", observed)
print("stray attributes on the fine nodes:",
      [{k: v for k, v in mol.nodes[n].items() if k in ('q', 'w', 'chiral')} for n in nodes])

# consequence at the next level: the coarse node of level 2 has lost its charge
resolver = MoleculeResolver.from_string("{[#X]}.{#X=[#B;q=1]}.{#B=CC}", last_all_atom=True)
levels = list(resolver.resolve_iter())
meta2 = levels[1][0]
print("two levels {[#X]}.{#X=[#B;q=1]}.{#B=CC}: charge of coarse node B at level 2:",
      meta2.nodes[0].get('charge'), "(expected 1.0)")

if observed != expected or meta2.nodes[0].get('charge') != 1.0:
    print("-> VIOLATION: per-node annotations of the fragment are not those of its copy")
    sys.exit(1)
print("no violation")
