"""
C13 violation 2: annotations of nodes in a COARSE fragment are parsed with the atomic
dialect (w, x) instead of the documented coarse dialect (q, w):
docs/source/syntax/basic_graph_description.rst, table 'Reserved Annotation Symbols':
   q coarse charge float {[#A;q=1]} or {[#A;1]};  w coarse weight {[#A;w=0.5]} or {[#A;0;0.5]}
Oracle: the same node text read as a base graph by read_cgsmiles (two descriptions of the
same node must agree).
"""
import sys
from cgsmiles.read_fragments import strip_bonding_descriptors, read_fragments
from cgsmiles.read_cgsmiles import read_cgsmiles

bad = 0
for node in ['[#A;q=1]', '[#A;1]', '[#A;0;0.5]', '[#A;0.5;0.25]']:
    ref = read_cgsmiles('{' + node + '}').nodes[0]
    g = read_fragments('{#X=' + node + '[$]}', all_atom=False)['X']
    got = g.nodes[0]
    exp = {k: ref[k] for k in ('charge', 'weight')}
    obs = {k: got.get(k) for k in ('charge', 'weight')}
    extra = {k: v for k, v in got.items() if k in ('q', 'chiral')}
    print('%-14s strip attrs=%r' % (node, dict(strip_bonding_descriptors(node + '[$]')[3])))
    print('   observed in fragment graph: %r  extra keys %r' % (obs, extra))
    print('   expected (coarse dialect) : %r' % (exp,))
    if obs != exp or extra:
        bad += 1
if bad:
    print('VIOLATION: annotation of a coarse fragment node not reported as documented')
    sys.exit(1)
print('ok')
