"""
C13 violation 1: a node multiplier '|n' inside a coarse fragment shifts the atom index
of every bonding descriptor written after it ('|' is counted as one atom, the n copies are not).
Oracle: the same fragment written out without the multiplier must give the same result
(docs: '[#A]|5 ... is equivalent to writing [#A][#A][#A][#A][#A]').
"""
import sys
from cgsmiles.read_fragments import strip_bonding_descriptors, read_fragments
from cgsmiles import MoleculeResolver

bad = 0
for short, long in [('[#A]|3[#C][$]', '[#A][#A][#A][#C][$]'),
                    ('[#A]|3[$]', '[#A][#A][#A][$]'),
                    ('[#A]|1[$]', '[#A][$]')]:
    res = {}
    for text in (short, long):
        g = read_fragments('{#X=' + text + '}', all_atom=False)['X']
        res[text] = {n: (d['atomname'], d['bonding']) for n, d in g.nodes(data=True) if d.get('bonding')}
    print('strip(%r) -> %r' % (short, dict(strip_bonding_descriptors(short)[1])))
    print('  observed  %-22s descriptors on %r' % (short, res[short]))
    print('  expected  (as %-18s) descriptors on %r' % (long, res[long]))
    if res[short] != res[long]:
        bad += 1

# end to end: the D node is bonded to the third A instead of C
def edges(s):
    cg, mol = MoleculeResolver.from_string(s, last_all_atom=False).resolve()
    names = dict(mol.nodes(data='atomname'))
    return sorted((names[a] + str(a), names[b] + str(b)) for a, b in mol.edges)
e1 = edges('{[#X][#Y]}.{#X=[#A]|3[#C][$],#Y=[$][#D]}')
e2 = edges('{[#X][#Y]}.{#X=[#A][#A][#A][#C][$],#Y=[$][#D]}')
print('resolved edges with |3      :', e1)
print('resolved edges written out  :', e2)
if e1 != e2:
    bad += 1
if bad:
    print('VIOLATION: descriptor reported on the wrong atom after a node multiplier')
    sys.exit(1)
print('ok')
