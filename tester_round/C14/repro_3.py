"""C14 / 3: base graph, anchor with two branches and a multiplier after the second one: the repeated anchor does not get the
anchor's annotations (nor its name) but those of the last node of the previous branch (stale variable `attributes`)."""
import sys
from collections import Counter
from cgsmiles import read_cgsmiles
bad = 0
for s, exp_anchor in [('{[#A;q=1]([#A])([#C])|2}', ('A', 1.0, 1.0, None)),
                      ('{[#A;q=1;w=0.5;mass=7]([#B][#D;q=-1])([#C])|3}', ('A', 1.0, 0.5, '7'))]:
    g = read_cgsmiles(s)
    n = int(s[-2])
    got = Counter((d['fragname'], d['charge'], d['weight'], d.get('mass')) for _, d in g.nodes(data=True))
    ok = got[exp_anchor] == n; bad += not ok
    print(('ok  ' if ok else 'FAIL'), s)
    print('      observed nodes:', sorted(got.items(), key=str))
    print('      expected: %d nodes %s (the anchor and its %d repetitions)' % (n, exp_anchor, n - 1))
sys.exit(1 if bad else 0)
