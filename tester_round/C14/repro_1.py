"""C14 / 1: annotations of nodes in a COARSE fragment are parsed with the atomistic dialect (w, x):
q is not reserved there, positional values are bound to weight/chirality, the documented form [#X;0;0.5] is misread."""
import io, contextlib, sys
from cgsmiles import read_cgsmiles, MoleculeResolver

KEEP = ('charge', 'weight', 'q', 'w', 'x', 'chiral', 'mass')
def attrs(d): return {k: v for k, v in d.items() if k in KEEP}
bad = 0
for ann in ['q=1', '1', '0;0.5', 'q=1;w=0.5', '1;w=0.5', 'w=0.5;q=-0.25;mass=72']:
    base = attrs(read_cgsmiles('{[#B;%s]}' % ann).nodes[0])      # what the same text means on a base-graph node (and per docs)
    s = '{[#A]|2}.{#A=[$][#B;%s][#C][$]}.{#B=[$]CC[$],#C=[$]O[$]}' % ann
    try:
        with contextlib.redirect_stdout(io.StringIO()):
            (cg, mid), (mid_as_coarse, aa) = list(MoleculeResolver.from_string(s).resolve_iter())
        got = [attrs(mid_as_coarse.nodes[n]) for n in (0, 2)]      # the two copies of B
    except BaseException as e:
        got = '%s: %s' % (type(e).__name__, e)
    exp = [base, base]
    # the extra key 'w': 1 that read_fragment_cgsmiles always adds is ignored here (see findings)
    got_cmp = [{k: v for k, v in g.items() if not (k == 'w' and v == 1)} for g in got] if isinstance(got, list) else got
    ok = got_cmp == exp
    bad += not ok
    print(('ok  ' if ok else 'FAIL'), s)
    print('      observed on the copies of B:', got)
    print('      expected on the copies of B:', exp)
sys.exit(1 if bad else 0)
