"""C14 / 2: in a COARSE fragment a multiplied node keeps its annotation only on the first copy, and the annotations of
all nodes written after a multiplier are put on the wrong node ('|' is counted as one atom, the copies are not counted)."""
import sys
from cgsmiles import read_cgsmiles
from cgsmiles.read_fragments import read_fragments
KEEP = ('weight', 'mass')
bad = 0
for frag in ['[#B;w=0.5]|2[#C]', '[#B]|3[#C;mass=3]', '[#B;mass=1]|3[#C;mass=3]', '[#B]([#D])|3[#C;mass=3]', '[#B]|1[#C;mass=3]']:
    ref = read_cgsmiles('{' + frag + '}')                       # same text as a base graph: the documented meaning
    exp = [(d['fragname'], {k: v for k, v in d.items() if k in KEEP}) for _, d in sorted(ref.nodes(data=True))]
    g = read_fragments('{#A=' + frag + '}', all_atom=False)['A']
    got = [(d['atomname'], {k: v for k, v in d.items() if k in KEEP}) for _, d in sorted(g.nodes(data=True))]
    ok = got == exp; bad += not ok
    print(('ok  ' if ok else 'FAIL'), '{#A=%s}' % frag)
    print('      observed:', got)
    print('      expected:', exp)
sys.exit(1 if bad else 0)
