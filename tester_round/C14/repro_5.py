"""C14 / 5 (arguable): atoms merged by the squash operator: the annotations of the atom that is removed are dropped."""
import sys
from cgsmiles import MoleculeResolver
bad = 0
for s in ['{[#A][#B]}.{#A=C[C;foo=1;w=0.5][!],#B=[!]CO}', '{[#A][#B]}.{#A=CC[!],#B=[!][C;foo=1;w=0.5]O}']:
    cg, aa = MoleculeResolver.from_string(s).resolve_all()
    shared = [d for _, d in aa.nodes(data=True) if d['fragid'] == [0, 1] and d['element'] == 'C'][0]
    got = (shared.get('foo'), shared['weight']); ok = got == ('1', 0.5); bad += not ok
    print(('ok  ' if ok else 'FAIL'), s, 'observed (foo, weight) on the shared atom:', got, "| expected ('1', 0.5)")
sys.exit(1 if bad else 0)
