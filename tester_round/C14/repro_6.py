"""C14 / 6 (minor): free keys that collide with internal names are not 'kept verbatim'."""
import sys
from cgsmiles import read_cgsmiles, MoleculeResolver
bad = 0
try:
    got = read_cgsmiles('{[#A;self=1]}').nodes[0].get('self')
except BaseException as e:
    got = '%s: %s' % (type(e).__name__, e)
ok = got == '1'; bad += not ok
print(('ok  ' if ok else 'FAIL'), '{[#A;self=1]}', 'observed:', got, "| expected attribute self='1'")
cg, aa = MoleculeResolver.from_string('{[#A;graph=1]}.{#A=CO}').resolve_all()
got = cg.nodes[0].get('graph'); ok = got == '1'; bad += not ok
print(('ok  ' if ok else 'FAIL'), '{[#A;graph=1]}.{#A=CO}', 'observed graph=%r' % got, "| expected '1'")
cg, aa = MoleculeResolver.from_string('{[#A;atomname=B]}.{#A=CO,#B=N}').resolve_all()
got = sorted(d['element'] for _, d in aa.nodes(data=True) if d['element'] != 'H'); ok = got == ['C', 'O']; bad += not ok
print(('ok  ' if ok else 'FAIL'), '{[#A;atomname=B]}.{#A=CO,#B=N}', 'observed heavy atoms', got, "| expected ['C', 'O'] (fragment A)")
sys.exit(1 if bad else 0)
