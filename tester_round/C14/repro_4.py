"""C14 / 4: the long keywords of the reserved symbols (docs table column 'Keyword': charge, weight; 'it is always permissible
to use the keyword explicitly') are accepted but their value is silently replaced by the default."""
import sys
from cgsmiles import read_cgsmiles
from cgsmiles.read_fragments import read_fragments
bad = 0
for s, key, short in [('{[#A;charge=1]}', 'charge', '{[#A;q=1]}'), ('{[#A;weight=0.5]}', 'weight', '{[#A;w=0.5]}')]:
    got = read_cgsmiles(s).nodes[0][key]; ref = read_cgsmiles(short).nodes[0][key]
    ok = got in (ref, s.split('=')[1][:-2]); bad += not ok
    print(('ok  ' if ok else 'FAIL'), s, 'observed %s=%r' % (key, got), '| expected %r (reserved keyword) or at least the verbatim text (free key)' % ref)
g = read_fragments('{#A=[C;weight=0.5]O}')['A']
got = g.nodes[0]['weight']; ok = got in (0.5, '0.5'); bad += not ok
print(('ok  ' if ok else 'FAIL'), '{#A=[C;weight=0.5]O}', 'observed weight=%r | expected 0.5' % got)
sys.exit(1 if bad else 0)
