"""C03 violation 1: first-match search (resolve.py match_bonding_descriptors / edges_from_bonding_descrpt)
gives fewer bonds than the edge order although every unit of order has its own compatible descriptor pair."""
import sys
from cgsmiles.resolve import MoleculeResolver

def inter(mol):
    out = []
    for a, b, d in mol.edges(data=True):
        if not set(mol.nodes[a]['fragid']) & set(mol.nodes[b]['fragid']):
            out.append((mol.nodes[a]['mapping'][0], mol.nodes[a]['fragid'][0],
                        mol.nodes[b]['mapping'][0], mol.nodes[b]['fragid'][0], d['order'], d.get('bonding')))
    return out

CASES = [
    # (string, expected number of inter-fragment bonds, explanation)
    ("{[#X][#Y][#Z]}.{#X=C[$][>],#Y=C[$][<],#Z=C[$]}", 2,
     "X-Y has the pair >/<, Y-Z has the pair $/$ (the $ of X is left over)"),
    ("{[#X]=[#Y][#Z]}.{#X=[$]C[$],#Y=[$]C[$]C[$],#Z=[$]C}", 3,
     "only unlabelled $: X has 2 (for the order-2 edge), Y has 3 (2 for X on two atoms, 1 for Z), Z has 1"),
    ("{[#M]([#M][#E])[#E]}.{#M=[>]C[$]C[<],#E=[$]O}", 3,
     "graft copolymer: backbone through >/<, side chains through $"),
]
bad = 0
for legacy in (True, False):
    for s, exp, why in CASES:
        mol = MoleculeResolver.from_string(s, legacy=legacy).resolve_all()[1]
        b = inter(mol)
        print(f"legacy={legacy} {s}\n   {why}\n   expected {exp} inter-fragment bonds (= sum of the edge orders), observed {len(b)}:")
        for x in b:
            print("      ", x)
        if len(b) != exp:
            bad += 1
print("VIOLATION" if bad else "ok")
sys.exit(1 if bad else 0)
