"""C03 violation 2: in a coarse fragment that uses the multiplication operator the bonding descriptors
written after it are attached to the wrong node (read_fragments.py strip_bonding_descriptors counts '|'
as one node and ignores the multiplier), so the inter-fragment bond joins a node that carried no descriptor."""
import sys
from cgsmiles.resolve import MoleculeResolver

def inter(s):
    mol = MoleculeResolver.from_string(s, last_all_atom=False).resolve_all()[1]
    return sorted((mol.nodes[a]['atomname'], mol.nodes[b]['atomname']) for a, b, d in mol.edges(data=True)
                  if not set(mol.nodes[a]['fragid']) & set(mol.nodes[b]['fragid']))
short = "{[#X][#Y]}.{#X=[#A]|3[#B][$],#Y=[$][#C]}"
long_ = "{[#X][#Y]}.{#X=[#A][#A][#A][#B][$],#Y=[$][#C]}"
a, b = inter(short), inter(long_)
print(short, "-> inter-fragment bonds", a)
print(long_, "-> inter-fragment bonds", b)
print("expected: both give the bond B-C (the descriptor is written on [#B])")
bad = a != b or a != [('B', 'C')]
# branch multiplication
short2 = "{[#X][#Y]}.{#X=[#A]([#D])|2[#B][$],#Y=[$][#C]}"
long2 = "{[#X][#Y]}.{#X=[#A]([#D])[#A]([#D])[#B][$],#Y=[$][#C]}"
a2, b2 = inter(short2), inter(long2)
print(short2, "->", a2)
print(long2, "->", b2)
bad = bad or a2 != b2
print("VIOLATION" if bad else "ok")
sys.exit(1 if bad else 0)
