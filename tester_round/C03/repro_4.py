"""C03 violation 4 (minor): a descriptor annotated with the aromatic bond symbol ':' is stored as '$1.5'
(read_fragments.py:126,156) and decoded with int(bonding[0][-1]) (resolve.py:319) -> order 5."""
import sys
from cgsmiles.resolve import MoleculeResolver
s = "{[#A][#B]}.{#A=C:[$],#B=[$]:C}"
mol = MoleculeResolver.from_string(s).resolve_all()[1]
r = [(d['order'], d['bonding']) for a, b, d in mol.edges(data=True) if 'bonding' in d]
print(s, "->", r)
print("expected: the annotated order 1.5 (or a documented error), observed order", r[0][0])
bad = r[0][0] != 1.5
print("VIOLATION" if bad else "ok")
sys.exit(1 if bad else 0)
