"""secondary: MoleculeResolver.from_graph with a base graph whose edges have no 'order' attribute
(exactly the example of the class docstring, resolve.py:134-138) raises KeyError('order') in
edges_from_bonding_descrpt (resolve.py:304) instead of treating the edges as order 1."""
import sys
import networkx as nx
from cgsmiles.resolve import MoleculeResolver
cgsmiles_str = "{#B1=[#PEO]|4,#B2=[#PE]|2}.{#PEO=[>]COC[<],#PE=[>]CC[<]}"
block_graph = nx.Graph()
block_graph.add_edges_from([(0, 1), (1, 2)])
nx.set_node_attributes(block_graph, {0: "B1", 1: "B2", 2: "B1"}, 'fragname')
try:
    MoleculeResolver.from_graph(cgsmiles_str, block_graph).resolve_all()
    print("ok")
    sys.exit(0)
except KeyError as e:
    print("observed KeyError", e, "; expected: the documented example resolves (edges of order 1)")
    sys.exit(1)
