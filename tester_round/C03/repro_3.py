"""C03 violation 3 (label-insensitive convention, legacy=False): descriptors of different annotated
order are paired (resolve.py compatible, else-branch, never looks at the order) and the bond silently
gets the order of the first one (resolve.py:319)."""
import sys
from cgsmiles.resolve import MoleculeResolver

def inter(s, legacy):
    mol = MoleculeResolver.from_string(s, legacy=legacy).resolve_all()[1]
    return [(mol.nodes[a]['mapping'][0], mol.nodes[b]['mapping'][0], d['order'], d['bonding'])
            for a, b, d in mol.edges(data=True) if 'bonding' in d]
bad = False
s = "{[#X][#Y]}.{#X=C[$],#Y=C=[$]}"
for legacy in (True, False):
    print(s, "legacy", legacy, "->", inter(s, legacy))
print("expected: no bond under both conventions ($ of order 1 and $ of order 2 are not a compatible pair)")
bad = bad or inter(s, False) != []
s = "{[#A][#B]}.{#A=C=[$]C[$],#B=[$]C}"
for legacy in (True, False):
    print(s, "legacy", legacy, "->", inter(s, legacy))
print("expected under both conventions: single bond A:1 - B:0 through the two order-1 descriptors; =[$] is left over")
r = inter(s, False)
bad = bad or not (len(r) == 1 and r[0][2] == 1 and set(r[0][3]) == {'$1'})
print("VIOLATION" if bad else "ok")
sys.exit(1 if bad else 0)
