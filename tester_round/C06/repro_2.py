"""
C06 violation 2: a coarse fragment that ends with a multiplied branch cannot
be read (IndexError), although the same graph is accepted as base graph.  The
layered spelling of the documented mPEG-acrylate graft polymer therefore
cannot be resolved.

run: cd /tmp/hunt/C06 && PYTHONPATH=/tmp/hunt/C06 /venv/bin/python hunt_out/repro_2.py
"""
import sys
import networkx as nx
from cgsmiles.resolve import MoleculeResolver

frags = "{#PMA=[<]CC[>]C(=O)OC[$],#PEG=[$]COC[$]}"
two = "{[#PMA]([#PEG]|3)|5}." + frags                       # from docs/source/gettingstarted
three = "{[#BLK]}.{#BLK=[#PMA]([#PEG]|3)|5}." + frags        # same graph one level down
small = "{[#M]}.{#M=[#A]([#B])|2}.{#A=[#a][$][$],#B=[$][#b]}"  # smallest, coarse last level

fail = False
low, ref = MoleculeResolver.from_string(two).resolve_all()
print("two level  :", two, "->", len(ref), "atoms")
for s, aa in ((three, True), (small, False)):
    try:
        low, high = MoleculeResolver.from_string(s, last_all_atom=aa).resolve_all()
        print("layered    :", s, "->", len(high), "nodes")
        if aa:
            ok = nx.is_isomorphic(ref, high, node_match=lambda a, b: a['element'] == b['element'],
                                  edge_match=lambda a, b: a['order'] == b['order'])
            print("   isomorphic to two level:", ok)
            fail |= not ok
    except Exception as err:
        print("layered    :", s, "-> raises", type(err).__name__ + ":", err)
        fail = True
print("EXPECTED: the layered string resolves to the same molecule as the two level string")
print("VIOLATION PRESENT" if fail else "no violation")
sys.exit(1 if fail else 0)
