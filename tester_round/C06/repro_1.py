"""
C06 violation 1: in a COARSE fragment a bonding descriptor (or annotation)
written after a multiplied node / branch is attached to the wrong node, so a
layered string is not equivalent to the two-level string in which the block
node has been replaced by its fragment.

run: cd /tmp/hunt/C06 && PYTHONPATH=/tmp/hunt/C06 /venv/bin/python hunt_out/repro_1.py
"""
import sys
import networkx as nx
from cgsmiles.resolve import MoleculeResolver
from cgsmiles.read_fragments import read_fragments


def final(s, all_atom):
    low, high = MoleculeResolver.from_string(s, last_all_atom=all_atom).resolve_all()
    return high


def same(g1, g2, key):
    return nx.is_isomorphic(g1, g2,
                            node_match=lambda a, b: a.get(key) == b.get(key),
                            edge_match=lambda a, b: a['order'] == b['order'])


fail = False

# (a) the parsing step on its own: [#A]|3 is documented to be the same as
#     [#A][#A][#A]; the descriptor follows node B / the last A
for short, long_ in (("[#A]|3[#B][$]", "[#A][#A][#A][#B][$]"),
                     ("[#A]|3[$]", "[#A][#A][#A][$]"),
                     ("[<][#A]|4[>]", "[<][#A][#A][#A][#A][>]"),
                     ("[#A]([#B])|2[#C][>]", "[#A]([#B])[#A]([#B])[#C][>]")):
    g1 = read_fragments("{#X=%s}" % short, all_atom=False)['X']
    g2 = read_fragments("{#X=%s}" % long_, all_atom=False)['X']
    b1 = {n: (g1.nodes[n]['atomname'], g1.nodes[n].get('bonding')) for n in g1.nodes if g1.nodes[n].get('bonding')}
    b2 = {n: (g2.nodes[n]['atomname'], g2.nodes[n].get('bonding')) for n in g2.nodes if g2.nodes[n].get('bonding')}
    print(f"fragment {short:24s} descriptors on {b1}")
    print(f"   spelled out {long_:30s} descriptors on {b2}")
    if b1 != b2:
        fail = True

# (b) the property: block copolymer, three levels against two levels
three = "{[#B1][#B2]}.{#B1=[#PEO]|3[>],#B2=[<][#PE]|3}.{#PEO=[>]COC[<],#PE=[>]CC[<]}"
control = "{[#B1][#B2]}.{#B1=[#PEO][#PEO][#PEO][>],#B2=[<][#PE][#PE][#PE]}.{#PEO=[>]COC[<],#PE=[>]CC[<]}"
two = "{[#PEO]|3[#PE]|3}.{#PEO=[>]COC[<],#PE=[>]CC[<]}"
g3, gc, g2 = final(three, True), final(control, True), final(two, True)
print()
print("two level      :", two)
print("   atoms", len(g2), "bonds", g2.number_of_edges(), "components", nx.number_connected_components(g2))
print("three level    :", three)
print("   atoms", len(g3), "bonds", g3.number_of_edges(), "components", nx.number_connected_components(g3))
print("   isomorphic to the two level molecule:", same(g2, g3, 'element'))
print("three level, multiplier spelled out:", control)
print("   isomorphic to the two level molecule:", same(g2, gc, 'element'))
if not same(g2, g3, 'element'):
    fail = True

# (c) smallest coarse example
three = "{[#X][#X]}.{#X=[#A]|3[#B][$]}"
two = "{[#A]|3[#B][#B][#A]|3}"
low, high = MoleculeResolver.from_string(three, last_all_atom=False).resolve_all()
bonded = [(high.nodes[a]['atomname'], high.nodes[b]['atomname']) for a, b, d in high.edges(data=True) if 'bonding' in d]
print()
print(three, "-> the two X are joined through", bonded, "; expected [('B', 'B')]")
if bonded != [('B', 'B')]:
    fail = True

print()
print("EXPECTED: descriptor on the node it follows (B, resp. the last copy of A); layered == two-level")
print("VIOLATION PRESENT" if fail else "no violation")
sys.exit(1 if fail else 0)
