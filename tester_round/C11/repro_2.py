"""C11 / finding 2: a virtual branch next to a multiplied branch.
read_cgsmiles.py:148 starts the recipe of a branch with `attributes`, the attributes of the
node parsed LAST, and overwrites an existing recipe of the same anchor. When the branch is the
second one on its anchor, the repeated "anchor" is therefore the last node of the previous
branch (here the virtual node, which then gets an order-1 edge), or the first nested branch
is lost in the copies."""
import sys
from common_repro import *
bad = False
FR = ".{#A=[>]CO[<],#B=[$]CN[$],#C=[$]CS,#D=[$]CF}"

print('--- (a) virtual branch in front of a multiplied branch')
base = "{[#A]([#B])|2}" + FR
deco = "{[#A].([#V])([#B])|2}" + FR
print(base, '\n   coarse:', *coarse(base))
print(deco, '\n   coarse:', *coarse(deco))
print('   real-node analogue {[#A]([#C])([#B])|2}:', *coarse("{[#A]([#C])([#B])|2}"))
ref = fine(base)
try:
    got = fine(deco)
    same = got[:3] == ref[:3]
    print('   resolves; same fine molecule as base:', same)
    bad |= not same
except Exception as e:
    print('   observed: %s: %s' % (type(e).__name__, e))
    bad = True
print('   expected: anchors A repeated (A-A edge, one V per A or only on the first A), every V with order-0 edges only,')
print('             fine molecule identical to', base.split('}')[0] + '}')

print('--- (b) virtual branch after a nested branch inside a multiplied branch')
FR2 = ".{#A=[>]C([$])O[<],#B=[$]C([$])N[$],#C=[$]CS,#D=[$]CF}"
base = "{[#A]([#B]([#C])[#D])|2}" + FR2
deco = "{[#A]([#B]([#C]).([#V])[#D])|2}" + FR2
print(base, '\n   coarse:', *coarse(base))
print(deco, '\n   coarse:', *coarse(deco))
ref = fine(base)
try:
    got = fine(deco)
    same = got[:3] == ref[:3]
    print('   number of real coarse nodes: base %d, decorated %d' % (len(ref[2]), len(got[2])))
    print('   same fine molecule as base:', same)
    bad |= not same
except Exception as e:
    print('   observed: %s: %s' % (type(e).__name__, e))
    bad = True
print('   expected: 8 real coarse nodes (A B C D A B C D) and an unchanged fine molecule; the second copy has lost C')
if bad:
    print('VIOLATION')
    sys.exit(1)
print('no violation')
