"""C11 / finding 3: a virtual branch inside a branch that is multiplied three or more times.
read_cgsmiles.py:304-335: `prev_node = base_anchor` is executed after the loop over the copies,
not at the end of every copy, so from the third copy on the repeated anchor is attached to the
first node of the last nested branch of the previous copy (here the virtual node, with order 1)."""
import sys
from common_repro import *
FR = ".{#A=[>]C([$])O[<],#B=[$]C([$])N[$],#C=[$]CS,#D=[$]CF}"
base = "{[#A]([#B][#D])|3}" + FR
deco = "{[#A]([#B].([#V])[#D])|3}" + FR
deco2 = "{[#A]([#B].([#V])[#D])|2}" + FR
bad = False
print(base, '\n   coarse:', *coarse(base))
print(deco2, ' (two copies: fine)\n   coarse:', *coarse(deco2))
print(deco, '\n   coarse:', *coarse(deco))
print('   real-node analogue {[#A]([#B]([#C])[#D])|3}:', *coarse("{[#A]([#B]([#C])[#D])|3}"))
ref = fine(base)
try:
    got = fine(deco)
    same = got[:3] == ref[:3]
    print('   resolves; same fine molecule as base:', same)
    bad |= not same
except Exception as e:
    print('   observed: %s: %s' % (type(e).__name__, e))
    bad = True
print('   expected: third A attached to the second A (edge (4, 8)), all edges of V of order 0, fine molecule identical to the base')
if bad:
    print('VIOLATION')
    sys.exit(1)
print('no violation')
