"""C11 / finding 1: a virtual node attached as a branch to the LAST node of a branch ("...))")
changes the fine molecule: the node after the two closing braces is attached to the
wrong anchor (read_cgsmiles.py:263-277 pops only one branch anchor per node)."""
import sys
from common_repro import *
FR = ".{#A=[$]CO[$],#B=[$]CN[$],#C=[$]CS[$]}"
base = "{[#A]([#B])[#C]}" + FR
deco = "{[#A]([#B].([#V]))[#C]}" + FR      # same graph + virtual node V on B
ok_form = "{[#A]([#B].[#V])[#C]}" + FR     # same graph written without the inner braces
bad = False
ref = fine(base)
for s in (deco, ok_form):
    print(s)
    print('   coarse graph read:', *coarse(s))
    got = fine(s)
    same = got[:3] == ref[:3]
    print('   heavy-atom bonds :', heavy_str(got[3]))
    print('   identical to the molecule of', base.split('}')[0] + '}', ':', same)
    if s == deco and not same:
        bad = True
print('reference heavy-atom bonds:', heavy_str(ref[3]))
print('real-node analogue (no virtual node involved):', *coarse("{[#A]([#B]([#D]))[#C]}"))
print()
print('expected: C bonded to A in every case (edge (0, 3) in the coarse graph, atoms of C attached to the atoms of A)')
if bad:
    print('observed: with ".([#V]))" node C is attached to B -> VIOLATION')
    sys.exit(1)
print('no violation')
