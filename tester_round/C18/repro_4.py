"""C18 violation 4: the weight a bead uses for an atom it shares ([!]) with a neighbour is not
the weight written in the bead's own fragment but the one of whichever copy survived the squash,
so the bead position depends on the order in which the two beads are written."""
import sys, warnings
import numpy as np
from cgsmiles import MoleculeResolver
from cgsmiles.coordinates import forward_map_molecule

FRAGS = ".{#A=C[C;w=0.25][!],#B=[!][C;w=0.75]O}"
# atom coordinates, keyed by (fragment, index in fragment); the shared carbon is ('A',1) == ('B',0)
XYZ = {('A', 0): np.array([0., 0., 0.]), ('A', 1): np.array([1.5, 0., 0.]), ('B', 0): np.array([1.5, 0., 0.]), ('B', 1): np.array([3., 0., 0.])}

def beads(cgs):
    cg, aa = MoleculeResolver.from_string(cgs + FRAGS).resolve()
    for n, d in aa.nodes(data=True):
        if d['element'] != 'H':
            aa.nodes[n]['position'] = XYZ[d['mapping'][0]]
    for n, d in aa.nodes(data=True):            # hydrogens sit on their heavy atom, keeps the arithmetic simple
        if d['element'] == 'H':
            aa.nodes[n]['position'] = aa.nodes[next(iter(aa[n]))]['position']
    forward_map_molecule(cg, aa)
    shared = [n for n, d in aa.nodes(data=True) if d['element'] == 'C' and len(d['fragid']) == 2][0]
    return {cg.nodes[b]['fragname']: cg.nodes[b]['position'] for b in cg.nodes}, aa.nodes[shared]['weight']

# independent expectation: every bead uses the weights written in its own fragment
# A = CH3 (w 1, 4 atoms at x=0) + shared CH2 with w 0.25 (3 atoms at x=1.5)
# B = shared CH2 with w 0.75 (3 atoms at x=1.5) + OH (w 1, 2 atoms at x=3)
exp = {'A': (4*1*0.0 + 3*0.25*1.5) / (4 + 3*0.25), 'B': (3*0.75*1.5 + 2*1*3.0) / (3*0.75 + 2)}
p1, w1 = beads("{[#A][#B]}")
p2, w2 = beads("{[#B][#A]}")
print("weight of the shared carbon:  {[#A][#B]} ->", w1, "   {[#B][#A]} ->", w2)
bad = False
for name in 'AB':
    print(f"bead {name}: x = {p1[name][0]:.4f} when written [#A][#B], x = {p2[name][0]:.4f} when written [#B][#A], expected {exp[name]:.4f} in both")
    if not (np.isclose(p1[name][0], exp[name]) and np.isclose(p2[name][0], exp[name])):
        bad = True
print("VIOLATION: bead position depends on the writing order of the beads / ignores the bead's own weight of the shared atom" if bad else "ok")
sys.exit(1 if bad else 0)
