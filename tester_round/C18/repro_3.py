"""C18 violation 3: embed_3d_via_rdkit raises for every molecule that contains a bond of
order 0 (SMILES '.', e.g. an ion pair inside one fragment); no coordinates are stored."""
import sys, warnings
import numpy as np
from cgsmiles import MoleculeResolver
from cgsmiles.rdkit import embed_3d_via_rdkit
from cgsmiles.coordinates import embedd_cg_molecule_via_rdkit
from rdkit import RDLogger; RDLogger.DisableLog("rdApp.*")
bad = False
for s in ["{[#A]}.{#A=[Na+].[Cl-]}", "{[#A]}.{#A=CC(=O)[O-].[Na+]}", "{[#A][#B]}.{#A=CC(=O)[O-].[$],#B=[$].[Na+]}"]:
    cg, aa = MoleculeResolver.from_string(s).resolve()
    print(s, ' zero order bonds:', [(u, v) for u, v, o in aa.edges(data='order') if o == 0])
    try:
        embedd_cg_molecule_via_rdkit(cg, aa)
    except Exception as err:
        bad = True
        print("   observed: ", type(err).__name__, str(err).split('\n')[1:3])
        print("   expected:  a position on each of the", len(aa), "atoms and on each bead")
        continue
    ok = all(isinstance(aa.nodes[n].get('position'), np.ndarray) for n in aa.nodes)
    print("   positions stored:", ok)
    bad |= not ok
print("VIOLATION" if bad else "ok")
sys.exit(1 if bad else 0)
