"""C18 violation 1: graph -> RDKit -> graph does not preserve bond orders, RDKit's
aromaticity model is applied on the way (Chem.SanitizeMol in networkx_to_rdkit)."""
import sys, warnings
from cgsmiles import MoleculeResolver
from cgsmiles.rdkit import networkx_to_rdkit, rdkit_to_networkx

CASES = ["{[#A]}.{#A=C1=COC=C1}",                 # furan (pysmiles/CGsmiles: not aromatic)
         "{[#A]}.{#A=C1=CSC=C1}",                 # thiophene, named in docs/source/syntax/chirality.rst
         "{[#A]1[#B][#C]1}.{#A=[>][<]N,#B=[$]N=C[>],#C=[$]C(C)=C[<]}",  # 4-methyl imidazole, string recommended by the package's own error message
         "{[#A]}.{#A=c1ccc1}",                    # cyclobutadiene: aromatic for CGsmiles, not for RDKit
         ]
bad = False
for s in CASES:
    with warnings.catch_warnings():
        warnings.simplefilter('ignore')
        cg, aa = MoleculeResolver.from_string(s).resolve()
    nodes = list(aa.nodes)                       # atom i of the RDKit mol is the i-th node
    idx = {n: i for i, n in enumerate(nodes)}
    out = rdkit_to_networkx(networkx_to_rdkit(aa))
    print(s)
    for u, v, o in aa.edges(data='order'):
        o2 = out.edges[idx[u], idx[v]]['order']
        if o != o2:
            bad = True
            print(f"   bond {aa.nodes[u]['element']}{u}-{aa.nodes[v]['element']}{v}: order in = {o}, after round trip = {o2}   (expected {o})")
print("VIOLATION: bond orders changed by the round trip" if bad else "ok: all bond orders preserved")
sys.exit(1 if bad else 0)
