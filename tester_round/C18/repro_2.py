"""C18 violation 2: graph -> RDKit -> graph changes formal charges and a bond order of
pentavalent nitrogen (nitro group written N(=O)=O): Chem.SanitizeMol's clean-up step
rewrites it to the charge separated form."""
import sys, warnings
from cgsmiles import MoleculeResolver
from cgsmiles.rdkit import networkx_to_rdkit, rdkit_to_networkx
s = "{[#A]}.{#A=CN(=O)=O}"
cg, aa = MoleculeResolver.from_string(s).resolve()
nodes = list(aa.nodes); idx = {n: i for i, n in enumerate(nodes)}
out = rdkit_to_networkx(networkx_to_rdkit(aa))
bad = False
print(s)
for n in nodes:
    a, b = aa.nodes[n], out.nodes[idx[n]]
    if a.get('charge', 0) != b['charge'] or a['element'] != b['element']:
        bad = True
        print(f"   atom {a['element']}{n}: charge in = {a.get('charge', 0)}, after round trip = {b['charge']}  (expected {a.get('charge', 0)})")
for u, v, o in aa.edges(data='order'):
    o2 = out.edges[idx[u], idx[v]]['order']
    if o != o2:
        bad = True
        print(f"   bond {aa.nodes[u]['element']}{u}-{aa.nodes[v]['element']}{v}: order in = {o}, after round trip = {o2}  (expected {o})")
print("VIOLATION: charges / bond order changed by the round trip" if bad else "ok")
sys.exit(1 if bad else 0)
