"""
C01 violation 2: a base graph in which a branch ends with a parenthesised sub-branch
("...))") attaches the node after the closing braces to the wrong node, so the resolved
molecule has wrong bonds (here: the N-P bond is lost, the molecule falls apart, O gets P).

run:  cd /tmp/hunt/C01 && PYTHONPATH=/tmp/hunt/C01 /venv/bin/python hunt_out/repro_2.py
"""
import sys, io, contextlib
import networkx as nx
from cgsmiles.resolve import MoleculeResolver
from cgsmiles.read_cgsmiles import read_cgsmiles


def resolve(s):
    with contextlib.redirect_stdout(io.StringIO()):
        return MoleculeResolver.from_string(s).resolve_all()[1]


def same(g1, g2):
    nm = lambda a, b: a['element'] == b['element'] and a.get('charge', 0) == b.get('charge', 0)
    em = lambda a, b: a['order'] == b['order']
    return nx.is_isomorphic(g1, g2, node_match=nm, edge_match=em)


def heavy_bonds(g):
    return sorted((tuple(sorted((g.nodes[a]['element'], g.nodes[b]['element']))), d['order'])
                  for a, b, d in g.edges(data=True) if 'H' not in (g.nodes[a]['element'], g.nodes[b]['element']))


# molecule: P-N-O-S  i.e. SMILES  PN(OS) ... N bonded to P and O, O bonded to S
uncut = '{[#M]}.{#M=PNOS}'
frags = '{#A=N[$1][$3],#B=[$1]O[$2],#C=[$2]S,#D=[$3]P}'
good = '{[#A]([#B][#C])[#D]}.' + frags      # same base graph, conventional braces
bad_ = '{[#A]([#B]([#C]))[#D]}.' + frags    # same base graph, C in its own (redundant) branch
g = read_cgsmiles('{[#A]([#B]([#C]))[#D]}')
print('base graph {[#A]([#B]([#C]))[#D]} read as edges',
      sorted(tuple(sorted((g.nodes[a]['fragname'], g.nodes[b]['fragname']))) for a, b in g.edges),
      ' EXPECTED [(A,B), (A,D), (B,C)]')
U, G, B = resolve(uncut), resolve(good), resolve(bad_)
print('uncut             ', uncut, heavy_bonds(U))
print('cut, [#B][#C])    ', good, heavy_bonds(G), 'same as uncut:', same(U, G))
print('cut, [#B]([#C]))  ', bad_, heavy_bonds(B), 'same as uncut:', same(U, B))
if not same(U, B):
    print('EXPECTED: both cut strings give the uncut molecule P-N-O-S')
    sys.exit(1)
