"""
C01 violation 3 (lower confidence, see findings.md): the order of a base graph ring-closure
edge is only honoured when the bond order symbol stands in front of the OPENING ring marker;
in front of the closing marker it is silently ignored, so only one of the two cut bonds
between the fragments is made and the open valences are filled with hydrogens.

molecule: bicyclo[2.1.0]pentane C1C2CC2C1, fragments A={C1,C2} B={C3} C={C4,C5},
two cut bonds between A and C.

run:  cd /tmp/hunt/C01 && PYTHONPATH=/tmp/hunt/C01 /venv/bin/python hunt_out/repro_3.py
"""
import sys, io, contextlib
import networkx as nx
from cgsmiles.resolve import MoleculeResolver
from cgsmiles.read_cgsmiles import read_cgsmiles


def resolve(s):
    with contextlib.redirect_stdout(io.StringIO()):
        return MoleculeResolver.from_string(s).resolve_all()[1]


def same(g1, g2):
    nm = lambda a, b: a['element'] == b['element'] and a.get('charge', 0) == b.get('charge', 0)
    em = lambda a, b: a['order'] == b['order']
    return nx.is_isomorphic(g1, g2, node_match=nm, edge_match=em)


def summary(g):
    heavy = [n for n, e in g.nodes(data='element') if e != 'H']
    nb = sum(1 for a, b in g.edges if a in heavy and b in heavy)
    return 'C%dH%d, %d C-C bonds' % (len(heavy), len(g) - len(heavy), nb)


uncut = '{[#M]}.{#M=C1C2CC2C1}'
frags = '{#A=C[$a]C[$b][$c],#B=[$b]C[$d],#C=[$d]C[$c]C[$a]}'
opening = '{[#A]=1[#B][#C]1}.' + frags
closing = '{[#A]1[#B][#C]=1}.' + frags
for b in ('{[#A]=1[#B][#C]1}', '{[#A]1[#B][#C]=1}'):
    g = read_cgsmiles(b)
    print('base graph', b, 'read as', sorted((g.nodes[x]['fragname'], g.nodes[y]['fragname'], d['order']) for x, y, d in g.edges(data=True)))
U, O, C = resolve(uncut), resolve(opening), resolve(closing)
print('uncut                    ', uncut, summary(U))
print('cut, symbol at opening   ', opening, summary(O), 'same as uncut:', same(U, O))
print('cut, symbol at closing   ', closing, summary(C), 'same as uncut:', same(U, C))
if not same(U, C):
    print('EXPECTED: C5H8 with 6 C-C bonds in all three cases')
    sys.exit(1)
