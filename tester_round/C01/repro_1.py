"""
C01 violation 1: an aromatic ring written in the lowercase shorthand that contains a
bracket atom with an explicit hydrogen ([nH], also [cH-], [cH+]) resolves correctly as one
fragment, but raises SyntaxError -- or silently loses the N-H hydrogens -- as soon as a
cut is placed on a ring bond of that atom.

run:  cd /tmp/hunt/C01 && PYTHONPATH=/tmp/hunt/C01 /venv/bin/python hunt_out/repro_1.py
"""
import sys, io, contextlib
import networkx as nx
from cgsmiles.resolve import MoleculeResolver


def resolve(s):
    with contextlib.redirect_stdout(io.StringIO()):
        return MoleculeResolver.from_string(s).resolve_all()[1]


def same(g1, g2):
    nm = lambda a, b: a['element'] == b['element'] and a.get('charge', 0) == b.get('charge', 0)
    em = lambda a, b: a['order'] == b['order']
    return nx.is_isomorphic(g1, g2, node_match=nm, edge_match=em)


def formula(g):
    out = {}
    for _, e in g.nodes(data='element'):
        out[e] = out.get(e, 0) + 1
    return ''.join('%s%d' % kv for kv in sorted(out.items()))


def nh(g):
    return sorted(sum(1 for m in g[n] if g.nodes[m]['element'] == 'H')
                  for n, e in g.nodes(data='element') if e == 'N')


bad = 0
CASES = [
    # (name, uncut, cut)
    ('pyrrole, N as its own fragment',
     '{[#M]}.{#M=[nH]1cccc1}',
     '{[#A]=[#B]}.{#A=[$a][nH][$b],#B=[$a]cccc[$b]}'),
    ('pyrrole, cut N-C2 and C3-C4',
     '{[#M]}.{#M=[nH]1cccc1}',
     '{[#A]=[#B]}.{#A=[$a][nH]cc[$b],#B=[$a]cc[$b]}'),
    ('1,4-dihydropyrazine written lowercase, two halves',
     '{[#M]}.{#M=[nH]1cc[nH]cc1}',
     '{[#A]=[#B]}.{#A=[$a][nH]cc[$b],#B=[$a]cc[nH][$b]}'),
    ('porphine, the two N-H atoms as their own fragments',
     '{[#M]}.{#M=c1cc2cc3ccc(cc4ccc(cc5ccc(cc1n2)[nH]5)n4)[nH]3}',
     '{[#F0]=[#F2]=[#F1]}.{#F2=c9c8cc[$0]ccc[$3]cc1nc(cc1)cc[$1]ccc[$2]cc(c9)n8,#F1=[nH][$1][$2],#F0=[nH][$0][$3]}'),
]
for name, uncut, cut in CASES:
    U = resolve(uncut)
    print(name)
    print('   uncut   ', uncut, '->', formula(U), 'H on N:', nh(U))
    try:
        R = resolve(cut)
    except BaseException as err:
        print('   cut     ', cut, '-> raises', type(err).__name__)
        print('   EXPECTED the same molecule as the uncut string')
        bad += 1
        continue
    ok = same(U, R)
    print('   cut     ', cut, '->', formula(R), 'H on N:', nh(R), 'same molecule:', ok)
    if not ok:
        print('   EXPECTED the same molecule as the uncut string')
        bad += 1
sys.exit(1 if bad else 0)
