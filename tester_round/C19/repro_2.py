"""C19 violation 2: vespr_refined_layout does not deliver the requested default bond length.
Unlike vespr_layout (graph_layout.py:61-68) it never rescales after the minimisation, and the
pseudo force field has an absolute length scale: the r**-8 repulsion of _nonbonded_potential
(graph_layout_utils.py:214-223) and the fixed bond force constant (line 196) are not scaled
with default_bond.  For default_bond < ~0.5 the drawing is blown up to bonds of ~0.2-0.35
whatever was requested; frustrated graphs (4 mutually bonded beads) miss the value even at 1.

run: cd /tmp/hunt/C19 && PYTHONPATH=/tmp/hunt/C19 /venv/bin/python hunt_out/repro_2.py
"""
import sys
import numpy as np
from cgsmiles import read_cgsmiles
from cgsmiles.graph_layout import vespr_layout, vespr_refined_layout

def mean_bond(g, pos):
    return float(np.mean([np.linalg.norm(pos[a] - pos[b]) for a, b in g.edges]))

TOL = 0.02   # 2 % relative; vespr_layout is exact to 1e-12
bad = False
cases = [("{[#A][#B][#A]}", 0.1), ("{[#A][#B][#A]}", 0.2), ("{[#A][#B][#A]}", 0.3),
         ("{[#A][#B][#A]}", 1.0),                       # control, fine
         ("{[#A]12[#B]3[#C]1[#D]23}", 1.0)]             # four mutually bonded beads
for cgs, bond in cases:
    g = read_cgsmiles(cgs)
    for seed in (0, 1):
        np.random.seed(seed)
        ref = mean_bond(g, vespr_layout(g, default_bond=bond))
        np.random.seed(seed)
        got = mean_bond(g, vespr_refined_layout(g, default_bond=bond))
        flag = abs(got - bond) > TOL * bond
        bad |= flag
        print("%-26s default_bond=%-4s seed=%d  vespr mean=%.4f  vespr_refined mean=%.4f (x%.2f) %s"
              % (cgs, bond, seed, ref, got, got / bond, "<-- VIOLATION" if flag else "ok"))
print("expected: mean bond length == default_bond for every layout, so that molecules share one scale")
sys.exit(1 if bad else 0)
