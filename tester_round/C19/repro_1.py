"""C19 violation 1: vespr_refined_layout (the DEFAULT layout of draw_molecule) returns no
positions at all for any molecule that carries a cis/trans annotation: it raises ValueError
from numpy.cross, because _dihedral_potential feeds 2D vectors into dihedral_angle_between
(linalg_functions.py:45-46), which numpy >= 2.x rejects (only 3D vectors allowed).

run: cd /tmp/hunt/C19 && PYTHONPATH=/tmp/hunt/C19 /venv/bin/python hunt_out/repro_1.py
"""
import sys
import numpy as np
from cgsmiles import MoleculeResolver
from cgsmiles.graph_layout import vespr_layout, vespr_refined_layout

cgs = "{[#A]}.{#A=F/C=C/F}"          # trans-1,2-difluoroethene, documented cis/trans syntax
_, mol = MoleculeResolver.from_string(cgs).resolve()
print("input:", cgs, " numpy", np.__version__)

# control: the plain layout works on the same graph
pos = vespr_layout(mol, default_bond=1)
print("vespr_layout         -> %d finite positions" % sum(np.all(np.isfinite(p)) for p in pos.values()))

bad = False
try:
    pos = vespr_refined_layout(mol, default_bond=1)
    ok = len(pos) == len(mol) and all(np.all(np.isfinite(p)) for p in pos.values())
    print("vespr_refined_layout -> %d positions, all finite: %s" % (len(pos), ok))
    bad = not ok
except Exception as err:
    print("observed: vespr_refined_layout raised %s: %s" % (type(err).__name__, err))
    bad = True
print("expected: one finite 2D position for each of the %d nodes" % len(mol))
sys.exit(1 if bad else 0)
