"""C19 violation 3 (layout method 'circular', documented in draw_molecule as one of the three
layout options): it cannot be used through draw_molecule at all, crashes when an alignment axis
is given, and silently drops every node that is not on the first cycle.

run: cd /tmp/hunt/C19 && PYTHONPATH=/tmp/hunt/C19 /venv/bin/python hunt_out/repro_3.py
"""
import sys
import matplotlib
matplotlib.use("Agg")
import matplotlib.pyplot as plt
import numpy as np
from cgsmiles import MoleculeResolver
from cgsmiles.drawing import draw_molecule
from cgsmiles.graph_layout import circular_layout

bad = False
_, ring = MoleculeResolver.from_string("{[#A]}.{#A=c1ccccc1}").resolve()   # benzene with H
ring_only = ring.subgraph([n for n, e in ring.nodes(data='element') if e != 'H']).copy()

# (a) via the public drawing function
try:
    fig, ax = plt.subplots()
    draw_molecule(ring_only, ax=ax, layout_method='circular', cg_mapping=False)
    print("(a) draw_molecule(layout_method='circular') ok")
except Exception as err:
    bad = True
    print("(a) observed: draw_molecule(..., layout_method='circular') raised %s: %s" % (type(err).__name__, err))
    print("    expected: a drawing / a position per node (drawing.py:185 always passes default_bond=, "
          "circular_layout (graph_layout.py:70) does not accept it)")

# (b) direct call with an alignment axis (draw_molecule always passes one, default 'diag')
try:
    pos = circular_layout(ring_only, radius=1.0, align_with=np.array([1., 0.]))
    print("(b) circular_layout(align_with=[1,0]) ok")
except Exception as err:
    bad = True
    print("(b) observed: circular_layout(ring, 1.0, align_with=[1,0]) raised %s: %s" % (type(err).__name__, err))
    print("    expected: positions (graph_layout.py:92-94 uses `pos` before it is assigned)")

# (c) ring with substituents: nodes are dropped
pos = circular_layout(ring, radius=1.0)
print("(c) benzene incl. hydrogens: %d nodes, circular_layout returned %d positions" % (len(ring), len(pos)))
if len(pos) != len(ring):
    bad = True
    print("    expected: one position per node (graph_layout.py:97 only visits nx.find_cycle edges)")
sys.exit(1 if bad else 0)
