"""
C09 violation 3: an aromatic atom shared between two fragments ('!' squash operator)
gets a hydrogen too many (and the ring loses its aromatic bonds) depending on which of
the two fragments comes first in the coarse graph.

Cause: squash_atoms (resolve.py:349-366) keeps the node of the first fragment with ITS
'hcount'.  That value was computed when the fragment was read, i.e. without the ring bonds
that only the other copy has (here: c bonded to one CH2 -> hcount 3, minus 1.5 for the '!'
bond in resolve.py:328-333 = 1.5).  correct_aromatic_rings (pysmiles_utils.py:73, run before
the reset in line 83) adds this stale hcount to the three real bonds, finds the valence
"full", leaves the atom without ring double bond, and fill_valence then adds a hydrogen.
"""
# run: cd /tmp/hunt/C09 && PYTHONPATH=/tmp/hunt/C09 /venv/bin/python hunt_out/repro_3.py
import io, contextlib, logging
from collections import Counter
import networkx as nx
logging.disable(logging.WARNING)
from cgsmiles.resolve import MoleculeResolver

def resolve(s):
    """returns (molecule, None) or (None, exception)"""
    try:
        with contextlib.redirect_stdout(io.StringIO()):
            _, mol = MoleculeResolver.from_string(s).resolve_all()
        return mol, None
    except BaseException as err:      # SyntaxError from rebuild_h_atoms
        return None, err

def formula(mol):
    c = Counter(nx.get_node_attributes(mol, 'element').values())
    return ''.join(f'{e}{c[e]}' for e in sorted(c))

def h_on(mol, element):
    """hydrogens per atom of the given element"""
    return sorted(sum(1 for m in mol[n] if mol.nodes[m]['element'] == 'H')
                  for n, e in mol.nodes(data='element') if e == element)

import sys

frags = "{#A=[!a]cCCCCc[!b],#B=[!a]c1ccccc1[!b]}"      # tetralin: aliphatic bead shares the two ring atoms
CASES = [("tetralin, aliphatic bead first", "{[#A]=[#B]}." + frags),
         ("tetralin, aromatic bead first", "{[#B]=[#A]}." + frags),
         ("tetralin, one fragment", "{[#T]}.{#T=c1ccc2CCCCc2c1}")]
bad = 0
for name, s in CASES:
    mol, err = resolve(s)
    print(f"{name}\n   input    {s}\n   expected C10H12, hydrogens per C: [0, 0, 1, 1, 1, 1, 2, 2, 2, 2]")
    if err is not None:
        print(f"   observed {type(err).__name__}")
        continue
    print(f"   observed {formula(mol)}, hydrogens per C: {h_on(mol, 'C')}")
    for n, d in mol.nodes(data=True):
        if d['element'] == 'H':
            a = next(iter(mol[n]))
            assert len(mol[n]) == 1
    if formula(mol) != 'C10H12':
        print("   --> VIOLATION: the two shared ring atoms carry one hydrogen each although their three")
        print("       heavy-atom bonds (two aromatic, one single) use up the valence of carbon")
        bad += 1
print("\nsame defect, one shared atom -> string rejected depending on fragment order:")
for s in ["{[#A][#B]}.{#A=Cc[!],#B=[!]c1ccccc1}", "{[#B][#A]}.{#A=Cc[!],#B=[!]c1ccccc1}"]:
    mol, err = resolve(s)
    print(f"   {s:45s} -> {formula(mol) if mol is not None else type(err).__name__}   (toluene, expected C7H8)")
sys.exit(1 if bad else 0)
