"""
C09 violation 2: a written hydrogen ([nH]) is dropped when the ring bond next to it
is a bond between fragments.

Cause: resolve.py:325-333 lowers 'hcount' of both atoms of every new inter-fragment bond
(by 1.5 for aromatic atoms).  For a bracket atom such as [nH] the hcount is the WRITTEN
hydrogen, not an open valence, so it drops from 1 to 0.  rebuild_h_atoms ->
correct_aromatic_rings (pysmiles_utils.py:73, before the reset in line 83) then believes the
N still needs a bond, gives it a ring double bond, and fill_valence adds no hydrogen.
With an odd number of such atoms the string is rejected with SyntaxError instead.
"""
# run: cd /tmp/hunt/C09 && PYTHONPATH=/tmp/hunt/C09 /venv/bin/python hunt_out/repro_2.py
import io, contextlib, logging
from collections import Counter
import networkx as nx
logging.disable(logging.WARNING)
from cgsmiles.resolve import MoleculeResolver

def resolve(s):
    """returns (molecule, None) or (None, exception)"""
    try:
        with contextlib.redirect_stdout(io.StringIO()):
            _, mol = MoleculeResolver.from_string(s).resolve_all()
        return mol, None
    except BaseException as err:      # SyntaxError from rebuild_h_atoms
        return None, err

def formula(mol):
    c = Counter(nx.get_node_attributes(mol, 'element').values())
    return ''.join(f'{e}{c[e]}' for e in sorted(c))

def h_on(mol, element):
    """hydrogens per atom of the given element"""
    return sorted(sum(1 for m in mol[n] if mol.nodes[m]['element'] == 'H')
                  for n, e in mol.nodes(data='element') if e == element)

import sys

CASES = [
    # 1,4-dihydropyrazine as a ring of two identical units; three spellings of the same molecule
    ("1,4-dihydropyrazine, cut next to N", "{[#A]=[#A]}.{#A=[>][nH]cc[<]}"),
    ("1,4-dihydropyrazine, cut between C and C", "{[#A]=[#A]}.{#A=[>]c[nH]c[<]}"),
    ("1,4-dihydropyrazine, one fragment", "{[#A]}.{#A=[nH]1cc[nH]cc1}"),
]
bad = 0
for name, s in CASES:
    mol, err = resolve(s)
    print(f"{name}\n   input    {s}\n   expected C4H6N2, H on N: [1, 1]")
    if err is not None:
        print(f"   observed {type(err).__name__}")
        continue
    print(f"   observed {formula(mol)}, H on N: {h_on(mol, 'N')}")
    if h_on(mol, 'N') != [1, 1]:
        print("   --> VIOLATION: the explicitly written hydrogens of [nH] are gone")
        bad += 1

print("\nsame defect, odd number of affected atoms -> legal string rejected (unsplit spelling resolves):")
for name, s in [("pyrrole, one fragment", "{[#A]}.{#A=[nH]1cccc1}"),
                ("pyrrole, cut next to N", "{[#A]=[#B]}.{#A=[$a][nH]c[$b],#B=[$a]ccc[$b]}"),
                ("pyrrole, cut elsewhere", "{[#A]=[#B]}.{#A=[$a]c[nH]c[$b],#B=[$a]cc[$b]}"),
                ("indole, one fragment", "{[#A]}.{#A=c1ccc2[nH]ccc2c1}"),
                ("indole, N-H bead cut next to N", "{[#A]=[#B]}.{#A=c1ccc([$a])c([$b])c1,#B=[$a][nH]cc[$b]}")]:
    mol, err = resolve(s)
    print(f"   {name:35s} {s:60s} -> {formula(mol) if mol is not None else type(err).__name__}")
sys.exit(1 if bad else 0)
