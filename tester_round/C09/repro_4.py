"""
C09 violation 4: the sampler returns molecules in which ring atoms written as aromatic
carry a hydrogen too many, when the bonding descriptor sits on an aromatic atom.

Cause: MoleculeSampler.add_fragment (sample.py:295-301) adds the inter-fragment edge but,
unlike the resolver (resolve.py:324-333), does not lower 'hcount' of the two atoms.
rebuild_h_atoms -> correct_aromatic_rings (pysmiles_utils.py:73, before the reset in line 83)
therefore sees c with 3 bonds + stale hcount 1 = full valence, gives it no ring double bond,
and fill_valence adds a hydrogen.  If a ring has an open descriptor left the same stale value
makes the sampler raise SyntaxError instead.
"""
# run: cd /tmp/hunt/C09 && PYTHONPATH=/tmp/hunt/C09 /venv/bin/python hunt_out/repro_4.py
import io, contextlib, logging
from collections import Counter
import networkx as nx
logging.disable(logging.WARNING)
from cgsmiles.resolve import MoleculeResolver

def resolve(s):
    """returns (molecule, None) or (None, exception)"""
    try:
        with contextlib.redirect_stdout(io.StringIO()):
            _, mol = MoleculeResolver.from_string(s).resolve_all()
        return mol, None
    except BaseException as err:      # SyntaxError from rebuild_h_atoms
        return None, err

def formula(mol):
    c = Counter(nx.get_node_attributes(mol, 'element').values())
    return ''.join(f'{e}{c[e]}' for e in sorted(c))

def h_on(mol, element):
    """hydrogens per atom of the given element"""
    return sorted(sum(1 for m in mol[n] if mol.nodes[m]['element'] == 'H')
                  for n, e in mol.nodes(data='element') if e == element)

import sys, io, contextlib
from collections import Counter
from cgsmiles.sample import MoleculeSampler

frags = "{#B=[$]c1ccc([$])cc1,#M=[$]C}"
ref, _ = resolve("{[#M][#B][#M]}." + frags)
print("fragments", frags)
print("resolver, {[#M][#B][#M]} (p-xylene):", formula(ref), "  expected C8H10")
outcomes = Counter()
bad = 0
for seed in range(60):
    try:
        with contextlib.redirect_stdout(io.StringIO()):
            sampler = MoleculeSampler.from_fragment_string(frags, seed=seed, polymer_reactivities={'$': 1})
            mol = sampler.sample(20, start_fragment='B')
    except SyntaxError:
        outcomes['SyntaxError'] += 1
        continue
    names = Counter(name for _, name in {(tuple(d['fragid']), d['fragname']) for _, d in mol.nodes(data=True)})
    n_b, n_m = names['B'], names['M']
    # tree of fragments: every B is C6H4 + open descriptors, every M is CH3 + open descriptor
    n_open = 2 * n_b + n_m - 2 * (n_b + n_m - 1)
    exp = f"C{6 * n_b + n_m}H{4 * n_b + 3 * n_m + n_open}"
    ok = formula(mol) == exp
    outcomes[f"{dict(names)} -> {formula(mol)} (expected {exp})"] += 1
    if not ok:
        bad += 1
        if bad == 1:
            ring_h = sorted(sum(1 for m in mol[n] if mol.nodes[m]['element'] == 'H')
                            for n, d in mol.nodes(data=True) if d['fragname'] == 'B' and d['element'] == 'C')
            print(f"seed {seed}: sampler returned {formula(mol)}; hydrogens on the six ring carbons {ring_h}, expected [0, 0, 1, 1, 1, 1];",
                  "bond orders", sorted({o for *_, o in mol.edges(data='order')}))
for k, v in outcomes.items():
    print(f"{v:3d} x {k}")
if bad:
    print("--> VIOLATION: sampler output with over-hydrogenated ring atoms (1,4-cyclohexadiene instead of benzene ring)")
sys.exit(1 if bad else 0)
