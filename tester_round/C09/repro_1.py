"""
C09 violation 1: lower-case (aromatic) S / O / N-substituted N atoms get a hydrogen
they must not have (S-H, O-H, N-H with valence 4/4/5), or the string is rejected.

Cause: read_fragment_smiles reads with reinterpret_aromatic=False, so pysmiles computes
the implicit hcount from bond order 1.5 (thiophene S: 1.5+1.5=3 -> next valence 4 -> hcount 1;
n(C): 1.5+1.5+1=4 -> next valence 5 -> hcount 1).  rebuild_h_atoms calls
correct_aromatic_rings (pysmiles_utils.py:73) BEFORE the hcount reset (line 83); that function
uses the stale hcount to decide which atoms still need a double bond, so S / O / N are given a
ring double bond; fill_valence then tops them up to the next valence with one hydrogen.
"""
# run: cd /tmp/hunt/C09 && PYTHONPATH=/tmp/hunt/C09 /venv/bin/python hunt_out/repro_1.py
import io, contextlib, logging
from collections import Counter
import networkx as nx
logging.disable(logging.WARNING)
from cgsmiles.resolve import MoleculeResolver

def resolve(s):
    """returns (molecule, None) or (None, exception)"""
    try:
        with contextlib.redirect_stdout(io.StringIO()):
            _, mol = MoleculeResolver.from_string(s).resolve_all()
        return mol, None
    except BaseException as err:      # SyntaxError from rebuild_h_atoms
        return None, err

def formula(mol):
    c = Counter(nx.get_node_attributes(mol, 'element').values())
    return ''.join(f'{e}{c[e]}' for e in sorted(c))

def h_on(mol, element):
    """hydrogens per atom of the given element"""
    return sorted(sum(1 for m in mol[n] if mol.nodes[m]['element'] == 'H')
                  for n, e in mol.nodes(data='element') if e == element)

import sys

# (description, aromatic spelling, Kekule spelling of the same molecule, expected formula, element, expected H on it)
CASES = [
    ("2,2'-bithiophene", "{[#A]}.{#A=c1ccsc1-c1cccs1}", "{[#A]}.{#A=C1=CSC(=C1)C1=CC=CS1}", "C8H6S2", 'S', [0, 0]),
    ("quaterthiophene as polymer", "{[#T]|4}.{#T=[$]c1ccc([$])s1}", "{[#T]|4}.{#T=[$]C1=CC=C([$])S1}", "C16H10S4", 'S', [0] * 4),
    ("poly(furan) tetramer", "{[#T]|4}.{#T=[$]c1ccc([$])o1}", "{[#T]|4}.{#T=[$]C1=CC=C([$])O1}", "C16H10O4", 'O', [0] * 4),
    ("1,4-dithiine", "{[#A]}.{#A=s1ccscc1}", "{[#A]}.{#A=S1C=CSC=C1}", "C4H4S2", 'S', [0, 0]),
    ("dibenzo-p-dioxin", "{[#A]}.{#A=c1ccc2c(c1)oc1ccccc1o2}", "{[#A]}.{#A=c1ccc2c(c1)Oc1ccccc1O2}", "C12H8O2", 'O', [0, 0]),
    ("1,4-dimethyl-1,4-dihydropyrazine", "{[#A]}.{#A=Cn1ccn(C)cc1}", "{[#A]}.{#A=CN1C=CN(C)C=C1}", "C6H10N2", 'N', [0, 0]),
    ("N,N'-dimethyl-2,2'-bipyrrole", "{[#A]}.{#A=Cn1cccc1-c1cccn1C}", "{[#A]}.{#A=CN1C=CC=C1C1=CC=CN1C}", "C10H12N2", 'N', [0, 0]),
    ("thieno[3,2-b]thiophene", "{[#A]}.{#A=c1cc2sccc2s1}", "{[#A]}.{#A=C1=CC2=C(S1)C=CS2}", "C6H4S2", 'S', [0, 0]),
    ("thiophene", "{[#A]}.{#A=c1ccsc1}", "{[#A]}.{#A=C1=CSC=C1}", "C4H4S1", 'S', [0]),
    ("N-methylpyrrole", "{[#A]}.{#A=Cn1cccc1}", "{[#A]}.{#A=CN1C=CC=C1}", "C5H7N1", 'N', [0]),
    ("N-methylpyrrole, methyl in its own fragment (works)", "{[#M][#A]}.{#M=[$]C,#A=[$]n1cccc1}", "{[#A]}.{#A=CN1C=CC=C1}", "C5H7N1", 'N', [0]),
]
wrong = rejected = 0
try:
    from rdkit import Chem, RDLogger
    from rdkit.Chem.rdMolDescriptors import CalcMolFormula
    RDLogger.DisableLog('rdApp.*')
except ImportError:
    Chem = None
for name, arom, kek, exp_formula, el, exp_h in CASES:
    mol, err = resolve(arom)
    ref, _ = resolve(kek)
    print(f"{name}\n   input    {arom}")
    print(f"   expected {exp_formula}, H on {el}: {exp_h}   (Kekule spelling {kek} gives {formula(ref)}, H on {el}: {h_on(ref, el)})")
    if Chem is not None and arom.startswith("{[#A]}.{#A="):
        print(f"   RDKit formula of the same SMILES: {CalcMolFormula(Chem.MolFromSmiles(arom[len('{[#A]}.{#A='):-1]))}")
    if err is not None:
        print(f"   observed {type(err).__name__} (string rejected)")
        rejected += 1
        continue
    print(f"   observed {formula(mol)}, H on {el}: {h_on(mol, el)}")
    if formula(mol) != exp_formula or h_on(mol, el) != exp_h:
        print("   --> VIOLATION: hydrogen on an atom whose heavy-atom bonds already fill its smallest valence")
        wrong += 1
print(f"\n{wrong} molecules returned with wrong hydrogens, {rejected} legal strings rejected")
sys.exit(1 if wrong else 0)
