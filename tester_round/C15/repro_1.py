"""C15 / finding 1: the cis/trans relation depends on the order in which the base graph lists the
fragments (and can even turn into a ValueError)."""
import sys

# ---- helpers (only resolve and read out attributes) ----
import logging
import networkx as nx
logging.disable(logging.CRITICAL)
from cgsmiles.resolve import MoleculeResolver

def relations(cgsmiles_str):
    """resolve and return the cis/trans relations as a sorted list of
    ((ligand element, ligand element), 'cis'|'trans'), or the exception text"""
    try:
        _, mol = MoleculeResolver.from_string(cgsmiles_str).resolve()
    except Exception as err:           # noqa
        return f"{type(err).__name__}: {err}"
    els = nx.get_node_attributes(mol, 'element')
    out = set()
    for node, tuples in nx.get_node_attributes(mol, 'ez_isomer').items():
        for lig1, anc1, anc2, lig2, rel in tuples:
            ok = (mol.has_edge(lig1, anc1) and mol.has_edge(anc1, anc2) and mol.has_edge(anc2, lig2)
                  and mol.edges[anc1, anc2]['order'] == 2)
            key = tuple(sorted([els[lig1] + '-' + els[anc1], els[lig2] + '-' + els[anc2]]))
            out.add((key, rel if ok else rel + ' (BROKEN PATH)'))
    return sorted(out)

def chiral_labels(cgsmiles_str):
    """resolve and return {sorted neighbour elements of the labelled atom: label}"""
    try:
        _, mol = MoleculeResolver.from_string(cgsmiles_str).resolve()
    except Exception as err:           # noqa
        return f"{type(err).__name__}: {err}"
    out = {}
    for node, lab in nx.get_node_attributes(mol, 'chiral').items():
        out[''.join(sorted(mol.nodes[n]['element'] for n in mol[node]))] = lab
    return out
# ---- end helpers ----

bad = 0
cases = [
  # (description, expected relation of the whole molecule, equivalent inputs)
  ("F/C=C/Cl cut at the double bond", [(('Cl-C', 'F-C'), 'trans')],
   ["{[#A]}.{#A=F/C=C/Cl}",
    "{[#A][#B]}.{#A=F/C=[$],#B=[$]=C/Cl}",
    "{[#B][#A]}.{#A=F/C=[$],#B=[$]=C/Cl}"]),
  ("F/C=C/Cl cut at the single bond F-C", [(('Cl-C', 'F-C'), 'trans')],
   ["{[#A][#B]}.{#A=F/[$],#B=[$]/C=C/Cl}",
    "{[#B][#A]}.{#A=F/[$],#B=[$]/C=C/Cl}"]),
  ("C/C(=C/Br)/I cut at the single bond C-I", [(('Br-C', 'C-C'), 'trans'), (('Br-C', 'I-C'), 'cis')],
   ["{[#A]}.{#A=C/C(=C/Br)/I}",
    "{[#A][#B]}.{#A=C/C(=C/Br)/[$],#B=[$]/I}",
    "{[#B][#A]}.{#A=C/C(=C/Br)/[$],#B=[$]/I}"]),
]
for descr, expected, inputs in cases:
    print(descr, '   expected:', expected)
    for s in inputs:
        got = relations(s)
        flag = 'ok ' if got == expected else 'BAD'
        bad += got != expected
        print(f"   {flag} {s:50s} -> {got}")
sys.exit(1 if bad else 0)
