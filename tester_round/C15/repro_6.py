"""C15 / finding 6 (depends on how docs/source/syntax/chirality.rst is read: "the relative position needs to be
assigned only once as if constructing the complete SMILES string"): when the bond that carries the slash is
the one that is cut and the slash is written once, the stereo information is silently dropped (slash on the
side of the double bond atom) or a ValueError is raised (slash on the side of the substituent)."""
import sys

# ---- helpers (only resolve and read out attributes) ----
import logging
import networkx as nx
logging.disable(logging.CRITICAL)
from cgsmiles.resolve import MoleculeResolver

def relations(cgsmiles_str):
    """resolve and return the cis/trans relations as a sorted list of
    ((ligand element, ligand element), 'cis'|'trans'), or the exception text"""
    try:
        _, mol = MoleculeResolver.from_string(cgsmiles_str).resolve()
    except Exception as err:           # noqa
        return f"{type(err).__name__}: {err}"
    els = nx.get_node_attributes(mol, 'element')
    out = set()
    for node, tuples in nx.get_node_attributes(mol, 'ez_isomer').items():
        for lig1, anc1, anc2, lig2, rel in tuples:
            ok = (mol.has_edge(lig1, anc1) and mol.has_edge(anc1, anc2) and mol.has_edge(anc2, lig2)
                  and mol.edges[anc1, anc2]['order'] == 2)
            key = tuple(sorted([els[lig1] + '-' + els[anc1], els[lig2] + '-' + els[anc2]]))
            out.add((key, rel if ok else rel + ' (BROKEN PATH)'))
    return sorted(out)

def chiral_labels(cgsmiles_str):
    """resolve and return {sorted neighbour elements of the labelled atom: label}"""
    try:
        _, mol = MoleculeResolver.from_string(cgsmiles_str).resolve()
    except Exception as err:           # noqa
        return f"{type(err).__name__}: {err}"
    out = {}
    for node, lab in nx.get_node_attributes(mol, 'chiral').items():
        out[''.join(sorted(mol.nodes[n]['element'] for n in mol[node]))] = lab
    return out
# ---- end helpers ----

bad = 0
expected = [(('C-C', 'N-C'), 'cis')]     # C\C=C/N
for s in ["{[#A]}.{#A=C\\C=C/N}",
          "{[#A][#B]}.{#A=C\\C=C/[$],#B=[$]/N}",     # written twice: works
          "{[#A][#B]}.{#A=C\\C=C/[$],#B=[$]N}",      # once, next to the double bond atom: silently no stereo
          "{[#A][#B]}.{#A=C\\C=C[$],#B=[$]/N}"]:     # once, next to the substituent: ValueError
    got = relations(s)
    bad += got != expected
    print('ok ' if got == expected else 'BAD', s, '->', got, '  expected', expected)
sys.exit(1 if bad else 0)
