"""C15 / finding 3: a fragment that consists of one atom without implicit hydrogen (bracket atom such as
[O-], [H], [C;x=S]) loses its slash mark (early return in pysmiles_utils.py:177-184 before :204-206),
the double bond silently loses its cis/trans relation."""
import sys

# ---- helpers (only resolve and read out attributes) ----
import logging
import networkx as nx
logging.disable(logging.CRITICAL)
from cgsmiles.resolve import MoleculeResolver

def relations(cgsmiles_str):
    """resolve and return the cis/trans relations as a sorted list of
    ((ligand element, ligand element), 'cis'|'trans'), or the exception text"""
    try:
        _, mol = MoleculeResolver.from_string(cgsmiles_str).resolve()
    except Exception as err:           # noqa
        return f"{type(err).__name__}: {err}"
    els = nx.get_node_attributes(mol, 'element')
    out = set()
    for node, tuples in nx.get_node_attributes(mol, 'ez_isomer').items():
        for lig1, anc1, anc2, lig2, rel in tuples:
            ok = (mol.has_edge(lig1, anc1) and mol.has_edge(anc1, anc2) and mol.has_edge(anc2, lig2)
                  and mol.edges[anc1, anc2]['order'] == 2)
            key = tuple(sorted([els[lig1] + '-' + els[anc1], els[lig2] + '-' + els[anc2]]))
            out.add((key, rel if ok else rel + ' (BROKEN PATH)'))
    return sorted(out)

def chiral_labels(cgsmiles_str):
    """resolve and return {sorted neighbour elements of the labelled atom: label}"""
    try:
        _, mol = MoleculeResolver.from_string(cgsmiles_str).resolve()
    except Exception as err:           # noqa
        return f"{type(err).__name__}: {err}"
    out = {}
    for node, lab in nx.get_node_attributes(mol, 'chiral').items():
        out[''.join(sorted(mol.nodes[n]['element'] for n in mol[node]))] = lab
    return out
# ---- end helpers ----

bad = 0
for whole, cut, expected in [
    ("{[#A]}.{#A=[O-]/C=C/F}", "{[#A][#B]}.{#A=[O-]/[$],#B=[$]/C=C/F}", [(('F-C', 'O-C'), 'trans')]),
    ("{[#A]}.{#A=[H]/C(Cl)=C/F}", "{[#A][#B]}.{#A=[H]/[$],#B=[$]/C(Cl)=C/F}", [(('F-C', 'H-C'), 'trans')]),
    ("{[#A]}.{#A=[C;x=S]\\C=C\\I}", "{[#A][#B]}.{#A=[C;x=S]\\[$],#B=[$]\\C=C\\I}", [(('C-C', 'I-C'), 'trans')]),
    ]:
    for s in (whole, cut):
        got = relations(s)
        bad += got != expected
        print('ok ' if got == expected else 'BAD', s, '->', got, '  expected', expected)
# control: the same cut with an atom that has implicit hydrogens works
print('control', relations("{[#A][#B]}.{#A=O/[$],#B=[$]/C=C/F}"))
sys.exit(1 if bad else 0)
