"""C15 / finding 2: a slash written in front of a bonding descriptor is attached to the NEXT ATOM WRITTEN
in the fragment string (read_fragments.py:200), which is not the atom behind the descriptor."""
import sys

# ---- helpers (only resolve and read out attributes) ----
import logging
import networkx as nx
logging.disable(logging.CRITICAL)
from cgsmiles.resolve import MoleculeResolver

def relations(cgsmiles_str):
    """resolve and return the cis/trans relations as a sorted list of
    ((ligand element, ligand element), 'cis'|'trans'), or the exception text"""
    try:
        _, mol = MoleculeResolver.from_string(cgsmiles_str).resolve()
    except Exception as err:           # noqa
        return f"{type(err).__name__}: {err}"
    els = nx.get_node_attributes(mol, 'element')
    out = set()
    for node, tuples in nx.get_node_attributes(mol, 'ez_isomer').items():
        for lig1, anc1, anc2, lig2, rel in tuples:
            ok = (mol.has_edge(lig1, anc1) and mol.has_edge(anc1, anc2) and mol.has_edge(anc2, lig2)
                  and mol.edges[anc1, anc2]['order'] == 2)
            key = tuple(sorted([els[lig1] + '-' + els[anc1], els[lig2] + '-' + els[anc2]]))
            out.add((key, rel if ok else rel + ' (BROKEN PATH)'))
    return sorted(out)

def chiral_labels(cgsmiles_str):
    """resolve and return {sorted neighbour elements of the labelled atom: label}"""
    try:
        _, mol = MoleculeResolver.from_string(cgsmiles_str).resolve()
    except Exception as err:           # noqa
        return f"{type(err).__name__}: {err}"
    out = {}
    for node, lab in nx.get_node_attributes(mol, 'chiral').items():
        out[''.join(sorted(mol.nodes[n]['element'] for n in mol[node]))] = lab
    return out
# ---- end helpers ----

bad = 0
expected = [(('Br-C', 'Cl-C'), 'cis')]      # C(/Br)(F)=C/Cl : Br up, Cl up -> cis (F is then trans to Cl)
print("molecule C(/Br)(F)=C/Cl, expected", expected)
for s in ["{[#A]}.{#A=C(/Br)(F)=C/Cl}",
          "{[#A][#B]}.{#A=C(F)(/[$])=C/Cl,#B=[$]/Br}",     # descriptor branch written last: fine
          "{[#A][#B]}.{#A=C(/[$])(F)=C/Cl,#B=[$]/Br}",     # descriptor branch written first: F gets the mark
          ]:
    got = relations(s)
    bad += got != expected
    print('   ', 'ok ' if got == expected else 'BAD', s, '->', got)
# same thing with the mark written once (on the side of the double bond atom): silently wrong relation
expected2_any_of = ([(('Br-C', 'Cl-C'), 'cis')], [(('Cl-C', 'F-C'), 'trans')],
                    [(('Br-C', 'Cl-C'), 'cis'), (('Cl-C', 'F-C'), 'trans')])
s = "{[#A][#B]}.{#A=C(/[$])(F)=C/Cl,#B=[$]Br}"
got = relations(s)
okay = got in expected2_any_of
bad += not okay
print('   ', 'ok ' if okay else 'BAD', s, '->', got, '  (F is TRANS to Cl in this molecule)')
sys.exit(1 if bad else 0)
