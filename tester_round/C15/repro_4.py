"""C15 / finding 4: slash marks are stored per ATOM (read_fragments.py:199-201, one entry per atom, the last
mark written next to an atom wins).  An atom that sits next to two marks keeps only one of them, so the
relation that is computed depends on how the molecule is cut / in which order the branches are written."""
import sys

# ---- helpers (only resolve and read out attributes) ----
import logging
import networkx as nx
logging.disable(logging.CRITICAL)
from cgsmiles.resolve import MoleculeResolver

def relations(cgsmiles_str):
    """resolve and return the cis/trans relations as a sorted list of
    ((ligand element, ligand element), 'cis'|'trans'), or the exception text"""
    try:
        _, mol = MoleculeResolver.from_string(cgsmiles_str).resolve()
    except Exception as err:           # noqa
        return f"{type(err).__name__}: {err}"
    els = nx.get_node_attributes(mol, 'element')
    out = set()
    for node, tuples in nx.get_node_attributes(mol, 'ez_isomer').items():
        for lig1, anc1, anc2, lig2, rel in tuples:
            ok = (mol.has_edge(lig1, anc1) and mol.has_edge(anc1, anc2) and mol.has_edge(anc2, lig2)
                  and mol.edges[anc1, anc2]['order'] == 2)
            key = tuple(sorted([els[lig1] + '-' + els[anc1], els[lig2] + '-' + els[anc2]]))
            out.add((key, rel if ok else rel + ' (BROKEN PATH)'))
    return sorted(out)

def chiral_labels(cgsmiles_str):
    """resolve and return {sorted neighbour elements of the labelled atom: label}"""
    try:
        _, mol = MoleculeResolver.from_string(cgsmiles_str).resolve()
    except Exception as err:           # noqa
        return f"{type(err).__name__}: {err}"
    out = {}
    for node, lab in nx.get_node_attributes(mol, 'chiral').items():
        out[''.join(sorted(mol.nodes[n]['element'] for n in mol[node]))] = lab
    return out
# ---- end helpers ----

bad = 0
# 2-chloro-hexa-2,4-diene type molecule  C\C=C(/C=C\F)\Cl
#   bond C1=C2 : C0 (C0\C1 -> up)  vs  C3 (C2/C3 -> up) -> cis ;  C0 vs Cl (C2\Cl -> down) -> trans
#   bond C3=C4 : C2 (C2/C3 -> down seen from C3)  vs F (C4\F -> down) -> cis
expected = [(('C-C', 'C-C'), 'cis'), (('C-C', 'Cl-C'), 'trans'), (('C-C', 'F-C'), 'cis')]
print("C\\C=C(/C=C\\F)\\Cl expected", expected)
for s in ["{[#A]}.{#A=C\\C=C(/C=C\\F)\\Cl}",
          "{[#A]}.{#A=C\\C=C(\\Cl)/C=C\\F}",                       # same molecule, branches swapped
          "{[#A][#B]}.{#A=C\\C=C(/[$])\\Cl,#B=[$]/C=C\\F}",
          "{[#A][#B]}.{#A=C\\C=C(\\Cl)/[$],#B=[$]/C=C\\F}"]:
    got = relations(s)
    bad += got != expected
    print('   ', 'ok ' if got == expected else 'BAD', s, '->', got)
# divinyl ether  F/C=C/O\C=C/Cl :  F,O trans ; O,Cl cis
expected = [(('Cl-C', 'O-C'), 'cis'), (('F-C', 'O-C'), 'trans')]
print("F/C=C/O\\C=C/Cl expected", expected)
for s in ["{[#A]}.{#A=F/C=C/O\\C=C/Cl}",
          "{[#A][#B]}.{#A=F/C=C/O\\[$],#B=[$]\\C=C/Cl}",
          "{[#A][#B]}.{#A=F/C=C/O[$],#B=[$]\\C=C/Cl}"]:
    got = relations(s)
    bad += got != expected
    print('   ', 'ok ' if got == expected else 'BAD', s, '->', got)
sys.exit(1 if bad else 0)
