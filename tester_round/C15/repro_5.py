"""C15 / finding 5: the squash operator keeps only the attributes of the atom of the fragment listed first
(resolve.py:359-366 copies fragid and mapping only); a chirality label or a slash mark written on the other
copy of the shared atom is dropped, so the result depends on the fragment order."""
import sys

# ---- helpers (only resolve and read out attributes) ----
import logging
import networkx as nx
logging.disable(logging.CRITICAL)
from cgsmiles.resolve import MoleculeResolver

def relations(cgsmiles_str):
    """resolve and return the cis/trans relations as a sorted list of
    ((ligand element, ligand element), 'cis'|'trans'), or the exception text"""
    try:
        _, mol = MoleculeResolver.from_string(cgsmiles_str).resolve()
    except Exception as err:           # noqa
        return f"{type(err).__name__}: {err}"
    els = nx.get_node_attributes(mol, 'element')
    out = set()
    for node, tuples in nx.get_node_attributes(mol, 'ez_isomer').items():
        for lig1, anc1, anc2, lig2, rel in tuples:
            ok = (mol.has_edge(lig1, anc1) and mol.has_edge(anc1, anc2) and mol.has_edge(anc2, lig2)
                  and mol.edges[anc1, anc2]['order'] == 2)
            key = tuple(sorted([els[lig1] + '-' + els[anc1], els[lig2] + '-' + els[anc2]]))
            out.add((key, rel if ok else rel + ' (BROKEN PATH)'))
    return sorted(out)

def chiral_labels(cgsmiles_str):
    """resolve and return {sorted neighbour elements of the labelled atom: label}"""
    try:
        _, mol = MoleculeResolver.from_string(cgsmiles_str).resolve()
    except Exception as err:           # noqa
        return f"{type(err).__name__}: {err}"
    out = {}
    for node, lab in nx.get_node_attributes(mol, 'chiral').items():
        out[''.join(sorted(mol.nodes[n]['element'] for n in mol[node]))] = lab
    return out
# ---- end helpers ----

bad = 0
expected = {'ClFHO': 'R'}     # the labelled carbon is the shared one, bonded to O, F, Cl and one H
for s in ["{[#A][#B]}.{#A=OC[!],#B=[!][C;x=R](F)Cl}",
          "{[#B][#A]}.{#A=OC[!],#B=[!][C;x=R](F)Cl}",
          "{[#A][#B]}.{#A=O[C;x=R][!],#B=[!]C(F)Cl}",
          "{[#B][#A]}.{#A=O[C;x=R][!],#B=[!]C(F)Cl}"]:
    got = chiral_labels(s)
    good = got == expected
    bad += not good
    print('ok ' if good else 'BAD', s, '-> chiral labels', got, '  expected', expected)
expected = [(('Cl-C', 'F-C'), 'trans')]
for s in ["{[#A][#B]}.{#A=F/C=C[!],#B=[!]C/Cl}",
          "{[#B][#A]}.{#A=F/C=C[!],#B=[!]C/Cl}"]:
    got = relations(s)
    bad += got != expected
    print('ok ' if got == expected else 'BAD', s, '->', got, '  expected', expected)
sys.exit(1 if bad else 0)
