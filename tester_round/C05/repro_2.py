"""ring bonds inside a multiplied branch are not repeated in the copies

run: cd /tmp/hunt/C05 && PYTHONPATH=/tmp/hunt/C05 /venv/bin/python hunt_out/repro_2.py
exits 1 while the violation exists, 0 otherwise
"""
import sys
import networkx as nx
from cgsmiles.read_cgsmiles import read_cgsmiles as read

def describe(g):
    nodes = [(n, {k: v for k, v in d.items()}) for n, d in g.nodes(data=True)]
    edges = [(a, b, d.get('order')) for a, b, d in g.edges(data=True)]
    return "nodes=%s\n              edges=%s" % (nodes, edges)

def same(gs, gl):
    return nx.is_isomorphic(gs, gl, node_match=lambda a, b: a == b,
                            edge_match=lambda a, b: a == b)

CASES = [('{[#A]([#B]1[#C][#D]1)|2}', '{[#A]([#B]1[#C][#D]1)[#A]([#B]1[#C][#D]1)}'), ('{[#A]1([#B][#C]1)|2}', '{[#A]1([#B][#C]1)[#A]1([#B][#C]1)}')]

bad = 0
for short, long_ in CASES:
    expected = read(long_)
    print("shorthand :", short)
    print("longhand  :", long_)
    print("  expected (longhand read): ", describe(expected))
    try:
        observed = read(short)
    except Exception as err:
        print("  observed (shorthand read):  raises %s: %s" % (type(err).__name__, err))
        print("  -> VIOLATION\n")
        bad += 1
        continue
    print("  observed (shorthand read): ", describe(observed))
    if same(observed, expected):
        print("  -> ok (isomorphic incl. node attributes and bond orders)\n")
    else:
        print("  -> VIOLATION: graphs are not isomorphic\n")
        bad += 1
sys.exit(1 if bad else 0)
