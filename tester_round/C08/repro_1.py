"""C08 violation 1: coarse (CGsmiles-format) fragments lose their node names (and
node annotations such as charges) in write_cgsmiles_fragments / write_cgsmiles.
Every node is written as [#<name of the fragment>] instead of [#<name of the node>]."""
import sys, logging
logging.disable(logging.CRITICAL)
import networkx as nx
from cgsmiles.read_fragments import read_fragments
from cgsmiles.write_cgsmiles import write_cgsmiles_fragments, write_cgsmiles
from cgsmiles import MoleculeResolver

bad = False

# (a) fragment level
frag_str = "{#A=[$][#B][#C;q=1]=[>x]}"
frags = read_fragments(frag_str, all_atom=False)
out = write_cgsmiles_fragments(frags, smiles_format=False)
frags2 = read_fragments(out, all_atom=False)
names = [frags['A'].nodes[n]['atomname'] for n in frags['A']]
names2 = [frags2['A'].nodes[n]['atomname'] for n in frags2['A']]
print("input fragment string :", frag_str)
print("written               :", out)
print("node names observed   :", names2, " expected:", names)
print("annotation q observed :", [frags2['A'].nodes[n].get('q') for n in frags2['A']],
      " expected:", [frags['A'].nodes[n].get('q') for n in frags['A']])
def nm(x, y):
    return x['atomname'] == y['atomname'] and x.get('bonding') == y.get('bonding')
if not nx.is_isomorphic(frags['A'], frags2['A'], node_match=nm,
                        edge_match=lambda x, y: x['order'] == y['order']):
    bad = True

# (b) complete string, example taken from the MoleculeResolver docstring
cgs = "{[#B1][#B2][#B1]}.{#B1=[#PEO]|4,#B2=[#PE]|2}.{#PEO=[>]COC[<],#PE=[>]CC[<]}"
res = MoleculeResolver.from_string(cgs)
out = write_cgsmiles(res.molecule, res.fragment_dicts)
print()
print("input string :", cgs)
print("written      :", out)
_, mol = MoleculeResolver.from_string(cgs).resolve_all()
print("expected     : resolves to the same molecule (%d atoms)" % len(mol))
try:
    _, mol2 = MoleculeResolver.from_string(out).resolve_all()
    same = nx.is_isomorphic(mol, mol2, node_match=lambda x, y: x['element'] == y['element'])
    print("observed     : resolves to %d atoms, isomorphic=%s" % (len(mol2), same))
    if not same:
        bad = True
except Exception as err:
    print("observed     : written string does not resolve:", repr(err))
    bad = True
sys.exit(1 if bad else 0)
