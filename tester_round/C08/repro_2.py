"""C08 violation 2: write_cgsmiles emits the children of a branching node in reversed
order (write_graph: `to_visit.extend(next_nodes)` + `to_visit.pop()`, first successor is
written last as the main chain).  Nodes therefore get a different numbering when the
written string is read again.  The resolver pairs bonding descriptors greedily in node /
edge order (resolve.py match_bonding_descriptors, edges_from_bonding_descrpt), so whenever
a fragment offers more descriptors of a kind than are consumed, the written string resolves
to a different molecule than the string it was written from."""
import sys, logging
logging.disable(logging.CRITICAL)
import networkx as nx
from cgsmiles import MoleculeResolver
from cgsmiles.write_cgsmiles import write_cgsmiles

def bonds(mol):
    return sorted(tuple(sorted((mol.nodes[a]['element'], mol.nodes[b]['element'])))
                  for a, b in mol.edges
                  if 'H' not in (mol.nodes[a]['element'], mol.nodes[b]['element']))

bad = False
for cgs in ("{[#A][#B]}.{#A=C(N[$])O[$],#B=[$]F}",                 # branch inside a fragment
            "{[#A]([#B])[#C]}.{#A=N[$]O[$],#B=[$]F,#C=[$]Cl}",     # branch in the coarse graph
            # graft polymer written with the undirected descriptor only
            "{[#PMA]([#PEO])[#PMA]}.{#PMA=[$]CC[$]C(=O)OC[$],#PEO=[$]COC[$]}"):
    res = MoleculeResolver.from_string(cgs)
    out = write_cgsmiles(res.molecule, res.fragment_dicts)
    _, mol = MoleculeResolver.from_string(cgs).resolve_all()
    _, mol2 = MoleculeResolver.from_string(out).resolve_all()
    same = nx.is_isomorphic(mol, mol2,
                            node_match=lambda x, y: x['element'] == y['element'],
                            edge_match=lambda x, y: x['order'] == y['order'])
    print("input    :", cgs)
    print("written  :", out)
    print("expected : heavy atom bonds", bonds(mol))
    print("observed : heavy atom bonds", bonds(mol2), "-> same molecule:", same)
    print()
    bad = bad or not same
sys.exit(1 if bad else 0)
