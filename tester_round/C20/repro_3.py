"""C20 violation 3: a ring bond that duplicates the edge between a branch anchor and the node
written after the branch is not rejected when the branch ends in a nested branch ('))' or ')|n)').
run: cd /tmp/hunt/C20 && PYTHONPATH=/tmp/hunt/C20 /venv/bin/python hunt_out/repro_3.py"""
import sys, os
sys.path.insert(0, os.path.dirname(__file__))
from cgsmiles import read_cgsmiles

def parse(s):
    try:
        g = read_cgsmiles(s)
        return "GRAPH", sorted((a, b) for a, b in g.edges)
    except Exception as err:
        return type(err).__name__, str(err)

bad = 0
# control: same fault, the branch does not end with a nested branch
print("control  ", "{[#A]1([#B]([#C])[#E])[#D]1}", "->", parse("{[#A]1([#B]([#C])[#E])[#D]1}")[0])
print("control  ", "{[#A]1([#B][#C])[#D]1}", "->", parse("{[#A]1([#B][#C])[#D]1}")[0])
for s in ["{[#A]1([#B]([#C]))[#D]1}",          # D is bonded to A (anchor) and ring 1 is A-D again
          "{[#A]1([#B]([#C])|2)[#D]1}",
          "{[#X][#A]1=([#B][#B]([#C]|3))[#D]1[#X]}"]:
    kind, res = parse(s)
    if kind == "GRAPH":
        bad += 1
        print("VIOLATION", s, "-> graph returned, edges", res)
    else:
        print("ok       ", s, "->", kind, res)
print("expected: SyntaxError (two edges between the same nodes): in [#A]1(...)[#D]1 node D follows the\n"
      "closed branch, so it is bonded to the anchor A, and ring bond 1 joins A and D a second time")
sys.exit(1 if bad else 0)
