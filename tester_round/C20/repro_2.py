"""C20 violation 2: a non-numeric charge (q=abc) or a non-numeric positional weight
(;0;abc) on a node of a coarse (CGsmiles) FRAGMENT raises nothing; the same annotation on a
node of the base graph raises TypeError as documented.
run: cd /tmp/hunt/C20 && PYTHONPATH=/tmp/hunt/C20 /venv/bin/python hunt_out/repro_2.py"""
import sys, os
sys.path.insert(0, os.path.dirname(__file__))
from _common import resolve

bad = 0
# control: base graph -> TypeError
for s in ["{[#A;q=abc][#B]}.{#A=[#a][$],#B=[#b][$]}", "{[#A;0;abc][#B]}.{#A=[#a][$],#B=[#b][$]}"]:
    kind, res = resolve(s, last_all_atom=False)
    print("control   %-62s -> %s" % (s, kind))
for s, aa in [("{[#A][#B]}.{#A=[#a;q=abc][$],#B=[#b][$]}", False),
              ("{[#A][#B]}.{#A=[#a;0;abc][$],#B=[#b][$]}", False),
              ("{[#A][#B]}.{#A=[#a][$],#B=[$][#b]([#c]|2[#d;q=abc])|2[#e]}", False),
              ("{[#A][#B]}.{#A=[#a;q=abc][$],#B=[#b][$]}.{#a=[$]C,#b=[$]C}", True)]:
    kind, res = resolve(s, last_all_atom=aa)
    if kind == "GRAPH":
        bad += 1
        attrs = [{k: v for k, v in d.items() if k in ("q", "charge", "weight", "chiral")} for _, d in res.nodes(data=True)][:1]
        print("VIOLATION %-62s -> graph returned, first node %s" % (s, attrs))
    else:
        print("ok        %-62s -> %s: %s" % (s, kind, res))
print("expected: TypeError (Argument 'q'/'w' must be of type float) for every non-control string")
sys.exit(1 if bad else 0)
