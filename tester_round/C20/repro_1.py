"""C20 violation 1: a ring index that is opened and never closed inside an all-atom
(OpenSMILES) fragment is silently accepted and a molecule is returned.
run: cd /tmp/hunt/C20 && PYTHONPATH=/tmp/hunt/C20 /venv/bin/python hunt_out/repro_1.py"""
import sys, os
sys.path.insert(0, os.path.dirname(__file__))
from _common import resolve

cases = ["{[#A]}.{#A=C1CC}",                       # smallest
         "{[#A]}.{#A=c1ccccc2}",                   # typo in the closing index of benzene
         "{[#A][#B]|3[#A]}.{#A=[$]CC,#B=[$]C1C[$]}",   # late fragment, multiplied unit
         "{[#X][#Y]}.{#X=[#a][#b][$],#Y=[$][#a]}.{#a=[$]C[$],#b=[$]CC%10}"]  # third resolution
bad = 0
for s in cases:
    kind, res = resolve(s)
    if kind == "GRAPH":
        bad += 1
        print("VIOLATION %-60s -> graph with %d nodes / %d edges returned" % (s, len(res), res.number_of_edges()))
    else:
        print("ok        %-60s -> %s: %s" % (s, kind, res))
print("expected: SyntaxError (dangling ring index) for every string; no graph")
sys.exit(1 if bad else 0)
