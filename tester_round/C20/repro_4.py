"""C20 violation 4: a one-node molecule whose node has no fragment definition resolves silently
to an EMPTY graph (the node has no edges at all, so 'all edges have order 0' is vacuously true
and the node is taken for a virtual node).
run: cd /tmp/hunt/C20 && PYTHONPATH=/tmp/hunt/C20 /venv/bin/python hunt_out/repro_4.py"""
import sys, os
sys.path.insert(0, os.path.dirname(__file__))
from _common import resolve

bad = 0
print("control  ", "{[#BENZ][#X]}.{#BENZENE=c1ccccc1,#X=C}", "->", resolve("{[#BENZ][#X]}.{#BENZENE=c1ccccc1[$],#X=[$]C}")[0])
for s, aa in [("{[#BENZ]}.{#BENZENE=c1ccccc1}", True),      # misspelt fragment name
              ("{[#A]|1}.{#B=CC}", True),
              ("{[#A]}.{#A=[#a]}.{#b=CC}", True)]:           # same at the third resolution
    kind, res = resolve(s, aa)
    if kind == "GRAPH":
        bad += 1
        print("VIOLATION", s, "-> graph with %d nodes returned" % len(res))
    else:
        print("ok       ", s, "->", kind, res)
print("expected: SyntaxError 'Found node #... but no corresponding fragment.'")
sys.exit(1 if bad else 0)
