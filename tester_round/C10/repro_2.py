"""
C10 violation 2: everything the REMOVED one of the two marked atoms carries
(except fragid/mapping) is dropped by the merge: its cis/trans token
(ez_isomer_class) and its annotations (e.g. chirality x=R).  Which of the two
atoms is removed depends on the order of the coarse nodes.

run: cd /tmp/hunt/C10 && PYTHONPATH=/tmp/hunt/C10 /venv/bin/python hunt_out/repro_2.py
"""
import sys, io, contextlib
from cgsmiles.resolve import MoleculeResolver


def resolve(s):
    with contextlib.redirect_stdout(io.StringIO()):
        return MoleculeResolver.from_string(s).resolve_all()[1]


def ez(mol):
    return sorted(set(e[-1] for n in mol for e in mol.nodes[n].get('ez_isomer', [])))


def chiral(mol):
    return sorted(v for n, v in mol.nodes(data='chiral') if v)


def run(s, fn):
    try:
        return fn(resolve(s))
    except Exception as err:
        return "%s: %s" % (type(err).__name__, err)


bad = False
print("== trans-1,2-difluoroethene F/C=C/F, the CH carrying the second F is shared")
ref = run("{[#A][#B]}.{#A=F/C=[$],#B=[$]=C/F}", ez)
a = run("{[#A][#B]}.{#A=F/C=C[!],#B=[!]C/F}", ez)
b = run("{[#B][#A]}.{#A=F/C=C[!],#B=[!]C/F}", ez)
print("   disjoint     {[#A][#B]}.{#A=F/C=[$],#B=[$]=C/F}    ->", ref)
print("   overlapping  {[#A][#B]}.{#A=F/C=C[!],#B=[!]C/F}    ->", a)
print("   same, coarse nodes swapped {[#B][#A]}...           ->", b)
print("   expected: ['trans'] for all three")
bad |= (a != ref or b != ref)

print("== chirality annotation written on one of the two marked atoms")
ref = run("{[#A][#B]}.{#A=O[$],#B=[$][C;x=R](F)C}", chiral)
a = run("{[#A][#B]}.{#A=OC[!],#B=[!][C;x=R](F)C}", chiral)
b = run("{[#B][#A]}.{#A=OC[!],#B=[!][C;x=R](F)C}", chiral)
print("   disjoint     {[#A][#B]}.{#A=O[$],#B=[$][C;x=R](F)C}  ->", ref)
print("   overlapping  {[#A][#B]}.{#A=OC[!],#B=[!][C;x=R](F)C} ->", a)
print("   same, coarse nodes swapped {[#B][#A]}...             ->", b)
print("   expected: ['R'] for all three")
bad |= (a != ref or b != ref)

if bad:
    print("observed: VIOLATION")
    sys.exit(1)
print("observed: no violation")
