"""
C10 violation 3: a shared atom that is an anchor of a cis/trans double bond
silently gets the OPPOSITE isomer.  The merged atom has fragid [i, j], sorting
the atoms by fragid moves it behind all other atoms of fragment i, and the
'/' '\\' tokens are interpreted by comparing node indices (ligand < anchor).

run: cd /tmp/hunt/C10 && PYTHONPATH=/tmp/hunt/C10 /venv/bin/python hunt_out/repro_3.py
"""
import sys, io, contextlib
from cgsmiles.resolve import MoleculeResolver


def ez(s):
    try:
        with contextlib.redirect_stdout(io.StringIO()):
            mol = MoleculeResolver.from_string(s).resolve_all()[1]
    except Exception as err:
        return "%s: %s" % (type(err).__name__, err)
    return sorted(set(e[-1] for n in mol for e in mol.nodes[n].get('ez_isomer', [])))


single = "{[#M]}.{#M=OC(/C)=C/C}"
disjoint = "{[#A][#B]}.{#A=[$]C(/C)=C/C,#B=[$]O}"
overlap = "{[#A][#B]}.{#A=[!]C(/C)=C/C,#B=[!]CO}"
res = {s: ez(s) for s in (single, disjoint, overlap)}
print("one fragment  %-45s -> %s" % (single, res[single]))
print("disjoint      %-45s -> %s" % (disjoint, res[disjoint]))
print("overlapping   %-45s -> %s" % (overlap, res[overlap]))
print("expected: the same isomer (cis; OpenSMILES C(/C)=C/C is cis) for all three")
if not (res[single] == res[disjoint] == res[overlap]):
    print("observed: VIOLATION")
    sys.exit(1)
print("observed: no violation")
