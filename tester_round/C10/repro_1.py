"""
C10 violation 1: a shared AROMATIC atom keeps a stale hydrogen count, so the
aromaticity correction on the merged graph drops it from the aromatic system.
Result: SyntaxError, or silently a different (non aromatic, over-hydrogenated)
molecule.  The outcome depends on which of the two marked atoms is kept, i.e.
on the order of the nodes in the coarse graph.

run: cd /tmp/hunt/C10 && PYTHONPATH=/tmp/hunt/C10 /venv/bin/python hunt_out/repro_1.py
"""
import sys, io, contextlib, collections
import networkx as nx
from cgsmiles.resolve import MoleculeResolver


def resolve(s):
    with contextlib.redirect_stdout(io.StringIO()):
        return MoleculeResolver.from_string(s).resolve_all()[1]


def summary(mol):
    form = collections.Counter(nx.get_node_attributes(mol, 'element').values())
    arom = sum(1 for n in mol if mol.nodes[n].get('aromatic'))
    return "formula %s, %d aromatic atoms" % (''.join('%s%d' % kv for kv in sorted(form.items())), arom)


def same(m1, m2):
    nm = lambda a, b: (a['element'], bool(a.get('aromatic')), a.get('charge', 0)) == \
                      (b['element'], bool(b.get('aromatic')), b.get('charge', 0))
    em = lambda a, b: a.get('order') == b.get('order')
    return nx.is_isomorphic(m1, m2, node_match=nm, edge_match=em)


CASES = [
    # name, overlapping description, same with the coarse nodes swapped, disjoint description
    ("toluene, ipso carbon shared",
     "{[#A][#B]}.{#A=Cc[!],#B=[!]c1ccccc1}",
     "{[#B][#A]}.{#A=Cc[!],#B=[!]c1ccccc1}",
     "{[#A][#B]}.{#A=C[$],#B=[$]c1ccccc1}"),
    ("o-xylene, the two substituted ring carbons shared",
     "{[#A]=[#B]}.{#A=[!]cc[!],#B=Cc[!]ccccc[!]C}",
     "{[#B]=[#A]}.{#A=[!]cc[!],#B=Cc[!]ccccc[!]C}",
     "{[#A]=[#B]}.{#A=[$]c(C)c(C)[$],#B=[$]cccc[$]}"),
]

bad = False
for name, overlap, swapped, disjoint in CASES:
    print("==", name)
    ref = resolve(disjoint)
    print("   reference (disjoint fragments)     %s -> %s" % (disjoint, summary(ref)))
    for label, s in (("overlapping", overlap), ("overlapping, coarse nodes swapped", swapped)):
        try:
            mol = resolve(s)
        except Exception as err:
            print("   %-34s %s -> %s: %s" % (label, s, type(err).__name__, str(err)[:60]))
            bad = True
            continue
        ok = same(mol, ref)
        print("   %-34s %s -> %s %s" % (label, s, summary(mol), "(same molecule)" if ok else "(DIFFERENT molecule)"))
        bad |= not ok
print()
print("expected: every overlapping description resolves to the reference molecule")
if bad:
    print("observed: VIOLATION (see above)")
    sys.exit(1)
print("observed: no violation")
