"""C12: atom names must be unique within each coarse node (all-atom result).
With the shared-atom operator [!] (documented toluene example) an atom that belongs
to two coarse nodes is renamed by the later coarse node, so that the earlier coarse
node ends up with duplicate names; the per-fragment graphs stored on the coarse
graph also disagree with the molecule about the name of the very same atom."""
import sys
from cgsmiles import MoleculeResolver

bad = False
for s in ["{[#A][#B]}.{#A=CC[!],#B=[!]CO}",
          "{[#SC4]1[#TC5][#TC5]1}.{#SC4=Cc(c[!])c[!],#TC5=[!]ccc[!]}"]:
    meta, mol = MoleculeResolver.from_string(s).resolve_all()
    print(s)
    for m in meta.nodes:
        members = sorted(k for k in mol.nodes if m in mol.nodes[k]['fragid'])
        names = [mol.nodes[k]['atomname'] for k in members]
        dups = sorted({n for n in names if names.count(n) > 1})
        print("  coarse node %s (%s): atoms %s" % (m, meta.nodes[m]['fragname'], list(zip(members, names))))
        if dups:
            bad = True
            print("    OBSERVED: duplicate atom names %s inside one coarse node" % dups)
            print("    EXPECTED: element + running index, unique within the coarse node")
        frag = meta.nodes[m]['graph']
        diff = [(k, frag.nodes[k]['atomname'], mol.nodes[k]['atomname']) for k in frag.nodes
                if frag.nodes[k]['atomname'] != mol.nodes[k]['atomname']]
        if diff:
            bad = True
            print("    OBSERVED: fragment graph of the coarse node and molecule disagree (key, name in fragment graph, name in molecule): %s" % diff)
sys.exit(1 if bad else 0)
