"""C12: the three constructors must give identical graphs.  MoleculeResolver.from_graph
documents only the 'fragname' node attribute as a requirement of the base graph (and
the class docstring builds the base graph with add_edges_from without any edge
attribute), but a base graph whose edges carry no 'order' attribute cannot be resolved."""
import sys
import networkx as nx
from cgsmiles import MoleculeResolver

frags = "{#B1=[#PEO]|4,#B2=[#PE]|2}.{#PEO=[>]COC[<],#PE=[>]CC[<]}"
ref_meta, ref = MoleculeResolver.from_string("{[#B1][#B2][#B1]}." + frags).resolve_all()

block_graph = nx.Graph()
block_graph.add_edges_from([(0, 1), (1, 2)])          # as in the class docstring
nx.set_node_attributes(block_graph, {0: "B1", 1: "B2", 2: "B1"}, 'fragname')
try:
    meta, mol = MoleculeResolver.from_graph(frags, block_graph).resolve_all()
except Exception as err:
    print("OBSERVED: from_graph(...).resolve_all() raises %r" % err)
    print("EXPECTED: the same graph as from_string gives (%d atoms); a missing bond order is 1 everywhere else" % len(ref))
    sys.exit(1)
same = (sorted(mol.nodes(data='atomname')) == sorted(ref.nodes(data='atomname')) and
        sorted(map(sorted, mol.edges)) == sorted(map(sorted, ref.edges)))
print("from_graph result identical to from_string:", same)
sys.exit(0 if same else 1)
