"""Check driver: ./check <property> [--tier quick|thorough] [--replay path] [--repo path]"""
import argparse
import json
import os
import sys
import time
import traceback

from . import AnalysisError, REPO_DEFAULT
from .model import Repo
from . import report


def run_property(prop, repo_root, tier, seed, only=None, quiet=False, write=True):
    """Returns (exit code, obligations, errors)."""
    from . import props
    t0 = time.time()
    errors = []
    obs = []
    extra = {}
    try:
        repo = Repo(repo_root)
    except AnalysisError as err:
        errors.append({"rule": "model", "error": str(err)})
        repo = None
    spec = props.PROPERTIES.get(prop)
    if spec is None:
        print("ANALYSIS-ERROR property=%s unknown property" % prop)
        return 2, [], [{"rule": "driver", "error": "unknown property"}]
    if repo is not None:
        for rule in spec["rules"]:
            name = rule.__name__
            try:
                res = rule(repo, tier)
            except AnalysisError as err:
                errors.append({"rule": name, "error": str(err), "where": getattr(err, "where", None)})
                continue
            except RecursionError as err:
                errors.append({"rule": name, "error": "recursion limit: %s" % err})
                continue
            except Exception as err:   # internal error of the checker: never a verdict
                errors.append({"rule": name, "error": "internal: %s: %s" % (type(err).__name__, err),
                               "traceback": traceback.format_exc(limit=6)})
                continue
            for o in res:
                if only and o.oid != only:
                    continue
                if o.ok is None:
                    errors.append({"rule": name, "error": "%s %s: %s (%s)" % (o.oid, o.instance, o.reason, o.where)})
                obs.append(o)
        extra["inventory"] = repo.inventory()
        extra["call_sites"] = repo.call_inventory()
        extra["rules_run"] = [r.__name__ for r in spec["rules"]]
        floors = spec.get("floors", {})
        counts = {}
        for o in obs:
            counts[o.oid] = counts.get(o.oid, 0) + 1
        extra["instance_counts"] = counts
        for oid, floor in floors.items():
            if only and oid != only:
                continue
            if counts.get(oid, 0) < floor and not any(e for e in errors):
                errors.append({"rule": "floor", "error": "obligation %s matched %d constructs, floor is %d"
                               % (oid, counts.get(oid, 0), floor)})
    selftest_problems = []
    if tier == "thorough" and repo is not None:
        from . import thorough
        try:
            ex, selftest_problems = thorough.extras(prop, repo_root, seed)
            extra.update(ex)
        except AnalysisError as err:
            errors.append({"rule": "thorough", "error": str(err)})
    known = report.load_known()
    new_viol = []
    known_hits = []
    for o in obs:
        if o.ok is not False:
            continue
        k = report.is_known(known, prop, o)
        if k:
            known_hits.append((o, k))
        else:
            new_viol.append(o)
    wall = time.time() - t0
    if write:
        report.write_evidence(prop, tier, seed, obs, errors, wall, extra,
                              spec.get("assumptions", []) + props.COMMON_ASSUMPTIONS, spec["explanation"], n_known=len(known_hits))
    out = sys.stdout
    for o, k in known_hits:
        print("KNOWN-FINDING: property=%s %s [%s %s %s]" % (prop, k.get("what", o.reason), o.oid, o.function, o.construct), file=out)
    code = 0
    if new_viol:
        code = 1
        for i, o in enumerate(new_viol):
            path = report.write_replay(prop, i, o) if write else "-"
            print("VIOLATION property=%s replay=%s" % (prop, path), file=out)
            print("  %s rule=%s instance=%s function=%s" % (o.where, o.oid, o.instance, o.function), file=out)
            print("  construct: %s" % o.construct, file=out)
            print("  reason: %s" % o.reason, file=out)
    if errors:
        for e in errors:
            print("ANALYSIS-ERROR property=%s rule=%s %s" % (prop, e["rule"], e["error"]), file=out)
            if "traceback" in e and not quiet:
                print(e["traceback"], file=sys.stderr)
        if code == 0:
            code = 2
    for p_ in selftest_problems:
        print("SELFTEST-PROBLEM property=%s %s" % (prop, p_), file=out)
    if tier == "thorough" and "selftest" in extra and not quiet:
        st = extra["selftest"]
        print("%s: self-validation: %d/%d breaking edits reported, %d/%d benign edits silent, %d skipped"
              % (prop, st.get("breaking_fired", 0), st.get("breaking_total", 0), st.get("benign_silent", 0), st.get("benign_total", 0), st.get("skipped", 0)), file=out)
    if not quiet:
        ok = len([o for o in obs if o.ok])
        print("%s: %d obligations evaluated, %d discharged, %d known findings, %d violations, %d analysis errors (%.2fs, tier=%s)"
              % (prop, len(obs), ok, len(known_hits), len(new_viol), len(errors), wall, tier), file=out)
    return code, obs, errors


def main(argv=None):
    ap = argparse.ArgumentParser()
    ap.add_argument("property")
    ap.add_argument("--tier", default=os.environ.get("VERIF_TIER", "quick"), choices=["quick", "thorough"])
    ap.add_argument("--repo", default=os.environ.get("CGSLINT_REPO", REPO_DEFAULT))
    ap.add_argument("--replay", default=None)
    ap.add_argument("--no-write", action="store_true")
    args = ap.parse_args(argv)
    seed = int(os.environ.get("VERIF_SEED", "0") or 0)
    only = None
    if args.replay:
        with open(args.replay) as fh:
            rp = json.load(fh)
        only = rp["obligation"]
    try:
        code, obs, errors = run_property(args.property, args.repo, args.tier, seed, only=only,
                                         write=not args.no_write and not args.replay)
    except Exception as err:
        print("ANALYSIS-ERROR property=%s internal: %s: %s" % (args.property, type(err).__name__, err))
        traceback.print_exc()
        return 2
    return code


if __name__ == "__main__":
    sys.exit(main())
