"""Obligations, verdict policy, evidence files, known findings."""
import json
import os
import time

VERIF = os.path.dirname(os.path.dirname(os.path.abspath(__file__)))
KNOWN_FILE = os.path.join(VERIF, "known_findings.json")
EVIDENCE_DIR = os.path.join(VERIF, "evidence")


class Ob:
    """One evaluated obligation (a rule instance on a construct)."""

    def __init__(self, oid, ok, where="", function="", construct="", reason="", instance="", detail=None):
        self.oid = oid              # e.g. 'PAIR.resolver-consume'
        self.ok = ok                # True / False
        self.where = where          # file:line (informational)
        self.function = function    # module:qualname
        self.construct = construct  # normalised, position-free text of the construct judged
        self.reason = reason
        self.instance = instance    # sub-instance label inside the obligation
        self.detail = detail or {}

    @property
    def family(self):
        return self.oid.split(".")[0]

    def key(self):
        return (self.oid, self.instance, self.function, self.construct)

    def as_dict(self):
        d = {"obligation": self.oid, "instance": self.instance, "verdict": "ok" if self.ok else ("UNDECIDED" if self.ok is None else "FAIL"),
             "where": self.where, "function": self.function, "construct": self.construct, "reason": self.reason}
        if self.detail:
            d["detail"] = self.detail
        return d


def ob_ok(oid, fi=None, node=None, construct="", reason="", instance="", detail=None, where=None):
    return _ob(oid, True, fi, node, construct, reason, instance, detail, where)


def ob_fail(oid, fi=None, node=None, construct="", reason="", instance="", detail=None, where=None):
    return _ob(oid, False, fi, node, construct, reason, instance, detail, where)


def ob_undecided(oid, fi=None, node=None, construct="", reason="", instance="", detail=None, where=None):
    """A single obligation the rule could not interpret (construct outside its language).  It is
    reported as ANALYSIS-ERROR unless another obligation of the run fails (a violation wins)."""
    return _ob(oid, None, fi, node, construct, reason, instance, detail, where)


def _ob(oid, ok, fi, node, construct, reason, instance, detail, where):
    w = where or (fi.where(node) if fi is not None else "")
    return Ob(oid, ok, w, fi.fq if fi is not None else "", construct, reason, instance, detail)


def load_known():
    if not os.path.exists(KNOWN_FILE):
        return {"known": [], "fixed": []}
    with open(KNOWN_FILE) as fh:
        return json.load(fh)


def is_known(known, prop, ob):
    for k in known.get("known", []):
        if k.get("property") != prop:
            continue
        if k.get("obligation") != ob.oid:
            continue
        if k.get("function") and k["function"] != ob.function:
            continue
        if k.get("instance") and k["instance"] != ob.instance:
            continue
        if k.get("construct") and k["construct"] != ob.construct:
            continue
        return k
    return None


def write_evidence(prop, tier, seed, obs, errors, wall, extra, assumptions, explanation, n_known=0):
    os.makedirs(EVIDENCE_DIR, exist_ok=True)
    distinct = {o.key() for o in obs}
    samples = [o.as_dict() for o in obs[:6]]
    fails = [o for o in obs if o.ok is False]
    for o in fails:
        if o.as_dict() not in samples:
            samples.append(o.as_dict())
    cov = {
        "explanation": explanation,
        "evaluations": max(1, len(obs)),
        "distinct_nontrivial": len(distinct),
        "rule": "one evaluation = one rule instance judged on one construct of /repo's current source; "
                "distinct = distinct (obligation, instance, function, construct); an obligation is non-trivial "
                "because every rule has an instance-count floor and fails closed when it matches nothing",
        "obligations": len(obs),
        "discharged": len([o for o in obs if o.ok]),
        "samples": samples or [{"note": "no obligation evaluated"}],
        "exhaustive": True,
        "obligation_list": [o.as_dict() for o in obs],
        "analysis_errors": errors,
    }
    cov.update(extra or {})
    ev = {
        "property_id": prop,
        "tier": tier,
        "seed": seed,
        "level": "other",
        "coverage": cov,
        "assumptions": assumptions,
        "wall_s": round(wall, 3),
        "violations": len(fails) - n_known,
    }
    cov["known_findings_reported"] = n_known
    path = os.path.join(EVIDENCE_DIR, prop + ".json")
    tmp = path + ".tmp"
    with open(tmp, "w") as fh:
        json.dump(ev, fh, indent=1, default=str)
    os.replace(tmp, path)
    return path


def write_replay(prop, n, ob):
    d = os.path.join(EVIDENCE_DIR, "replay")
    os.makedirs(d, exist_ok=True)
    path = os.path.join(d, "%s-%d.json" % (prop, n))
    with open(path, "w") as fh:
        json.dump({"property": prop, **ob.as_dict()}, fh, indent=1, default=str)
    return path
