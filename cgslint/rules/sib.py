"""SIB - agreement between sibling implementations; resolver level bookkeeping (C06, C12, C05)."""
import ast

from .. import AnalysisError
from ..model import fold_const
from ..flow import show, walk_term
from ..report import ob_ok, ob_fail, ob_undecided
from .common import (is_call, method_call, node_attr, elem_of, strip_wrappers, guards_of, enclosing_loops, need, strip_sites)
from . import tables

SELF = ("param", "self")


# -- linear normal form of `a == b` -------------------------------------------------

def _linear(t, atoms):
    """t -> dict atom term -> coeff (+ '1' -> const) or None if not linear over the atoms."""
    if t in atoms:
        return {t: 1}
    if t[0] == "const" and isinstance(t[1], (int, float)) and not isinstance(t[1], bool):
        return {"1": t[1]}
    if t[0] == "binop" and t[1] in ("+", "-"):
        a, b = _linear(t[2], atoms), _linear(t[3], atoms)
        if a is None or b is None:
            return None
        out = dict(a)
        for k, v in b.items():
            out[k] = out.get(k, 0) + (v if t[1] == "+" else -v)
        return out
    return None


_NEG = {"==": "!=", "!=": "==", "<": ">=", ">=": "<", ">": "<=", "<=": ">", "is": "is not", "is not": "is", "in": "not in", "not in": "in"}


def bool_norm(t, neg=False):
    """Boolean term with conditional expressions that have a constant False / True arm written as conjunctions /
    disjunctions, negations pushed into comparisons, nested conjunctions flattened."""
    if not isinstance(t, tuple) or not t:
        return t
    if t[0] == "unop" and t[1] == "not":
        return bool_norm(t[2], not neg)
    if t[0] == "cmp" and len(t[1]) == 1:
        return ("cmp", (_NEG[t[1][0]],), t[2]) if neg and t[1][0] in _NEG else (("unop", "not", t) if neg else t)
    if t[0] == "const" and isinstance(t[1], bool):
        return ("const", (not t[1]) if neg else t[1])
    if t[0] == "ifexp" and not neg:
        c, a, b = t[1], t[2], t[3]
        if a == ("const", False):
            return bool_norm(("boolop", "and", (("unop", "not", c), b)))
        if b == ("const", False):
            return bool_norm(("boolop", "and", (c, a)))
        if a == ("const", True):
            return bool_norm(("boolop", "or", (c, b)))
        if b == ("const", True):
            return bool_norm(("boolop", "or", (("unop", "not", c), a)))
        return t
    if t[0] == "boolop":
        op = t[1] if not neg else {"and": "or", "or": "and"}[t[1]]
        parts = []
        for v in t[2]:
            n = bool_norm(v, neg)
            if isinstance(n, tuple) and n and n[0] == "boolop" and n[1] == op:
                parts.extend(n[2])
            else:
                parts.append(n)
        if op == "and":
            if ("const", False) in parts:
                return ("const", False)
            parts = [x for x in parts if x != ("const", True)]
        else:
            if ("const", True) in parts:
                return ("const", True)
            parts = [x for x in parts if x != ("const", False)]
        if not parts:
            return ("const", op == "and")
        return parts[0] if len(parts) == 1 else ("boolop", op, tuple(parts))
    return ("unop", "not", t) if neg else t


def last_level_predicate(t, idx, count, flag, start=0):
    """Does boolean term t normalise to `idx == count - 1 + start and flag`?  (start: first value of the index, e.g.
    enumerate(..., start=1)).  Returns (ok, reason)."""
    t = bool_norm(t)
    conj = list(t[2]) if t[0] == "boolop" and t[1] == "and" else [t]
    has_flag = any(c == flag for c in conj)
    eqs = [c for c in conj if c[0] == "cmp" and c[1] == ("==",)]
    rest = [c for c in conj if c != flag and c not in eqs]
    if rest:
        return False, "extra condition %s" % show(rest[0])
    if not has_flag:
        return False, "the last_all_atom flag is not part of the predicate"
    if len(eqs) != 1:
        return False, "no single equality between the level index and the number of levels"
    l, r = eqs[0][2]
    a, b = _linear(l, (idx, count)), _linear(r, (idx, count))
    if a is None or b is None:
        return False, "level test %s is not linear in (index, count)" % show(eqs[0])
    diff = dict(a)
    for k, v in b.items():
        diff[k] = diff.get(k, 0) - v
    diff = {k: v for k, v in diff.items() if v != 0}
    # idx - count + 1 == 0  (or its negation)
    want = {idx: 1, count: -1, "1": 1 - start}
    want = {k: v for k, v in want.items() if v != 0}
    neg = {k: -v for k, v in want.items()}
    if diff == want or diff == neg:
        return True, ""
    return False, "level test %s does not mean index == count - 1" % show(eqs[0])


def sib_atomistic_level(repo, tier="quick"):
    """S4: reader (read_fragment_strings) and resolver (resolve) agree on which level is atomistic:
    both `index == number of fragment levels - 1 and last_all_atom`."""
    obs = []
    oid = "SIB.S4-atomistic-level"
    # reader side
    fi = repo.function("resolve:MoleculeResolver.read_fragment_strings")
    fl = fi.flow
    rf = fl.calls_to("read_fragments:read_fragments")
    need(rf, "anchor vanished: read_fragment_strings no longer calls read_fragments", fi)
    strings, flagp = ("param", fi.positional_params[0]), ("param", fi.positional_params[1])
    reader_false = []
    for call, nid, _ in rf:
        ct = fl.canon(call, nid)
        aa = dict(ct[4]).get("all_atom", ct[3][1] if len(ct[3]) > 1 else None)
        aa = (fl.diamond(aa, nid) or aa) if aa is not None else aa
        s = ct[3][0] if ct[3] else None
        es = elem_of(s) if s else None
        ok = False
        why = "read_fragments is not called for each element of the fragment string list"
        if es and es[0] == "elem" and strip_wrappers(es[1]) == strings and aa is not None:
            # index term: enumerate index of the same loop
            idx = None
            start = 0
            for x in walk_term(aa):
                e = elem_of(x) if isinstance(x, tuple) and x and x[0] in ("sub",) else None
                if e and e[0] == "index" and e[1] == strings:
                    idx = x
                    # enumerate(strings, start=k) / enumerate(strings, k)
                    en = x[1][2] if x[1][0] == "iter" else None
                    ce = is_call(en, "enumerate") if en is not None else None
                    if ce:
                        sv = dict(ce[1]).get("start", ce[0][1] if len(ce[0]) > 1 else ("const", 0))
                        start = sv[1] if sv[0] == "const" and isinstance(sv[1], int) else None
            count = ("call", None, ("builtin", "len"), (strings,), ())
            # the value the reader gets on this path: the conditions that lead to the call and the argument
            lp = enclosing_loops(fi, nid)
            conds = []
            for test, pol, gid in guards_of(fi, nid):
                if lp and gid == lp[0].id:
                    continue
                gt = fl.canon(test, gid)
                conds.append(gt if pol else ("unop", "not", gt))
            if conds:
                aa = ("boolop", "and", tuple(conds) + (aa,))
                for x in walk_term(aa):
                    e = elem_of(x) if isinstance(x, tuple) and x and x[0] in ("sub",) else None
                    if e and e[0] == "index" and e[1] == strings and idx is None:
                        idx = x
                        en = x[1][2] if x[1][0] == "iter" else None
                        ce = is_call(en, "enumerate") if en is not None else None
                        if ce:
                            sv = dict(ce[1]).get("start", ce[0][1] if len(ce[0]) > 1 else ("const", 0))
                            start = sv[1] if sv[0] == "const" and isinstance(sv[1], int) else None
                if bool_norm(strip_sites(aa)) == ("const", False):
                    reader_false.append(call)
                    continue
            aa_n = strip_sites(aa)
            if idx is not None and start is None:
                why = "the level index starts at a value the rule cannot read"
            elif idx is not None:
                ok, why = last_level_predicate(aa_n, strip_sites(idx), count, flagp, start)
            else:
                why = "the all_atom argument does not depend on the position of the fragment string"
        (obs.append(ob_ok(oid, fi, call, construct="read_fragments(s, all_atom=(idx == len(strings) - 1 and last_all_atom))", instance="reader",
                          reason="only the last fragment level is read as atomistic, and only if last_all_atom")) if ok else
         obs.append(ob_fail(oid, fi, call, construct="read_fragments(..., all_atom=%s)" % (show(aa) if aa else "<default>"), instance="reader", reason=why)))
    if reader_false and not any(o.instance == "reader" for o in obs):
        obs.append(ob_fail(oid, fi, reader_false[0], construct="read_fragments(..., all_atom=<never true>)", instance="reader",
                           reason="no path reads the last fragment level as atomistic"))
    # resolver side
    from .order import resolve_flag
    fi, ph, flag = resolve_flag(repo)
    fl = fi.flow
    hs = ph.sites["hydrogens"][0]
    gs = [g for g in guards_of(fi, hs[1]) if g[1]]
    need(gs, "rebuild_h_atoms in resolve() is not guarded by the all-atom flag", fi)
    test, pol, gid = gs[-1]
    t = fl.canon(test, gid)
    t = fl.diamond(t, gid) or t
    idx, count, fl_attr = ("attr", SELF, "resolution_counter"), ("attr", SELF, "resolutions"), ("attr", SELF, "last_all_atom")
    ok, why = last_level_predicate(strip_sites(t), idx, count, fl_attr)
    (obs.append(ob_ok(oid, fi, test, construct="all_atom = (self.resolution_counter == self.resolutions - 1 and self.last_all_atom)", instance="resolver",
                      reason="the resolver treats exactly the level the reader parsed with pysmiles as atomistic")) if ok else
     obs.append(ob_fail(oid, fi, test, construct="all_atom = %s" % show(t), instance="resolver", reason=why)))
    # the same flag drives every all-atom dependent step
    for lab in ("connect",):
        for call, nid in ph.sites[lab]:
            ct = fl.canon(call, nid)
            a = dict(ct[4]).get("all_atom", ct[3][0] if ct[3] else None)
            a = (fl.diamond(a, nid) or a) if a is not None else a
            (obs.append(ob_ok(oid, fi, call, construct="edges_from_bonding_descrpt(all_atom=all_atom)", instance="resolver:connect", reason="same predicate")) if a == t else
             obs.append(ob_fail(oid, fi, call, construct="edges_from_bonding_descrpt(all_atom=%s)" % (show(a) if a else "<default>"), instance="resolver:connect",
                                reason="the connect phase does not receive the level's all-atom predicate")))
    # __init__: resolutions = len(fragment_dicts), counter starts at 0, last_all_atom stored
    init = repo.function("resolve:MoleculeResolver.__init__")
    ifl = init.flow
    want = {"self.resolutions": lambda v: is_call(v, "len") is not None and is_call(v, "len")[0] and
            is_call(v, "len")[0][0] in (("param", "fragment_dicts"), ("attr", SELF, "fragment_dicts")),
            "self.resolution_counter": lambda v: v == ("const", 0),
            "self.last_all_atom": lambda v: v == ("param", "last_all_atom"),
            "self.fragment_dicts": lambda v: v == ("param", "fragment_dicts"),
            "self.molecule": lambda v: v == ("param", "molecule_graph")}
    for var, pred in want.items():
        ds = [d for d in ifl.defs if d.var == var and d.kind == "assign"]
        ok = len(ds) == 1 and pred(ifl.canon(ds[0].value, ds[0].node)) and not enclosing_loops(init, ds[0].node) and not guards_of(init, ds[0].node)
        (obs.append(ob_ok(oid, init, ds[0].ast if ds else None, construct="%s initialised from the constructor arguments" % var, instance="init:" + var,
                          reason="level bookkeeping starts consistently")) if ok else
         obs.append(ob_fail(oid, init, ds[0].ast if ds else None, construct="%s = %s" % (var, show(ifl.canon(ds[0].value, ds[0].node)) if ds else "<missing>"),
                            instance="init:" + var, reason="%s is not initialised as the level bookkeeping requires" % var)))
    return obs


def ord_resolve_handover(repo, tier="quick"):
    """C06: the previous fine graph becomes the coarse graph, atom names become fragment names, the
    level's own fragment dictionary is used, the counter advances by one on every normal path."""
    from .order import resolve_flag
    fi, ph, flag = resolve_flag(repo)
    fl, cfg = fi.flow, fi.cfg
    obs = []
    oid = "ORD.resolve-handover"
    ph.require("instantiate")
    icall, inode = ph.sites["instantiate"][0]
    meta_at = fl.canon(ast.parse("self.meta_graph", mode="eval").body, inode)
    mol_at = fl.canon(ast.parse("self.molecule", mode="eval").body, inode)
    ok1 = meta_at == ("attr", SELF, "molecule")
    (obs.append(ob_ok(oid, fi, icall, construct="self.meta_graph = self.molecule (previous fine graph)", instance="coarse-graph",
                      reason="each step's coarse graph is the previous step's fine graph")) if ok1 else
     obs.append(ob_fail(oid, fi, icall, construct="self.meta_graph = %s at instantiation" % show(meta_at), instance="coarse-graph",
                        reason="the coarse graph of this step is not the fine graph of the previous step")))
    ok2 = is_call(mol_at, "networkx.Graph") is not None and not mol_at[3]
    (obs.append(ob_ok(oid, fi, icall, construct="self.molecule = nx.Graph() before instantiation", instance="fresh-fine-graph",
                      reason="the new fine graph starts empty")) if ok2 else
     obs.append(ob_fail(oid, fi, icall, construct="self.molecule = %s at instantiation" % show(mol_at), instance="fresh-fine-graph",
                        reason="the fine graph is not a fresh empty graph when fragments are instantiated")))
    # fragname from atomname on the coarse graph, before instantiation
    sets = fl.calls_to("networkx.set_node_attributes")
    ok3 = False
    for call, nid, _ in sets:
        ct = fl.canon(call, nid)
        a = list(ct[3]) + [None] * 3
        if a[0] == ("attr", SELF, "molecule") and a[2] == ("const", "fragname"):
            c = is_call(a[1], "networkx.get_node_attributes")
            if c and c[0][:2] == (("attr", SELF, "molecule"), ("const", "atomname")) and cfg.dominates(nid, inode):
                ok3 = True
    # ... or node by node:  for n in coarse.nodes: coarse.nodes[n]['fragname'] = coarse.nodes[n]['atomname']
    for n in cfg.nodes:
        if n.kind == "stmt" and isinstance(n.ast, ast.Assign) and isinstance(n.ast.targets[0], ast.Subscript):
            tt = node_attr(fl.canon(n.ast.targets[0], n.id))
            vv = node_attr(fl.canon(n.ast.value, n.id))
            if tt and vv and tt[0] == vv[0] == ("attr", SELF, "molecule") and tt[1] == vv[1] and tt[2] == ("const", "fragname") and vv[2] == ("const", "atomname"):
                ek = elem_of(tt[1])
                lps = enclosing_loops(fi, n.id)
                if ek and ek[0] == "elem" and strip_wrappers(ek[1]) in (("attr", tt[0], "nodes"), tt[0]) and lps and cfg.dominates(lps[-1].id, inode):
                    # only a presence test on the source attribute may guard the copy
                    gs = [g for g in guards_of(fi, n.id) if g[2] != lps[0].id]
                    if all(pol and "atomname" in ast.unparse(t_) for t_, pol, _ in gs):
                        ok3 = True
    (obs.append(ob_ok(oid, fi, construct="set_node_attributes(coarse, get_node_attributes(coarse, 'atomname'), 'fragname')", instance="names",
                      reason="the names the previous level gave its nodes select this level's fragments")) if ok3 else
     obs.append(ob_fail(oid, fi, construct="fragname := atomname on the coarse graph", instance="names",
                        reason="the coarse graph's fragment names are not taken from its atom names before instantiation")))
    # level dictionary
    ct = fl.canon(icall, inode)
    arg = ct[3][0] if ct[3] else dict(ct[4]).get("fragment_dict")
    ok4 = arg == ("sub", ("attr", SELF, "fragment_dicts"), ("attr", SELF, "resolution_counter"))
    (obs.append(ob_ok("PROV.level-index", fi, icall, construct="self.fragment_dicts[self.resolution_counter]", instance="dict",
                      reason="the fragments of this level are used")) if ok4 else
     obs.append(ob_fail("PROV.level-index", fi, icall, construct="fragment dict = %s" % (show(arg) if arg else "<none>"), instance="dict",
                        reason="the fragment dictionary handed to instantiation is not the one of the current level")))
    # each level's dictionary holds that level's definitions only: the level reader starts every level from an empty dictionary
    rf = repo.function("resolve:MoleculeResolver.read_fragment_strings")
    rcalls = rf.flow.calls_to("read_fragments:read_fragments", "read_fragments")
    if not rcalls:
        obs.append(ob_undecided("PROV.level-index", rf, construct="read_fragment_strings does not call read_fragments", instance="level-isolation",
                                reason="cannot see how the per-level dictionaries are built"))
    from .common import call_arg
    for rc, rn, _ in rcalls:
        a = call_arg(rc, 2, "fragment_dict")
        t = rf.flow.canon(a, rn) if a is not None else None
        fresh = t is None or t == ("const", None) or t == ("dict", ()) or (is_call(t, "dict") is not None and not is_call(t, "dict")[0] and not t[4])
        (obs.append(ob_ok("PROV.level-index", rf, rc, construct="read_fragments(level string) into an empty dictionary", instance="level-isolation",
                          reason="a fragment name defined on two levels means, on each level, that level's definition")) if fresh else
         obs.append(ob_fail("PROV.level-index", rf, rc, construct="read_fragments(..., fragment_dict=%s)" % show(t)[:80], instance="level-isolation",
                            reason="definitions of another level are carried into this level's dictionary; read_fragments keeps the entry that is "
                                   "already there, so a name defined on both levels resolves to the wrong level's fragment")))
    # counter
    incs = [n for n in cfg.nodes if n.kind == "stmt" and isinstance(n.ast, ast.AugAssign) and ast.unparse(n.ast.target) == "self.resolution_counter"]
    stores = [n for n in cfg.nodes if n.kind == "stmt" and isinstance(n.ast, ast.Assign) and any(ast.unparse(t) == "self.resolution_counter" for t in n.ast.targets)]
    ok5 = len(incs) == 1 and not stores and isinstance(incs[0].ast.op, ast.Add) and fl.canon(incs[0].ast.value, incs[0].id) == ("const", 1) and \
        cfg.must_pass(cfg.entry, {cfg.exit}, {incs[0].id}) and not enclosing_loops(fi, incs[0].id)
    if ok5:
        # after the last read of the counter
        later_reads = []
        reach = cfg.reachable_from(incs[0].id)
        for n in cfg.nodes:
            if n.id in reach:
                for sub in ast.walk(n.ast) if n.ast is not None else ():
                    if isinstance(sub, ast.Attribute) and sub.attr == "resolution_counter" and isinstance(sub.ctx, ast.Load):
                        later_reads.append(n)
        ok5 = not later_reads
    (obs.append(ob_ok("ORD.counter", fi, incs[0].ast if incs else None, construct="self.resolution_counter += 1 once on every normal path, after its last use", instance="counter",
                      reason="the next call resolves the next level")) if ok5 else
     obs.append(ob_fail("ORD.counter", fi, incs[0].ast if incs else None, construct="updates of self.resolution_counter", instance="counter",
                        reason="the level counter is not advanced by exactly one on every normal path after its last use")))
    # return value
    rets = [n for n in cfg.nodes if n.kind == "stmt" and isinstance(n.ast, ast.Return)]
    for r in rets:
        t = fl.canon(r.ast.value, r.id) if r.ast.value is not None else None
        want = ("tuple", (fl.canon(ast.parse("self.meta_graph", mode="eval").body, r.id), fl.canon(ast.parse("self.molecule", mode="eval").body, r.id)))
        (obs.append(ob_ok(oid, fi, r.ast, construct="return self.meta_graph, self.molecule", instance="return", reason="(coarse, fine) of this step")) if t == want else
         obs.append(ob_fail(oid, fi, r.ast, construct="return %s" % show(t), instance="return", reason="resolve() does not return (coarse graph, fine graph) of this step")))
    return obs


def sib_drivers(repo, tier="quick"):
    """S7: resolve_iter calls resolve() self.resolutions times and yields its result unchanged;
    resolve_all returns the last item of resolve_iter()."""
    obs = []
    oid = "SIB.S7-drivers"
    fi = repo.function("resolve:MoleculeResolver.resolve_iter")
    fl, cfg = fi.flow, fi.cfg
    rs = fl.calls_to("resolve:MoleculeResolver.resolve")
    need(len(rs) >= 1, "anchor vanished: resolve_iter no longer calls resolve()", fi)
    if len(rs) != 1:
        obs.append(ob_fail(oid, fi, construct="%d resolve() calls" % len(rs), instance="iter:single", reason="resolve_iter calls resolve() in more than one place"))
        return obs
    call, nid, _ = rs[0]
    R = fl.canon(call, nid)
    loops = enclosing_loops(fi, nid)
    ok = False
    if len(loops) == 1 and loops[0].kind == "for":
        it = fl.canon(loops[0].ast.iter, loops[0].id)
        c = is_call(it, "range")
        if c and len(c[0]) == 1 and c[0][0] == ("attr", SELF, "resolutions"):
            ok = True
        if c and len(c[0]) == 2 and c[0][0] == ("const", 0) and c[0][1] == ("attr", SELF, "resolutions"):
            ok = True
    (obs.append(ob_ok(oid, fi, call, construct="for _ in range(self.resolutions): self.resolve()", instance="iter:count", reason="one step per fragment level")) if ok else
     obs.append(ob_fail(oid, fi, call, construct="loop around resolve()", instance="iter:count", reason="resolve() is not called exactly self.resolutions times")))
    ys = [s for s in ast.walk(fi.node) if isinstance(s, ast.Yield)]
    oky = bool(ys)
    for y in ys:
        t = fl.canon(y.value, cfg.node_for(y)) if y.value is not None else None
        if not (t == R or t == ("tuple", (fl.subscript(R, ("const", 0)), fl.subscript(R, ("const", 1))))):
            oky = False
    (obs.append(ob_ok(oid, fi, ys[0] if ys else None, construct="yield <result of resolve()>", instance="iter:yield", reason="the driver only delegates")) if oky else
     obs.append(ob_fail(oid, fi, ys[0] if ys else None, construct="yield", instance="iter:yield", reason="resolve_iter does not yield resolve()'s result unchanged")))
    fi = repo.function("resolve:MoleculeResolver.resolve_all")
    fl, cfg = fi.flow, fi.cfg
    its = fl.calls_to("resolve:MoleculeResolver.resolve_iter")
    if not its:
        obs.append(ob_fail(oid, fi, construct="resolve_all without resolve_iter()", instance="all",
                           reason="resolve_all does not run the levels through resolve_iter(): asking for the last level directly no longer performs every step"))
        return obs
    I = fl.canon(its[0][0], its[0][1])
    rets = [n for n in cfg.nodes if n.kind == "stmt" and isinstance(n.ast, ast.Return)]
    okr = bool(rets)
    for r in rets:
        t = fl.canon(r.ast.value, r.id)
        last = ("sub", I, ("const", -1))
        cl = is_call(t, "list")
        want1 = ("tuple", (("sub", last, ("const", 0)), ("sub", last, ("const", 1))))
        last2 = ("sub", ("call", None, ("builtin", "list"), (I,), ()), ("const", -1))
        lasts = [strip_sites(last), strip_sites(last2), strip_sites(("sub", ("call", None, ("builtin", "tuple"), (I,), ()), ("const", -1)))]
        accepted = list(lasts) + [("tuple", (("sub", l_, ("const", 0)), ("sub", l_, ("const", 1)))) for l_ in lasts]
        if t not in (want1, last) and strip_sites(t) not in accepted:
            okr = False
    (obs.append(ob_ok(oid, fi, rets[0].ast if rets else None, construct="return last item of self.resolve_iter()", instance="all", reason="asking for the last level directly runs the same steps")) if okr else
     obs.append(ob_fail(oid, fi, rets[0].ast if rets else None, construct="return", instance="all", reason="resolve_all does not return the last item produced by resolve_iter()")))
    return obs


def sib_constructors(repo, tier="quick"):
    """S1: the three constructors forward last_all_atom and legacy unchanged and split levels with
    the same regular expression."""
    obs = []
    oid = "SIB.S1-constructors"
    regexes = {}
    for name in ("from_string", "from_graph", "from_fragment_dicts"):
        fi = repo.function("resolve:MoleculeResolver." + name)
        fl = fi.flow
        cls_calls = [(c, n) for c, n in fl.calls() if repo.resolve_call(fi, c).kind == "class"]
        need(cls_calls, "anchor vanished: %s no longer calls cls(...)" % name, fi)
        for call, nid in cls_calls:
            ct = fl.canon(call, nid)
            kw = dict(ct[4])
            pos = list(ct[3]) + [None] * 4
            for i, (k, want) in enumerate((("last_all_atom", ("param", "last_all_atom")), ("legacy", ("param", "legacy")))):
                got = kw.get(k, pos[2 + i])
                (obs.append(ob_ok(oid, fi, call, construct="cls(..., %s=%s)" % (k, k), instance="%s:%s" % (name, k), reason="forwarded unchanged")) if got == want else
                 obs.append(ob_fail(oid, fi, call, construct="cls(..., %s=%s)" % (k, show(got) if got else "<default>"), instance="%s:%s" % (name, k),
                                    reason="%s does not forward its %s argument to the resolver" % (name, k))))
        for call, nid, _ in fl.calls_to("resolve:MoleculeResolver.read_fragment_strings"):
            ct = fl.canon(call, nid)
            got = dict(ct[4]).get("last_all_atom", ct[3][1] if len(ct[3]) > 1 else None)
            (obs.append(ob_ok(oid, fi, call, construct="read_fragment_strings(..., last_all_atom=last_all_atom)", instance="%s:reader-flag" % name, reason="forwarded unchanged"))
             if got == ("param", "last_all_atom") else
             obs.append(ob_fail(oid, fi, call, construct="read_fragment_strings(..., last_all_atom=%s)" % (show(got) if got else "<default>"),
                                instance="%s:reader-flag" % name, reason="the fragment reader does not get the caller's last_all_atom")))
        for call, nid in fl.calls():
            ct = fl.canon(call, nid)
            if ct[2] != ("ext", "re.findall"):
                continue
            if ct[3] and ct[3][0][0] == "const":
                regexes[name] = (ct[3][0][1], ct[3][1] if len(ct[3]) > 1 else None, fi, call)
    need(len(regexes) == 3, "anchor vanished: not all three constructors split levels with re.findall(<literal>, cgsmiles_str)", None)
    pats = {v[0] for v in regexes.values()}
    ok = len(pats) == 1 and all(v[1] == ("param", "cgsmiles_str") for v in regexes.values())
    any_fi, any_call = list(regexes.values())[0][2:]
    (obs.append(ob_ok(oid, any_fi, any_call, construct="re.findall(%r, cgsmiles_str) in all three" % list(pats)[0], instance="regex", reason="levels are split identically")) if ok else
     obs.append(ob_fail(oid, any_fi, any_call, construct="level regexes %s" % sorted(pats), instance="regex", reason="the constructors split a CGsmiles string into levels differently")))
    # the constructors and __init__ agree on the defaults of the options (documented: True)
    for opt in ("last_all_atom", "legacy"):
        vals = {}
        for name in ("__init__", "from_string", "from_graph", "from_fragment_dicts"):
            f2 = repo.function("resolve:MoleculeResolver." + name)
            dflt = f2.defaults().get(opt)
            vals[name] = ast.unparse(dflt) if dflt is not None else "<required>"
        ok = set(vals.values()) == {"True"}
        f0 = repo.function("resolve:MoleculeResolver.__init__")
        (obs.append(ob_ok(oid, f0, construct="default of %s is True in __init__ and all three constructors" % opt, instance="default:" + opt,
                          reason="the same call without the option means the same through every constructor (documented default: True)")) if ok else
         obs.append(ob_fail(oid, f0, construct="defaults of %s: %s" % (opt, vals), instance="default:" + opt,
                            reason="the constructors disagree on the default of %s (documented default: True): the same input resolves differently depending on the constructor" % opt)))
    # from_string: first element -> read_cgsmiles, the rest -> fragment strings
    fi = repo.function("resolve:MoleculeResolver.from_string")
    fl = fi.flow
    for call, nid, _ in fl.calls_to("read_cgsmiles:read_cgsmiles"):
        ct = fl.canon(call, nid)
        a = ct[3][0] if ct[3] else None
        ok = a is not None and a[0] == "sub" and a[2] == ("const", 0) and is_call(a[1], "re.findall") is not None
        (obs.append(ob_ok(oid, fi, call, construct="read_cgsmiles(elements[0])", instance="from_string:base", reason="first block is the base graph")) if ok else
         obs.append(ob_fail(oid, fi, call, construct="read_cgsmiles(%s)" % show(a), instance="from_string:base", reason="the base graph is not read from the first block")))
    for call, nid, _ in fl.calls_to("resolve:MoleculeResolver.read_fragment_strings"):
        ct = fl.canon(call, nid)
        a = ct[3][0] if ct[3] else None
        ok = a is not None and a[0] == "sub" and a[2] == ("slice", ("const", 1), None, None) and is_call(a[1], "re.findall") is not None
        (obs.append(ob_ok(oid, fi, call, construct="read_fragment_strings(elements[1:])", instance="from_string:levels", reason="all remaining blocks are fragment levels")) if ok else
         obs.append(ob_fail(oid, fi, call, construct="read_fragment_strings(%s)" % show(a), instance="from_string:levels", reason="not all blocks after the first are read as fragment levels")))
    return obs


def sib_multiplier_scans(repo, tier="quick"):
    """S3: the scans for the end of a multiplier number (node `|n`, branch `)|n`) stop at the same
    token set, which must include the bond-order symbols (an order symbol may follow the number)."""
    fi = repo.function("read_cgsmiles:read_cgsmiles")
    fl, cfg = fi.flow, fi.cfg
    obs = []
    oid = "SIB.S3-multiplier-scan"
    _, (tname, table, _) = tables.reader_symbol_table(repo)
    scans = []
    for call, nid in fl.calls():
        if not (isinstance(call.func, ast.Name) and call.func.id == "int" and call.args):
            continue
        a = call.args[0]
        if not (isinstance(a, ast.Subscript) and isinstance(a.slice, ast.Slice) and a.slice.upper is not None):
            continue
        up = fl.canon(a.slice.upper, nid)
        c = is_call(up, "_find_next_character")
        if not c or len(c[0]) < 2:
            continue
        chars = _fold_chars(c[0][1], table)
        if chars is None:
            raise AnalysisError("terminator list of a multiplier scan is not a literal", fi.where(call))
        scans.append((call, nid, chars))
    need(len(scans) >= 2, "anchor vanished: expected the node and the branch multiplier scans, found %d" % len(scans), fi)
    symbols = set(table.keys())
    for call, nid, chars in scans:
        # which scan is this: inside the branch-closing block or not
        lower = fl.canon(call.args[0].slice.lower, nid) if call.args[0].slice.lower is not None else ("const", 0)
        kind = "branch" if any(is_call(x, "_find_next_character") is not None for x in walk_term(lower)) else "node"
        missing = sorted(symbols - set(chars))
        structural = {"[", ")", "(", "}"} - set(chars)
        if missing or structural:
            obs.append(ob_fail(oid, fi, call, construct="%s multiplier scan stops at %s" % (kind, sorted(chars)), instance=kind,
                               reason="the number after '|' is scanned past %s: `|n` followed by a bond order symbol is not read like the written-out form"
                               % (missing or sorted(structural))))
        else:
            obs.append(ob_ok(oid, fi, call, construct="%s multiplier scan stops at structural characters and order symbols" % kind, instance=kind,
                             reason="the multiplier ends where the next token starts"))
    return obs


def _fold_chars(t, table):
    if t[0] == "list" or t[0] == "tuple":
        out = []
        for e in t[1]:
            if e[0] != "const" or not isinstance(e[1], str):
                return None
            out.append(e[1])
        return out
    if t[0] == "const" and isinstance(t[1], str):
        return list(t[1])
    if t[0] == "binop" and t[1] == "+":
        a, b = _fold_chars(t[2], table), _fold_chars(t[3], table)
        if a is None or b is None:
            return None
        return a + b
    c = is_call(t, "list", "tuple", "sorted", "set", "frozenset")
    if c and c[0]:
        inner = c[0][0]
        m = method_call(inner, "keys")
        d = m[0] if m else inner
        if d[0] == "dict":
            return [k[1] for k, v in d[1]]
        return _fold_chars(inner, table)
    if t[0] == "set":
        return _fold_chars(("list", t[1]), table)
    if t[0] == "dict":
        return [k[1] for k, v in t[1]]
    # A.union(B) / A | B
    mu = method_call(t, "union")
    if mu and mu[2]:
        parts = [_fold_chars(mu[0], table)] + [_fold_chars(x, table) for x in mu[2]]
        if all(p is not None for p in parts):
            return [ch for p in parts for ch in p]
    if t[0] == "binop" and t[1] == "|":
        a, b = _fold_chars(t[2], table), _fold_chars(t[3], table)
        if a is not None and b is not None:
            return a + b
    mk = method_call(t, "keys")
    if mk and mk[0][0] == "dict":
        return [k[1] for k, v in mk[0][1]]
    return None
