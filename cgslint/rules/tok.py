"""TOK / SENT - dispatch map and per-branch effect table of the fragment tokenizer
(strip_bonding_descriptors), judged against necessary effects per token class (C13, C01, C08, C15)."""
import ast
import json
import os

from .. import AnalysisError
from ..absint import Evaluator, Unsupported
from ..flow import show, walk_term
from ..report import ob_ok, ob_fail, ob_undecided, VERIF
from .common import is_call, method_call, elem_of, strip_wrappers, guards_of, enclosing_loops, need, strip_not, if_arms, aug_like, resolve_ast, call_arg
from . import tables

with open(os.path.join(VERIF, "spec", "fragment_tokens.json")) as fh:
    SPEC = json.load(fh)


class Tokenizer:
    def __init__(self, repo):
        fi = self.fi = repo.function("read_fragments:strip_bonding_descriptors")
        self.fl, self.cfg = fi.flow, fi.cfg
        fl, cfg = self.fl, self.cfg
        _, (self.table_name, self.table, self.table_node) = tables.fragment_symbol_table(repo)
        # local names that are plain aliases of the table (bond_to_order = BOND_TO_ORDER)
        self.table_names = {self.table_name}
        for d in fi.flow.defs:
            if d.kind == "assign" and not d.path and isinstance(d.value, ast.Name) and d.value.id == self.table_name and \
                    len([x for x in fi.flow.defs if x.var == d.var and x.kind not in ("unbound",)]) == 1:
                self.table_names.add(d.var)
        loops = [st for st in fi.node.body if isinstance(st, ast.For)]
        need(len(loops) == 1, "expected one top-level token loop in strip_bonding_descriptors, found %d" % len(loops), fi)
        self.loop = loops[0]
        need(isinstance(self.loop.target, ast.Name), "token loop target is not a plain name", fi, self.loop)
        self.token = self.loop.target.id
        need(isinstance(self.loop.iter, ast.Name), "token loop does not iterate a named iterator", fi, self.loop)
        self.iter_name = self.loop.iter.id
        # guard clauses in front of the dispatch (`if <test>: ...; continue`) are branches of the same chain
        def fold(stmts):
            if len(stmts) > 1 and isinstance(stmts[0], ast.If) and not stmts[0].orelse and stmts[0].body and isinstance(stmts[0].body[-1], ast.Continue):
                head = stmts[0]
                rest = fold(stmts[1:])
                new = ast.If(test=head.test, body=head.body[:-1] or [ast.Pass()], orelse=rest)
                return [ast.copy_location(new, head)]
            return stmts
        body0 = fold(list(self.loop.body))
        need(len(body0) == 1 and isinstance(body0[0], ast.If), "token loop body is not a single if/elif dispatch chain", fi, self.loop)
        self.branches = []      # (test or None, body statements, If node)
        node = body0[0]
        while True:
            self.branches.append((node.test, node.body, node))
            if len(node.orelse) == 1 and isinstance(node.orelse[0], ast.If):
                node = node.orelse[0]
            else:
                self.branches.append((None, node.orelse, node))
                break
        # roles from the return statement
        rets = [n for n in cfg.nodes if n.kind == "stmt" and isinstance(n.ast, ast.Return)]
        need(len(rets) == 1, "strip_bonding_descriptors has %d return statements" % len(rets), fi)
        from .common import resolve_ast
        retval, _ = resolve_ast(fi.flow, rets[0].ast.value, rets[0].id)
        need(isinstance(retval, ast.Tuple) and len(retval.elts) == 4 and all(isinstance(e, ast.Name) for e in retval.elts),
             "strip_bonding_descriptors no longer returns (text, descriptors, ez marks, attributes) as four names", fi)
        self.TEXT, self.DESCR, self.EZ, self.ATTRS = [e.id for e in retval.elts]
        self.dispatch = self._dispatch()
        # atom branch = handler of a letter; roles COUNTER / PREV
        ab = self.dispatch.get("C")
        need(ab is not None, "no branch handles a bare atom letter", fi)
        body = self.branches[ab][1]
        self.COUNTER = self.PREV = None
        for st in body:
            for sub in ast.walk(st):
                al = aug_like(sub) if isinstance(sub, (ast.AugAssign, ast.Assign)) else None
                if al and al[1] is ast.Add and isinstance(al[2], ast.Constant) and al[2].value == 1:
                    self.COUNTER = al[0]
        need(self.COUNTER, "cannot identify the atom counter (no `x += 1` in the bare-atom branch)", fi)
        for st in body:
            for sub in ast.walk(st):
                if isinstance(sub, ast.Assign) and isinstance(sub.targets[0], ast.Name) and isinstance(sub.value, ast.Name) and sub.value.id == self.COUNTER:
                    self.PREV = sub.targets[0].id
        need(self.PREV, "cannot identify the previous-atom variable (no `y = counter` in the bare-atom branch)", fi)
        # PENDING: assigned TABLE[token] in the symbol branch
        sb = self.dispatch.get("=")
        need(sb is not None, "no branch handles bond order symbols", fi)
        self.PENDING = None
        for st in self.branches[sb][1]:
            for sub in ast.walk(st):
                if isinstance(sub, ast.Assign) and isinstance(sub.targets[0], ast.Name) and isinstance(sub.value, ast.Subscript) and \
                        isinstance(sub.value.value, ast.Name) and sub.value.value.id in self.table_names and \
                        isinstance(sub.value.slice, ast.Name) and sub.value.slice.id == self.token:
                    self.PENDING = sub.targets[0].id
        need(self.PENDING, "cannot identify the pending-order variable (no `x = table[token]` in the symbol branch)", fi)

    def _constants_env(self):
        """module-level constants that fold to plain values (tables and character sets moved out of the function)"""
        from ..model import fold_const
        env = {}
        for name, val in self.fi.module.constants.items():
            try:
                env[name] = fold_const(val, self.fi.module)
            except (ValueError, TypeError, KeyError):
                continue
        return env

    def _dispatch(self):
        reps = []
        for cls, chars in SPEC["representatives"].items():
            reps += chars
        reps += ["]", "H", "+", "l", "r"]
        out = {}
        for ch in reps:
            for i, (test, body, node) in enumerate(self.branches):
                if test is None:
                    out[ch] = i
                    break
                ev = Evaluator()
                try:
                    env0 = self._constants_env()
                    env0.update({nm: dict(self.table) for nm in self.table_names})
                    env0[self.token] = ch
                    v = ev.truth(ev.eval(test, env0))
                except Unsupported as err:
                    raise AnalysisError("dispatch test outside the predicate language: %s" % err, self.fi.where(test))
                if v:
                    out[ch] = i
                    break
        return out

    # -- branch helpers -----------------------------------------------------------
    def nodes_of(self, stmts):
        out = set()
        for s in stmts:
            for sub in ast.walk(s):
                x = self.cfg.node_of_stmt.get(id(sub))
                if x is not None:
                    out.add(x)
        return out

    def all_paths_pass(self, stmts, S, start_nodes=None):
        """every path from the first statement of `stmts` to leaving them passes a node of S"""
        B = self.nodes_of(stmts)
        if not stmts:
            return False
        entry = self.cfg.node_of_stmt.get(id(stmts[0]))
        starts = start_nodes or [entry]
        for s in starts:
            if s in S:
                continue
            reach = {s} | self.cfg.reachable_from(s, avoid=S, edge_filter=lambda a, b, l: l != "exc" or True)
            if any(x not in B and self.cfg.nodes[x].kind != "raise" for x in reach):
                return False
        return True

    def assigns(self, stmts, var, pred=None):
        """cfg node ids inside stmts that assign `var` (optionally with value predicate on the ast)"""
        out = set()
        for s in stmts:
            for sub in ast.walk(s):
                if isinstance(sub, ast.Assign) and any(isinstance(t, ast.Name) and t.id == var for t in sub.targets):
                    if pred is None or pred(sub.value):
                        out.add(self.cfg.node_of_stmt[id(sub)])
                # a, b = x, y   assigns a = x and b = y
                if isinstance(sub, ast.Assign) and len(sub.targets) == 1 and isinstance(sub.targets[0], ast.Tuple) and isinstance(sub.value, ast.Tuple) and \
                        len(sub.targets[0].elts) == len(sub.value.elts):
                    for t, v in zip(sub.targets[0].elts, sub.value.elts):
                        if isinstance(t, ast.Name) and t.id == var and (pred is None or pred(v)):
                            out.add(self.cfg.node_of_stmt[id(sub)])
                if isinstance(sub, ast.AugAssign) and isinstance(sub.target, ast.Name) and sub.target.id == var and pred is None:
                    out.add(self.cfg.node_of_stmt[id(sub)])
        return out

    def text_appends(self, stmts):
        """[(cfg node id, appended ast expr)] for TEXT += e / TEXT = TEXT + e; TEXT = TEXT[:-1] is reported as ('strip')"""
        out = []
        for s in stmts:
            for sub in ast.walk(s):
                if isinstance(sub, ast.AugAssign) and isinstance(sub.target, ast.Name) and sub.target.id == self.TEXT and isinstance(sub.op, ast.Add):
                    # a conditional expression appends one of its arms
                    arms = [sub.value]
                    while any(isinstance(a, ast.IfExp) for a in arms):
                        arms = [x for a in arms for x in ((a.body, a.orelse) if isinstance(a, ast.IfExp) else (a,))]
                    for a in arms:
                        out.append((self.cfg.node_of_stmt[id(sub)], a))
                elif isinstance(sub, ast.Assign) and any(isinstance(t, ast.Name) and t.id == self.TEXT for t in sub.targets):
                    v = sub.value
                    if isinstance(v, ast.BinOp) and isinstance(v.op, ast.Add):
                        # left-most operand must be TEXT
                        parts = []
                        cur = v
                        while isinstance(cur, ast.BinOp) and isinstance(cur.op, ast.Add):
                            parts.insert(0, cur.right)
                            cur = cur.left
                        if isinstance(cur, ast.Name) and cur.id == self.TEXT:
                            for p in parts:
                                out.append((self.cfg.node_of_stmt[id(sub)], p))
                            continue
                    if isinstance(v, ast.Subscript) and isinstance(v.value, ast.Name) and v.value.id == self.TEXT:
                        out.append((self.cfg.node_of_stmt[id(sub)], "strip:" + ast.unparse(v.slice)))
                        continue
                    out.append((self.cfg.node_of_stmt[id(sub)], "other:" + ast.unparse(v)))
        return out

    def is_none(self, v):
        return isinstance(v, ast.Constant) and v.value is None

    def pending_effect(self, stmts):
        """'set' | 'clear' | 'keep' | 'mixed' for the pending-order variable in a branch body"""
        sets = self.assigns(stmts, self.PENDING, lambda v: not self.is_none(v))
        clears = self.assigns(stmts, self.PENDING, self.is_none)
        if not sets and not clears:
            return "keep"
        if clears and not sets and self.all_paths_pass(stmts, clears):
            return "clear"
        if sets and not clears and self.all_paths_pass(stmts, sets):
            return "set"
        return "mixed"


def tok_rules(repo, tier="quick"):
    T = Tokenizer(repo)
    fi, fl, cfg = T.fi, T.fl, T.cfg
    obs = []
    D = T.dispatch

    def branch_of(ch):
        return T.branches[D[ch]]

    # ---- T1: every symbol of the table is dispatched to the branch that sets pending := table[token] and appends the token
    sym_branches = {D[k] for k in T.table}
    ok = len(sym_branches) == 1
    if ok:
        test, body, node = T.branches[sym_branches.pop()]
        sets = T.assigns(body, T.PENDING, lambda v: isinstance(v, ast.Subscript) and isinstance(v.value, ast.Name) and v.value.id in T.table_names
                         and isinstance(v.slice, ast.Name) and v.slice.id == T.token)
        apps = [a for a in T.text_appends(body) if isinstance(a[1], ast.Name) and a[1].id == T.token]
        ok = bool(sets) and T.all_paths_pass(body, sets) and bool(apps) and T.all_paths_pass(body, {a[0] for a in apps})
        (obs.append(ob_ok("TOK.T1-symbol", fi, node, construct="symbol: pending = table[token]; text += token", instance="symbol",
                          reason="every key of the order table sets the pending order and stays in the text until something consumes it")) if ok else
         obs.append(ob_fail("TOK.T1-symbol", fi, node, construct="symbol branch", instance="symbol",
                            reason="a bond order symbol does not (always) set the pending order to table[token] and get appended to the text")))
    else:
        obs.append(ob_fail("TOK.T1-symbol", fi, T.loop, construct="symbols dispatched to branches %s" % {k: D[k] for k in T.table}, instance="symbol",
                           reason="the keys of the order table are handled by different branches"))

    # ---- T2: ring digits and '%'
    ring_chars = SPEC["representatives"]["RING"]
    rb = {D[c] for c in ring_chars}
    if len(rb) != 1:
        obs.append(ob_fail("TOK.T2-ring", fi, T.loop, construct="ring characters dispatched to %s" % {c: D[c] for c in ring_chars}, instance="dispatch",
                           reason="digits and '%' are not handled by one ring branch"))
    else:
        test, body, node = T.branches[rb.pop()]
        calls = [(c, n) for c, n in fl.calls() if n in T.nodes_of(body) and isinstance(c.func, ast.Name) and c.func.id == "collect_ring_number"]
        if not calls:
            raise AnalysisError("ring branch no longer calls collect_ring_number", fi.where(node))
        c0, n0 = calls[0]
        crn = repo.function("read_fragments:collect_ring_number")
        roles = _ring_roles(crn)
        atom_param = roles["atom"] if roles else (crn.positional_params[2] if len(crn.positional_params) > 2 else "node_count")
        arg_atom = call_arg(c0, list(crn.positional_params).index(atom_param) if atom_param in crn.positional_params else 2, atom_param)
        ok_atom = isinstance(arg_atom, ast.Name) and arg_atom.id == T.PREV
        (obs.append(ob_ok("TOK.T2-ring", fi, c0, construct="collect_ring_number(iter, token, previous atom, rings)", instance="atom",
                          reason="ring closures belong to the atom written before them")) if ok_atom else
         obs.append(ob_fail("TOK.T2-ring", fi, c0, construct="collect_ring_number(..., %s, ...)" % (ast.unparse(arg_atom) if arg_atom is not None else "?"), instance="atom",
                            reason="ring closure digits are attributed to %s instead of the previous atom" % (ast.unparse(arg_atom) if arg_atom is not None else "?"))))
        # appended text is the collected string (result index 2)
        st = cfg.nodes[n0].ast
        collected = None
        if isinstance(st, ast.Assign) and isinstance(st.targets[0], ast.Tuple) and len(st.targets[0].elts) == 4 and isinstance(st.targets[0].elts[2], ast.Name):
            collected = st.targets[0].elts[2].id
        elif isinstance(st, ast.Assign) and len(st.targets) == 1 and isinstance(st.targets[0], ast.Name) and st.value is c0:
            # the collector hands back only the collected text (iterator and ring table are updated in place)
            collected = st.targets[0].id
        direct_append = isinstance(st, (ast.AugAssign, ast.Assign)) and aug_like(st) and aug_like(st)[0] == T.TEXT and aug_like(st)[1] is ast.Add and aug_like(st)[2] is c0
        apps = T.text_appends(body)
        ok_app = collected is not None and any(isinstance(a[1], ast.Name) and a[1].id == collected for a in apps) and \
            T.all_paths_pass(body, {a[0] for a in apps if isinstance(a[1], ast.Name) and a[1].id == collected}) and \
            all(isinstance(a[1], ast.Name) and a[1].id == collected for a in apps)
        if direct_append:
            # text += collect_ring_number(...)
            ok_app = all(a[1] is c0 for a in apps) and T.all_paths_pass(body, {a[0] for a in apps})
        (obs.append(ob_ok("TOK.T0-conservation", fi, node, construct="ring: text += collected digits", instance="ring",
                          reason="exactly the consumed ring characters are appended")) if ok_app else
         obs.append(ob_fail("TOK.T0-conservation", fi, node, construct="ring branch appends %s" % [a[1] if isinstance(a[1], str) else ast.unparse(a[1]) for a in apps],
                            instance="ring", reason="the ring branch does not append exactly the characters collect_ring_number consumed")))
        eff = T.pending_effect(body)
        (obs.append(ob_ok("TOK.T2-ring", fi, node, construct="ring: pending = None", instance="pending",
                          reason="an order symbol in front of ring digits is the ring bond's order, not a following descriptor's")) if eff == "clear" else
         obs.append(ob_fail("TOK.T2-ring", fi, node, construct="ring digits leave the pending order %s" % ("set" if eff == "keep" else eff), instance="pending",
                            reason="after `symbol ring-digits` a following descriptor takes the ring bond's order and removes the last ring digit from the text")))

    # ---- T3: atoms
    atom_branches = []
    bare = D["C"]
    atom_branches.append(("bare", T.branches[bare][1], T.branches[bare][2]))
    # bracket atom: the else-arm inside the '[' branch that is not the descriptor arm
    bb = T.branches[D["["]]
    darm, aarm, dnode = _descriptor_split(T, bb)
    atom_branches.append(("bracket", aarm, dnode))
    for name, body, node in atom_branches:
        prevs = T.assigns(body, T.PREV, lambda v: isinstance(v, ast.Name) and v.id == T.COUNTER)
        incs = {cfg.node_of_stmt[id(s)] for st in body for s in ast.walk(st)
                if isinstance(s, (ast.AugAssign, ast.Assign)) and aug_like(s) and aug_like(s)[0] == T.COUNTER and aug_like(s)[1] is ast.Add
                and isinstance(aug_like(s)[2], ast.Constant) and aug_like(s)[2].value == 1}
        ok = len(prevs) == 1 and len(incs) == 1 and T.all_paths_pass(body, prevs) and T.all_paths_pass(body, incs)
        if ok:
            p, i = list(prevs)[0], list(incs)[0]
            ok = cfg.path_exists(p, i) and not cfg.path_exists(i, p, avoid={cfg.node_of_stmt[id(T.loop)]})
        (obs.append(ob_ok("TOK.T3-atom", fi, node, construct="%s atom: previous = counter; counter += 1" % name, instance=name + ":advance",
                          reason="descriptors written after this atom attach to it, the next atom gets the next index")) if ok else
         obs.append(ob_fail("TOK.T3-atom", fi, node, construct="%s atom branch" % name, instance=name + ":advance",
                            reason="an atom does not set previous-atom := counter and then advance the counter by one, in this order, on every path")))
        eff = T.pending_effect(body)
        (obs.append(ob_ok("TOK.T3-atom", fi, node, construct="%s atom: pending = None" % name, instance=name + ":pending",
                          reason="an order symbol in front of an atom is that bond's order")) if eff == "clear" else
         obs.append(ob_fail("TOK.T3-atom", fi, node, construct="%s atom leaves the pending order %s" % (name, eff), instance=name + ":pending",
                            reason="after `symbol atom` a later descriptor would take the bond's order and strip a character of the text")))
    # bare atom: text conservation incl. two-letter lookahead
    body = T.branches[bare][1]
    apps = T.text_appends(body)
    good = bool(apps)
    for nid, e in apps:
        if isinstance(e, str):
            good = False
        elif isinstance(e, ast.Name) and e.id == T.token:
            pass
        elif isinstance(e, ast.BinOp) and isinstance(e.op, ast.Add) and isinstance(e.left, ast.Name) and e.left.id == T.token and \
                isinstance(e.right, ast.Call) and isinstance(e.right.func, ast.Name) and e.right.func.id == "next":
            pass
        elif isinstance(e, ast.BinOp) and isinstance(e.op, ast.Add) and isinstance(e.left, ast.Name) and e.left.id == T.token and \
                isinstance(e.right, ast.Name) and _peeked_then_consumed(T, body, nid, e.right):
            # text += token + peeked; next(iter): the peeked character is appended and then consumed
            pass
        else:
            good = False
    good = good and T.all_paths_pass(body, {a[0] for a in apps})
    (obs.append(ob_ok("TOK.T0-conservation", fi, T.branches[bare][2], construct="bare atom: text += token (+ next(iter) for two-letter elements)", instance="bare-atom",
                      reason="atom letters are copied unchanged")) if good else
     obs.append(ob_fail("TOK.T0-conservation", fi, T.branches[bare][2], construct="bare atom appends %s" % [a[1] if isinstance(a[1], str) else ast.unparse(a[1]) for a in apps],
                        instance="bare-atom", reason="a bare atom is not copied to the cleaned text exactly as consumed")))
    # two-letter elements: the look-ahead set must not contain a pair that is also `organic atom + aromatic atom`
    ORGANIC_UPPER = set("BCNOPSFI")
    AROMATIC_LOWER = set("bcnops")
    look = None
    for st in body:
        for sub in ast.walk(st):
            if isinstance(sub, ast.Compare) and len(sub.ops) == 1 and isinstance(sub.ops[0], ast.In) and isinstance(sub.left, ast.BinOp) and \
                    isinstance(sub.left.op, ast.Add) and isinstance(sub.left.left, ast.Name) and sub.left.left.id == T.token:
                ahead = sub.left.right
                if isinstance(ahead, ast.Name) and id(ahead) in cfg.owner:
                    # a temporary holding the peeked character
                    ahead = resolve_ast(fl, ahead, cfg.owner[id(ahead)])[0]
                if "peek" in ast.unparse(ahead):
                    look = sub
    if look is None:
        obs.append(ob_undecided("TOK.T3-atom", fi, T.branches[bare][2], construct="two-letter element look-ahead", instance="bare:two-letter",
                                reason="cannot find the `token + iter.peek() in <two-letter elements>` test"))
    else:
        cont = look.comparators[0]
        from ..model import fold_const
        try:
            lit = fold_const(cont, None if isinstance(cont, ast.Name) and cont.id in fl.locals else fi.module)
        except (ValueError, TypeError):
            lit = None
        if lit is not None and (isinstance(lit, (str, dict)) or not hasattr(lit, "__iter__")):
            lit = None
        if lit is not None and all(isinstance(x, str) for x in lit):
            amb = sorted(x for x in lit if len(x) == 2 and x[0] in ORGANIC_UPPER and x[1] in AROMATIC_LOWER)
            (obs.append(ob_fail("TOK.T3-atom", fi, look, construct="two-letter elements %s" % sorted(lit), instance="bare:two-letter",
                                reason="%s can also be an upper-case atom followed by an aromatic atom (as in `CSc1ccccc1`): the atom counter runs one behind from there on"
                                % amb)) if amb else
             obs.append(ob_ok("TOK.T3-atom", fi, look, construct="two-letter elements %s" % sorted(lit), instance="bare:two-letter",
                              reason="no listed element can be confused with `organic atom + aromatic atom`")))
        else:
            ct = fl.canon(cont, cfg.owner[id(look)]) if id(look) in cfg.owner else None
            if ct is not None and ct[0] == "ext" and ct[1].endswith("PTE"):
                obs.append(ob_fail("TOK.T3-atom", fi, look, construct="two-letter elements looked up in %s" % ct[1], instance="bare:two-letter",
                                   reason="the whole periodic table contains Sc, Cn, Sn, Co, Cs, Nb, No, Os, Pb, Po, Np, In, Sb: an upper-case atom followed "
                                          "by an aromatic atom (`Sc1ccccc1`) is swallowed as one element and the atom counter runs one behind"))
            else:
                obs.append(ob_undecided("TOK.T3-atom", fi, look, construct="two-letter elements from %s" % ast.unparse(cont), instance="bare:two-letter",
                                        reason="the look-ahead set is not a literal"))
    # bracket atom: annotations stored under the pre-increment counter, not appended
    stores = []
    for st in aarm:
        for sub in ast.walk(st):
            if isinstance(sub, ast.Call) and isinstance(sub.func, ast.Attribute) and sub.func.attr == "update" and \
                    isinstance(sub.func.value, ast.Subscript) and isinstance(sub.func.value.value, ast.Name) and sub.func.value.value.id == T.ATTRS:
                stores.append(sub)
            if isinstance(sub, ast.Assign) and isinstance(sub.targets[0], ast.Subscript) and isinstance(sub.targets[0].value, ast.Name) and \
                    sub.targets[0].value.id == T.ATTRS:
                stores.append(sub)
    ok = False
    if stores:
        s0 = stores[0]
        key = s0.func.value.slice if isinstance(s0, ast.Call) else s0.targets[0].slice
        nid = cfg.owner[id(s0)]
        incs = [cfg.node_of_stmt[id(s)] for st in aarm for s in ast.walk(st)
                if isinstance(s, (ast.AugAssign, ast.Assign)) and aug_like(s) and aug_like(s)[0] == T.COUNTER]
        ok = isinstance(key, ast.Name) and key.id == T.COUNTER and all(cfg.path_exists(nid, i) and not cfg.path_exists(i, nid, avoid={cfg.node_of_stmt[id(T.loop)]}) for i in incs)
    (obs.append(ob_ok("TOK.T3-atom", fi, dnode, construct="attributes[counter].update(parsed annotations) before counter += 1", instance="bracket:annotations",
                      reason="annotations are reported on the atom they are written in")) if ok else
     obs.append(ob_fail("TOK.T3-atom", fi, dnode, construct="annotation store in the bracket-atom branch", instance="bracket:annotations",
                        reason="annotations of a bracket atom are not stored under that atom's index (the counter before it is advanced)")))
    # annotation parser is the atomistic dialect's
    from .gaps import fragment_parser_selection
    _fi2, psites = fragment_parser_selection(repo)
    arm_ids = {id(c) for st in aarm for c in ast.walk(st)}
    pc = [sx for sx in psites if id(sx[0]) in arm_ids and sx[2] in ("selected", "single:atom")]
    (obs.append(ob_ok("TOK.T3-atom", fi, pc[0][0], construct="annotation text parsed with %s" % pc[0][3], instance="bracket:parser", reason="atom annotations go through the fragment dialect")) if pc else
     obs.append(ob_fail("TOK.T3-atom", fi, dnode, construct="no call of the atomistic annotation parser in the bracket-atom branch", instance="bracket:parser", reason="atom annotations are not parsed with the fragment dialect")))

    # ---- T4: parentheses
    for ch, kind in (("(", "push"), (")", "pop")):
        test, body, node = branch_of(ch)
        if kind == "push":
            ok = any(isinstance(s, ast.Call) and isinstance(s.func, ast.Attribute) and s.func.attr == "append" and len(s.args) == 1 and
                     isinstance(s.args[0], ast.Name) and s.args[0].id == T.PREV for st in body for s in ast.walk(st))
            stack = [s.func.value.id for st in body for s in ast.walk(st) if isinstance(s, ast.Call) and isinstance(s.func, ast.Attribute)
                     and s.func.attr == "append" and isinstance(s.func.value, ast.Name)]
            T.STACK = stack[0] if stack else None
        else:
            def is_pop(v):
                if isinstance(v, ast.Name) and id(v) in cfg.owner:
                    v = resolve_ast(fl, v, cfg.owner[id(v)])[0]
                return isinstance(v, ast.Call) and isinstance(v.func, ast.Attribute) and v.func.attr == "pop" and \
                    isinstance(v.func.value, ast.Name) and v.func.value.id == getattr(T, "STACK", None) and not v.args
            ok = bool(T.assigns(body, T.PREV, is_pop))
        apps = T.text_appends(body)
        ok_app = len(apps) == 1 and isinstance(apps[0][1], ast.Name) and apps[0][1].id == T.token
        (obs.append(ob_ok("TOK.T4-branch", fi, node, construct="'%s': %s previous atom; text += token" % (ch, kind), instance=kind,
                          reason="after a branch closes, descriptors and bonds attach to the atom the branch started from")) if ok and ok_app else
         obs.append(ob_fail("TOK.T4-branch", fi, node, construct="'%s' branch" % ch, instance=kind,
                            reason="'%s' does not %s the previous atom on the branch stack and copy the parenthesis" % (ch, kind))))

    # ---- T5: descriptor
    obs += _descriptor_rules(T, bb, darm, dnode)

    # ---- T6: slashes
    sl = {D[c] for c in SPEC["representatives"]["SLASH"]}
    if len(sl) != 1:
        obs.append(ob_fail("TOK.T6-slash", fi, T.loop, construct="slash characters dispatched to %s" % {c: D[c] for c in SPEC["representatives"]["SLASH"]}, instance="dispatch",
                           reason="'/' and '\\' are not handled by one branch"))
    else:
        test, body, node = T.branches[sl.pop()]
        keys = set()
        conditional = set()
        st_loops = lambda stmt: [x for x in ast.walk(stmt) if isinstance(x, ast.For)]
        for st in body:
            for sub in ast.walk(st):
                if isinstance(sub, ast.Assign) and isinstance(sub.targets[0], ast.Subscript) and isinstance(sub.targets[0].value, ast.Name) and \
                        sub.targets[0].value.id == T.EZ and isinstance(sub.value, ast.Name) and sub.value.id == T.token and isinstance(sub.targets[0].slice, ast.Name):
                    key_name = sub.targets[0].slice.id
                    # `for key in (a, b): ez[key] = token` stores under a and under b
                    key_loop = [l for l in st_loops(st) if isinstance(l.target, ast.Name) and l.target.id == key_name and isinstance(l.iter, (ast.Tuple, ast.List))
                                and all(isinstance(e, ast.Name) for e in l.iter.elts) and len(l.body) == 1 and l.body[0] is sub and not l.orelse]
                    if key_loop and key_loop[0] is st:
                        keys |= {e.id for e in key_loop[0].iter.elts}
                        continue
                    keys.add(key_name)
                    if sub is not st:
                        # the store sits inside a nested statement (if / loop / try) of the branch
                        conditional.add(key_name)
        if keys == {T.COUNTER, T.PREV} and conditional:
            obs.append(ob_fail("TOK.T6-slash", fi, node, construct="the mark for %s is stored only under a further condition" % sorted(conditional), instance="record:unconditional",
                               reason="every slash marks the atom before it and the atom after it, whatever that atom looks like (bracket atom, "
                                      "annotated atom, atom of the next fragment): a conditional store drops marks"))
        ok = keys == {T.COUNTER, T.PREV} and not T.text_appends(body)
        (obs.append(ob_ok("TOK.T6-slash", fi, node, construct="ez[counter] = ez[previous] = token; nothing appended", instance="record",
                          reason="a slash mark is recorded for the atom before and the atom after it and removed from the text")) if ok else
         obs.append(ob_fail("TOK.T6-slash", fi, node, construct="slash branch stores under %s, appends %d" % (sorted(keys), len(T.text_appends(body))), instance="record",
                            reason="a slash mark is not recorded for exactly the previous and the next atom, or it stays in the text")))

    # ---- invariant over admissible token successions
    obs += _invariant(T, darm)
    # ---- the ring digit collector, executed on representative tails
    obs += _collect_ring(repo)
    return obs


class _Iter:
    """model of read_fragments.PeekIter over a concrete string: next() and peek()"""

    def __init__(self, text):
        self.text, self.pos = text, 0


def _ring_roles(crn):
    """which parameter of collect_ring_number is the iterator, the current token, the atom and the ring table: read off
    the body (next(<iterator>) / <iterator>.peek(), <table>[key].append(<atom>)), so that a reordered signature is followed"""
    P = list(crn.positional_params)
    roles = {}
    for x in ast.walk(crn.node):
        if isinstance(x, ast.Call) and isinstance(x.func, ast.Name) and x.func.id == "next" and x.args and isinstance(x.args[0], ast.Name) and x.args[0].id in P:
            roles.setdefault("iter", x.args[0].id)
        if isinstance(x, ast.Call) and isinstance(x.func, ast.Attribute) and x.func.attr == "peek" and isinstance(x.func.value, ast.Name) and x.func.value.id in P:
            roles.setdefault("iter", x.func.value.id)
        if isinstance(x, ast.Call) and isinstance(x.func, ast.Attribute) and x.func.attr == "append" and isinstance(x.func.value, ast.Subscript) and \
                isinstance(x.func.value.value, ast.Name) and x.func.value.value.id in P and len(x.args) == 1 and isinstance(x.args[0], ast.Name) and x.args[0].id in P:
            roles.setdefault("rings", x.func.value.value.id)
            roles.setdefault("atom", x.args[0].id)
    rest = [p_ for p_ in P if p_ not in roles.values()]
    if len(roles) == 3 and len(set(roles.values())) == 3 and len(rest) == 1:
        roles["token"] = rest[0]
        return roles
    # the signature of today's tree
    return {"iter": P[0], "token": P[1], "atom": P[2], "rings": P[3]} if len(P) >= 4 else None


def _collect_ring(repo):
    """T0 for the ring branch: collect_ring_number returns exactly the ring characters it consumed and leaves the iterator
    in front of the first character that is not part of a ring marker.  Decided by abstract execution of the function on
    representative tails (single digits, %nn, mixtures; at the end of the text and in front of an atom / brace)."""
    from ..absint import Raised
    fi = repo.function("read_fragments:collect_ring_number")
    P = fi.positional_params
    need(len(P) >= 4, "collect_ring_number no longer takes (iterator, token, node, rings)", fi)
    R = _ring_roles(fi)
    cases = []
    for head in ("1", "12", "%10", "%10%11", "1%10", "%102", "%10%112", "2%10%11"):
        for tail in ("", "C", ")", "(C)"):
            cases.append((head, tail))
    bad = []
    n = 0
    for head, tail in cases:
        text = head + tail
        it = _Iter(text)
        it.pos = 1            # the caller's loop has consumed the first character: it is `token`

        def hook(ev, call, env, it=it):
            f = call.func
            if isinstance(f, ast.Name) and f.id == "next" and len(call.args) == 1 and ev.eval(call.args[0], env) is it:
                if it.pos >= len(it.text):
                    raise Raised("StopIteration")
                it.pos += 1
                return True, it.text[it.pos - 1]
            if isinstance(f, ast.Attribute) and f.attr == "peek" and ev.eval(f.value, env) is it:
                return True, (it.text[it.pos] if it.pos < len(it.text) else None)
            return False, None

        rings = {}

        def load(ev, expr, env, rings=rings):
            # rings is a defaultdict(list): a missing key reads as a fresh list
            if isinstance(expr, ast.Subscript) and isinstance(expr.value, ast.Name) and env.get(expr.value.id) is rings:
                key = ev.eval(expr.slice, env)
                key = key.concrete() if hasattr(key, "concrete") else key
                return True, rings.setdefault(key, [])
            return False, None
        ev = Evaluator(call_hook=hook, load_hook=load)
        n += 1
        try:
            kind, val = ev.run_function(fi.node, {R["iter"]: it, R["token"]: text[0], R["atom"]: 7, R["rings"]: rings})
        except Unsupported as err:
            return [ob_undecided("TOK.T0-conservation", fi, construct="collect_ring_number on %r" % text, instance="ring-collect",
                                 reason="outside the evaluator's language: %s" % err)]
        # (iterator, token, text, rings) or just the text
        if kind == "return" and (isinstance(val, str) or hasattr(val, "concrete")):
            val = (None, None, val, None)
        if kind != "return" or not isinstance(val, tuple) or len(val) != 4:
            bad.append((text, "ends with %s %r" % (kind, val if kind == "raise" else type(val).__name__)))
            continue
        got = val[2]
        got = got if isinstance(got, str) else (got.concrete() if hasattr(got, "concrete") else got)
        if got != head:
            bad.append((text, "returns the ring text %r for the ring characters %r" % (got, head)))
        elif it.pos != len(head):
            bad.append((text, "leaves the iterator %d characters behind the ring characters" % (it.pos - len(head))))
    if bad:
        return [ob_fail("TOK.T0-conservation", fi, construct="collect_ring_number on %r %s" % b, instance="ring-collect",
                        reason="the ring digits handed back to the tokenizer are not exactly the characters consumed from the fragment text: "
                               "ring closures are lost from (or foreign characters enter) the cleaned SMILES") for b in bad[:3]]
    return [ob_ok("TOK.T0-conservation", fi, construct="collect_ring_number on %d representative tails" % n, instance="ring-collect",
                  reason="the returned text is the maximal run of ring characters and the iterator stops right behind it")]


def _peeked_then_consumed(T, body, nid, name):
    """`name` holds iter.peek() and the statement that appends it is directly followed by a bare `next(iter)`"""
    v, vn = resolve_ast(T.fl, name, nid) if id(name) in T.cfg.owner else (name, nid)
    if isinstance(v, ast.Call) and isinstance(v.func, ast.Name) and not v.args:
        # a bound method held in a local: peek = iter.peek
        f2 = resolve_ast(T.fl, v.func, vn)[0]
        if isinstance(f2, ast.Attribute):
            v = ast.Call(func=f2, args=[], keywords=[])
    if not (isinstance(v, ast.Call) and isinstance(v.func, ast.Attribute) and v.func.attr == "peek" and not v.args):
        return False
    for parent in [x for st in body for x in ast.walk(st)] + [None]:
        stmts = body if parent is None else [s_ for f_ in ("body", "orelse") for s_ in (getattr(parent, f_, []) if isinstance(getattr(parent, f_, None), list) else [])]
        for i, st in enumerate(stmts):
            if T.cfg.node_of_stmt.get(id(st)) == nid and i + 1 < len(stmts):
                nx_ = stmts[i + 1]
                if isinstance(nx_, ast.Expr) and isinstance(nx_.value, ast.Call) and isinstance(nx_.value.func, ast.Name) and nx_.value.func.id == "next" and \
                        len(nx_.value.args) == 1 and ast.unparse(nx_.value.args[0]) == ast.unparse(v.func.value):
                    return True
    return False


def _descriptor_split(T, bracket_branch):
    """Inside the '[' branch: the if whose test looks for a descriptor kind character; returns
    (descriptor arm stmts, atom arm stmts, If node).  A guard clause (`if <kind test>: ...; continue` followed by the other
    case) is the same split."""
    from ..model import fold_const
    test, body, node = bracket_branch
    kinds = set(SPEC["descriptor_kinds"])
    for pos, st in enumerate(body):
        if isinstance(st, ast.If):
            cmp_, tarm, farm = if_arms(st)
            if isinstance(cmp_, ast.Compare) and len(cmp_.ops) == 1 and isinstance(cmp_.ops[0], (ast.In, ast.NotIn)):
                cont = cmp_.comparators[0]
                if isinstance(cont, ast.Name) and cont.id in T.fl.locals:
                    cont = resolve_ast(T.fl, cont, T.cfg.owner[id(cont)])[0] if id(cont) in T.cfg.owner else cont
                try:
                    lit = fold_const(cont, T.fi.module)
                except (ValueError, TypeError):
                    continue
                if not isinstance(lit, (str, list, tuple, set, frozenset)) or not all(isinstance(x, str) for x in lit):
                    continue
                if len(set(lit) & kinds) >= 2:
                    T.kinds_literal = set(lit) if not isinstance(lit, str) else set(lit.replace(" ", ""))
                    T.peek_var = ast.unparse(cmp_.left)
                    if isinstance(cmp_.ops[0], ast.NotIn):
                        tarm, farm = farm, tarm
                    rest = body[pos + 1:]
                    if rest and not farm and tarm and isinstance(tarm[-1], ast.Continue):
                        farm = rest
                    elif rest and not tarm and farm and isinstance(farm[-1], ast.Continue):
                        tarm = rest
                    return tarm, farm, st
    raise AnalysisError("cannot find the descriptor / bracket-atom split in the '[' branch", T.fi.where(node))


def _descriptor_rules(T, bb, darm, dnode):
    fi, fl, cfg = T.fi, T.fl, T.cfg
    obs = []
    kinds = set(SPEC["descriptor_kinds"])
    (obs.append(ob_ok("TOK.T5-descriptor", fi, dnode, construct="descriptor kinds %s" % sorted(T.kinds_literal), instance="kinds",
                      reason="all four descriptor kinds are recognised")) if T.kinds_literal == kinds else
     obs.append(ob_fail("TOK.T5-descriptor", fi, dnode, construct="descriptor kinds %s" % sorted(T.kinds_literal), instance="kinds",
                        reason="the set of characters that start a descriptor is not exactly $ > < !")))
    # the append: DESCR[PREV].append(text + str(order))
    apps = []
    for st in darm:
        for sub in ast.walk(st):
            if isinstance(sub, ast.Call) and isinstance(sub.func, ast.Attribute) and sub.func.attr == "append" and \
                    isinstance(sub.func.value, ast.Subscript) and isinstance(sub.func.value.value, ast.Name) and sub.func.value.value.id == T.DESCR:
                apps.append(sub)
    if len(apps) != 1:
        obs.append(ob_fail("TOK.T5-descriptor", fi, dnode, construct="%d stores of a descriptor" % len(apps), instance="store",
                           reason="a descriptor is not stored exactly once"))
        return obs
    ap = apps[0]
    key = ap.func.value.slice
    ok_key = isinstance(key, ast.Name) and key.id == T.PREV
    (obs.append(ob_ok("TOK.T5-descriptor", fi, ap, construct="descriptors[previous atom].append(...)", instance="atom",
                      reason="a descriptor is reported on the atom it was written after (the first atom for a leading one)")) if ok_key else
     obs.append(ob_fail("TOK.T5-descriptor", fi, ap, construct="descriptors[%s].append(...)" % ast.unparse(key), instance="atom",
                        reason="a descriptor is attached to %s instead of the atom it was written after" % ast.unparse(key))))
    arg = ap.args[0] if ap.args else None
    ok_val = False
    order_name = None
    if isinstance(arg, ast.BinOp) and isinstance(arg.op, ast.Add) and isinstance(arg.left, ast.Name) and isinstance(arg.right, ast.Call) and \
            isinstance(arg.right.func, ast.Name) and arg.right.func.id == "str" and len(arg.right.args) == 1 and isinstance(arg.right.args[0], ast.Name):
        order_name = arg.right.args[0].id
        text_name = arg.left.id
        ok_val = True
    (obs.append(ob_ok("TOK.T5-descriptor", fi, ap, construct="stored value = descriptor text + str(order)", instance="value",
                      reason="kind and label are kept, the order is appended as the last character (the writer strips exactly one)")) if ok_val else
     obs.append(ob_fail("TOK.T5-descriptor", fi, ap, construct="stored value %s" % (ast.unparse(arg) if arg is not None else "?"), instance="value",
                        reason="the stored descriptor is not `text + str(order)`")))
    if not ok_val:
        return obs
    # the descriptor text: kind char + everything up to ']'
    tdefs = [d for d in fl.reaching(text_name, cfg.owner[id(ap)]) if d.kind != "unbound"]
    # a plain copy (text = collected) is followed to the variable the text was collected in
    text_names = [text_name]
    for _hop in range(3):
        if len(tdefs) == 1 and tdefs[0].kind == "assign" and isinstance(tdefs[0].value, ast.Name) and tdefs[0].value.id != T.peek_var and \
                tdefs[0].value.id in fl.locals and not tdefs[0].path:
            text_name = tdefs[0].value.id
            text_names.append(text_name)
            tdefs = [d for d in fl.reaching(text_name, tdefs[0].node) if d.kind != "unbound"]
        else:
            break
    init_ok = any(d.kind == "assign" and isinstance(d.value, ast.Name) and d.value.id == T.peek_var for d in tdefs)
    acc_ok = False
    acc_loop = acc_ch = None
    for d in tdefs:
        al = aug_like(d.ast) if d.ast is not None and isinstance(d.ast, (ast.AugAssign, ast.Assign)) else None
        if al and al[0] == text_name and al[1] is ast.Add and isinstance(al[2], ast.Name):
            ch = al[2].id
            loops = enclosing_loops(fi, d.node)
            if loops and loops[0].kind == "while":
                tst, tpol = strip_not(loops[0].ast.test, True)
                if isinstance(tst, ast.Compare) and len(tst.ops) == 1 and isinstance(tst.ops[0], ast.Eq) and not tpol:
                    tst = ast.Compare(left=tst.left, ops=[ast.NotEq()], comparators=tst.comparators)
                def is_next(v):
                    if isinstance(v, ast.Name) and id(v) in cfg.owner:
                        v = resolve_ast(fl, v, cfg.owner[id(v)])[0]
                    return isinstance(v, ast.Call) and isinstance(v.func, ast.Name) and v.func.id == "next"
                adv = [s2 for st2 in loops[0].ast.body for s2 in ast.walk(st2) if isinstance(s2, ast.Assign) and isinstance(s2.targets[0], ast.Name)
                       and s2.targets[0].id == ch and is_next(s2.value)]
                if isinstance(tst, ast.Compare) and isinstance(tst.ops[0], ast.NotEq) and isinstance(tst.left, ast.Name) and tst.left.id == ch and \
                        isinstance(tst.comparators[0], ast.Constant) and tst.comparators[0].value == "]" and adv and \
                        not [g for g in guards_of(fi, d.node) if g[2] in cfg.loops.get(loops[0].id, set())]:
                    acc_ok = True
                    acc_loop, acc_ch = loops[0], ch
    # the same collection started from the empty string: text = ""; while ch != ']': text += ch; ch = next(iter), with the kind read off text[:1]
    empty_start = [d for d in tdefs if d.kind == "assign" and isinstance(d.value, ast.Constant) and d.value.value == ""]
    if not init_ok and empty_start and acc_ok and T.peek_var.replace(" ", "") in [tn + sl for tn in text_names for sl in ("[:1]", "[0]", "[0:1]")]:
        init_ok = True
    # ... or with the kind character as the first character the loop sees: text = ""; ch = <kind char>; while ch != ']': text += ch; ch = next(iter)
    if not init_ok and empty_start and acc_ok:
        body = cfg.loops.get(acc_loop.id, set())
        outer = [d for d in fl.reaching(acc_ch, acc_loop.id) if d.kind != "unbound" and d.node not in body]
        if len(outer) == 1 and outer[0].kind == "assign" and isinstance(outer[0].value, ast.Name) and outer[0].value.id == T.peek_var and not outer[0].path:
            init_ok = True
    extra_defs = [d for d in tdefs if not ((d.kind == "assign" and isinstance(d.value, ast.Name) and d.value.id == T.peek_var) or d.kind == "aug" or
                                           (d.kind == "assign" and isinstance(d.value, ast.Constant) and d.value.value == "" and init_ok) or
                                           (d.ast is not None and isinstance(d.ast, ast.Assign) and aug_like(d.ast)))]
    (obs.append(ob_ok("TOK.T5-descriptor", fi, ap, construct="text = kind char; while ch != ']': text += ch; ch = next(iter)", instance="text",
                      reason="kind and label are collected completely, up to the closing bracket")) if init_ok and acc_ok and not extra_defs else
     obs.append(ob_fail("TOK.T5-descriptor", fi, ap, construct="collection of the descriptor text", instance="text",
                        reason="the descriptor's kind and label are not collected character by character up to ']'")))
    # order definitions
    nid = cfg.owner[id(ap)]
    defs = [d for d in fl.reaching(order_name, nid) if d.kind != "unbound"]
    seen = {"leading": None, "pending": None, "default": None}
    extra = []
    for d in defs:
        if d.kind != "assign":
            extra.append(d)
            continue
        v = d.value
        if d.path and isinstance(v, (ast.Tuple, ast.List)) and len(d.path) == 1 and isinstance(d.path[0], int) and 0 <= d.path[0] < len(v.elts):
            v = v.elts[d.path[0]]       # order, pending = pending, None
        gs = guards_of(fi, d.node, named=True)
        gtexts = [(t, pol, g) for t, pol, g in gs if g in T.nodes_of(darm) or True]
        if isinstance(v, ast.Constant) and v.value == 1:
            seen["default"] = (d, gtexts)
        elif isinstance(v, ast.Name) and v.id == T.PENDING:
            seen["pending"] = (d, gtexts)
        elif isinstance(v, ast.Subscript) and isinstance(v.value, ast.Name) and v.value.id in T.table_names and \
                isinstance(v.slice, ast.Call) and isinstance(v.slice.func, ast.Name) and v.slice.func.id == "next":
            seen["leading"] = (d, gtexts)
        else:
            extra.append(d)
    for d in extra:
        obs.append(ob_fail("TOK.T5-descriptor", fi, d.ast, construct="order = %s" % (ast.unparse(d.value) if d.value is not None else d.kind), instance="order-source",
                           reason="a descriptor's order comes from something other than a following symbol (leading descriptor), the pending symbol, or the default 1"))
    for k, why in (("pending", "the symbol written in front of the descriptor"), ("default", "order 1 when nothing is written")):
        (obs.append(ob_ok("TOK.T5-descriptor", fi, seen[k][0].ast, construct="order source: %s" % k, instance="order:" + k, reason=why)) if seen[k] else
         obs.append(ob_fail("TOK.T5-descriptor", fi, dnode, construct="order source %s missing" % k, instance="order:" + k,
                            reason="descriptors never get %s" % why)))
    # SENT: the guard of the pending source must be `PENDING is not None`
    if seen["pending"]:
        d, gs = seen["pending"]
        inner = [(t, pol) for t, pol, g in gs if any(isinstance(x, ast.Name) and x.id == T.PENDING for x in ast.walk(t))]
        ok = False
        why = "the pending order is used without being tested"
        for t, pol in inner:
            src = ast.unparse(t)
            if pol and isinstance(t, ast.Compare) and len(t.ops) == 1 and isinstance(t.ops[0], ast.IsNot) and isinstance(t.left, ast.Name) and \
                    t.left.id == T.PENDING and T.is_none(t.comparators[0]):
                ok = True
            elif pol and isinstance(t, ast.Name) and t.id == T.PENDING:
                falsy = [k for k, v in T.table.items() if not v]
                why = "`if %s:` is a truth test, but the order table maps %s to a falsy order: such a descriptor gets order 1 and its symbol stays in the text" % (T.PENDING, falsy)
                ok = not falsy
            elif (not pol) and isinstance(t, ast.Compare) and len(t.ops) == 1 and isinstance(t.ops[0], ast.Is) and isinstance(t.left, ast.Name) and \
                    t.left.id == T.PENDING and T.is_none(t.comparators[0]):
                ok = True
        (obs.append(ob_ok("SENT.pending-order", fi, d.ast, construct="elif pending is not None: order = pending", instance="test",
                          reason="order 0 ('.') is a value, not 'no pending order'")) if ok else
         obs.append(ob_fail("SENT.pending-order", fi, d.ast, construct="guard of `order = pending`", instance="test", reason=why)))
        # consuming clears pending and strips exactly the last character
        arm_stmts = None
        for t, pol, g in gs:
            n = cfg.nodes[g]
            if any(isinstance(x, ast.Name) and x.id == T.PENDING for x in ast.walk(t)):
                _t, tarm, farm = if_arms(n.ast)
                arm_stmts = tarm if pol else farm
        if arm_stmts is not None:
            clears = T.assigns(arm_stmts, T.PENDING, T.is_none)
            strips = [a for a in T.text_appends(arm_stmts) if isinstance(a[1], str) and a[1] == "strip::-1"]
            ok = bool(clears) and T.all_paths_pass(arm_stmts, clears) and len(strips) == 1 and T.all_paths_pass(arm_stmts, {strips[0][0]})
            (obs.append(ob_ok("TOK.T5-descriptor", fi, d.ast, construct="consume: pending = None; text = text[:-1]", instance="consume",
                              reason="the symbol is used once and removed from the cleaned text")) if ok else
             obs.append(ob_fail("TOK.T5-descriptor", fi, d.ast, construct="consume arm", instance="consume",
                                reason="consuming the pending order does not clear it and remove exactly the last character of the text")))
    # leading descriptor: guard `iter.peek() in table and counter == 0`, consumes the symbol from the iterator
    if seen["leading"]:
        d, gs = seen["leading"]
        ok = False
        for t, pol, g in gs:
            conj = t.values if isinstance(t, ast.BoolOp) and isinstance(t.op, ast.And) else [t]
            from .common import _named_condition
            conj = [_named_condition(fi, c, g) for c in conj]     # conditions named with explanatory temporaries
            has_peek = any(isinstance(c, ast.Compare) and isinstance(c.ops[0], ast.In) and isinstance(c.comparators[0], ast.Name) and
                           c.comparators[0].id in T.table_names and "peek" in ast.unparse(c.left) for c in conj)
            has_zero = any(isinstance(c, ast.Compare) and isinstance(c.ops[0], ast.Eq) and isinstance(c.left, ast.Name) and c.left.id == T.COUNTER and
                           isinstance(c.comparators[0], ast.Constant) and c.comparators[0].value == 0 for c in conj)
            if pol and has_peek and has_zero:
                ok = True
        (obs.append(ob_ok("TOK.T5-descriptor", fi, d.ast, construct="leading descriptor: order = table[next(iter)] if iter.peek() in table and counter == 0",
                          instance="order:leading", reason="a symbol after a leading descriptor is its order and is not copied to the text")) if ok else
         obs.append(ob_fail("TOK.T5-descriptor", fi, d.ast, construct="guard of the leading-descriptor order", instance="order:leading",
                            reason="the symbol following a descriptor is taken as its order in other situations than a leading descriptor")))
    # descriptor arm appends nothing else to the text
    others = [a for a in T.text_appends(darm) if not (isinstance(a[1], str) and a[1] == "strip::-1")]
    (obs.append(ob_fail("TOK.T0-conservation", fi, dnode, construct="descriptor arm appends %s" % [a[1] if isinstance(a[1], str) else ast.unparse(a[1]) for a in others],
                        instance="descriptor", reason="descriptor text leaks into the cleaned string")) if others else
     obs.append(ob_ok("TOK.T0-conservation", fi, dnode, construct="descriptor arm appends nothing", instance="descriptor", reason="descriptors are removed from the text")))
    # descriptor arm does not advance the atom counter / previous atom
    moved = T.assigns(darm, T.COUNTER) | T.assigns(darm, T.PREV)
    (obs.append(ob_fail("TOK.T5-descriptor", fi, dnode, construct="descriptor arm changes the atom counter / previous atom", instance="no-advance",
                        reason="a descriptor is counted as an atom")) if moved else
     obs.append(ob_ok("TOK.T5-descriptor", fi, dnode, construct="descriptor arm leaves atom indices alone", instance="no-advance", reason="descriptors are not atoms")))
    return obs


def _invariant(T, darm):
    """Reachability over (last token class, pending set?, last text character is the pending symbol?)
    with the extracted per-class effects: a descriptor must never be consumed while the pending
    order is set and the last character of the text is not the symbol that set it."""
    fi = T.fi
    D = T.dispatch
    eff = {}
    reps = SPEC["representatives"]

    def class_effect(chars):
        bs = {D[c] for c in chars}
        effects = set()
        appends = False
        for b in bs:
            body = T.branches[b][1]
            effects.add(T.pending_effect(body))
            appends = appends or bool([a for a in T.text_appends(body)])
        e = effects.pop() if len(effects) == 1 else "mixed"
        return e, appends
    eff["SYMBOL"] = class_effect(reps["SYMBOL"])
    eff["RING"] = class_effect(reps["RING"])
    eff["ATOM"] = class_effect(reps["ATOM"])
    eff["OPEN"] = class_effect(reps["OPEN"])
    eff["CLOSE"] = class_effect(reps["CLOSE"])
    eff["SLASH"] = class_effect(reps["SLASH"])
    bb = T.branches[D["["]]
    darm2, aarm, dnode = _descriptor_split(T, bb)
    eff["BRACKET_ATOM"] = (T.pending_effect(aarm), bool(T.text_appends(aarm)))
    adm = SPEC["admissible"]
    start = ("START", False, False)
    seen = {start: None}
    work = [start]
    bad = None
    while work and bad is None:
        st = work.pop(0)
        last, pend, lastsym = st
        for nxt in adm[last]:
            if nxt == "DESCR":
                if pend and not lastsym:
                    bad = (st, nxt)
                    break
                # consuming clears pending (checked separately); a descriptor appends nothing
                ns = ("DESCR", False, False)
                if last == "START":
                    ns = ("DESCR", False, False)
            else:
                e, app = eff[nxt]
                outs = []
                if e == "set":
                    outs = [(True, True)]
                elif e == "clear":
                    outs = [(False, False)]
                elif e == "keep":
                    outs = [(pend, lastsym and not app)]
                else:
                    outs = [(False, False), (pend, lastsym and not app), (True, app)]
                ns = None
                for p, l in outs:
                    s2 = (nxt, p, l)
                    if s2 not in seen:
                        seen[s2] = st
                        work.append(s2)
                continue
            if ns not in seen:
                seen[ns] = st
                work.append(ns)
    if bad:
        trace = [bad[1]]
        cur = bad[0]
        while cur is not None:
            trace.insert(0, cur[0])
            cur = seen[cur]
        return [ob_fail("TOK.invariant", fi, T.loop, construct="token classes: " + " ".join(trace), instance="pending-symbol-is-last-char",
                        reason="on this admissible succession a descriptor is consumed while the pending order is set but the last character "
                               "of the cleaned text is not the symbol that set it: the descriptor takes a foreign order and a wrong character is removed",
                        detail={"states": len(seen)})]
    return [ob_ok("TOK.invariant", fi, T.loop, construct="whenever a descriptor is consumed with a pending order, the text ends with the symbol that set it",
                  instance="pending-symbol-is-last-char", reason="%d abstract states explored over the admissible token successions" % len(seen),
                  detail={"states": len(seen), "effects": {k: list(v) for k, v in eff.items()}})]
