"""PROV / TRIP / DET - provenance rules that do not belong to the bond protocols."""
import ast
import json
import os

from .. import AnalysisError
from ..flow import show, walk_term
from ..report import ob_ok, ob_fail, ob_undecided, VERIF
from .common import (is_call, method_call, node_attr, edge_attr, elem_of, strip_wrappers, guards_of, enclosing_loops,
                     need, strip_sites, callee_name)

SELF = ("param", "self")


def prov_sort_key(repo, tier="quick"):
    """C12/C16: new node keys are the positions in sorted(attr.items(), key=(attr value, old key)); resolver and
    sampler sort by 'fragid'; node-referencing attributes listed in relative_attr are remapped."""
    fi = repo.function("graph_utils:sort_nodes_by_attr")
    fl, cfg = fi.flow, fi.cfg
    graph, attr = ("param", fi.positional_params[0]), ("param", fi.positional_params[1])
    obs = []
    oid = "PROV.sort-key"
    rel = fl.calls_to("networkx.relabel_nodes")
    need(len(rel) == 1, "expected one nx.relabel_nodes call in sort_nodes_by_attr, found %d" % len(rel), fi)
    call, nid, _ = rel[0]
    ct = fl.canon(call, nid)
    g = ct[3][0] if ct[3] else None
    mp = ct[3][1] if len(ct[3]) > 1 else dict(ct[4]).get("mapping")
    why = "mapping = %s" % show(mp)
    attr_dict = None

    def sort_source(src):
        """('items' | 'keys', attribute dict term) when src is sorted(<attribute dict>[.items() | .keys()], ...)"""
        sc = is_call(src, "sorted")
        if not sc or src[2] != ("builtin", "sorted") or not sc[0]:
            return None
        seq = sc[0][0]
        m = method_call(seq, "items")
        if m and not m[2]:
            base, mode = m[0], "items"
        else:
            mk = method_call(seq, "keys")
            base, mode = (mk[0] if mk and not mk[2] else strip_wrappers(seq)), "keys"
        c = is_call(base, "networkx.get_node_attributes")
        if c and c[0][:2] == (graph, attr):
            return mode, base
        return False

    ok = None        # None: form not recognised
    mode = None
    if mp and mp[0] == "comp" and mp[1] == "dict" and len(mp[4]) == 1 and not mp[4][0][2]:
        elem = mp[4][0][1]
        k, v = mp[3][1]
        e = elem_of(elem)
        if e and e[0] == "enumitem":
            en = is_call(e[1], "enumerate")
            start = dict(e[1][4]).get("start", en[0][1] if len(en[0]) > 1 else ("const", 0))
            ss = sort_source(en[0][0])
            if ss:
                mode, attr_dict = ss
                old = ("sub", ("sub", elem, ("const", 1)), ("const", 0)) if mode == "items" else ("sub", elem, ("const", 1))
                ok = v == ("sub", elem, ("const", 0)) and k == old and start == ("const", 0)
                if not ok:
                    why = "mapping = {%s: %s for ... in enumerate(<sorted>, %s)}" % (show(k), show(v), show(start))
            elif ss is False:
                ok, why = False, "the sorted sequence is not get_node_attributes(graph, sort_attr)"
    else:
        dc = is_call(mp, "dict") if mp else None
        zc = is_call(dc[0][0], "zip") if dc and mp[2] == ("builtin", "dict") and len(dc[0]) == 1 and not dc[1] else None
        if zc and len(zc[0]) == 2:
            keys_t, vals_t = zc[0]
            ss = sort_source(keys_t)
            if ss:
                mode, attr_dict = ss
                rc = is_call(vals_t, "range")
                cc = is_call(vals_t, "count")
                positions = False
                if rc and vals_t[2] == ("builtin", "range"):
                    a = rc[0]
                    hi = a[0] if len(a) == 1 else (a[1] if len(a) == 2 and a[0] == ("const", 0) else None)
                    ln = is_call(hi, "len") if hi else None
                    positions = bool(ln and (ln[0][0] == keys_t or strip_wrappers(ln[0][0]) in (attr_dict, strip_wrappers(is_call(keys_t, "sorted")[0][0]))))
                elif cc and (not cc[0] or cc[0] == (("const", 0),)) and not cc[1]:
                    positions = True
                ok = mode == "keys" and positions
                if not ok:
                    why = "mapping = dict(zip(%s, %s))" % (show(keys_t), show(vals_t))
            elif ss is False:
                ok, why = False, "the sorted sequence is not get_node_attributes(graph, sort_attr)"
    if ok is None:
        obs.append(ob_undecided(oid, fi, call, construct=why, instance="positions",
                                reason="the relabelling map is built in a form the rule does not know (known: a dict comprehension over enumerate(sorted(...)), dict(zip(sorted(...), range(len(...)))))"))
    else:
        (obs.append(ob_ok(oid, fi, call, construct="mapping = {old: new for new, old in enumerate(sorted(<attribute dict>, key=...))}", instance="positions",
                          reason="new keys are 0..n-1 in sorted order")) if ok else
         obs.append(ob_fail(oid, fi, call, construct=why, instance="positions", reason="new node keys are not the positions of the nodes in the sorted attribute sequence")))
    # the key function: (value, key)
    okk = False
    key_unread = None
    local_defs = {st.name: st for st in ast.walk(fi.node) if isinstance(st, ast.FunctionDef) and st is not fi.node}
    for sub in ast.walk(fi.node):
        if isinstance(sub, ast.Call) and isinstance(sub.func, ast.Name) and sub.func.id == "sorted":
            at = cfg.owner.get(id(sub))
            for kw in sub.keywords:
                kv = kw.value
                if kw.arg == "key" and isinstance(kv, ast.Name) and kv.id in local_defs:
                    # a local function as key: read like a lambda when it is a single return, otherwise not decided here
                    fdef = local_defs[kv.id]
                    body_ = [x for x in fdef.body if not (isinstance(x, ast.Expr) and isinstance(x.value, ast.Constant))]
                    if len(body_) == 1 and isinstance(body_[0], ast.Return) and body_[0].value is not None and len(fdef.args.args) == 1:
                        kv = ast.Lambda(args=fdef.args, body=body_[0].value)
                    else:
                        key_unread = "key=%s is a local function with statements of its own" % kv.id
                        continue
                elif kw.arg == "key" and not isinstance(kv, ast.Lambda) and ast.unparse(kv) not in (
                        "operator.itemgetter(1, 0)", "itemgetter(1, 0)", "operator.itemgetter(1)", "itemgetter(1)") and not isinstance(kv, ast.Attribute):
                    key_unread = "key=%s" % ast.unparse(kv)[:40]
                    continue
                if kw.arg == "key" and isinstance(kv, ast.Lambda):
                    lam = kv
                    p = lam.args.args[0].arg if lam.args.args else None
                    b = lam.body

                    def is_value(x):
                        if mode == "keys":
                            return isinstance(x, ast.Subscript) and isinstance(x.slice, ast.Name) and x.slice.id == p and at is not None and \
                                fl.canon(x.value, at) == attr_dict
                        return ast.unparse(x) == "%s[1]" % p
                    is_key = lambda x: ast.unparse(x) == (p if mode == "keys" else "%s[0]" % p)
                    if isinstance(b, ast.Tuple) and len(b.elts) >= 1 and is_value(b.elts[0]):
                        okk = len(b.elts) == 1 or is_key(b.elts[1])
                    if is_value(b):
                        okk = True
                if kw.arg == "key" and mode != "keys" and ast.unparse(kw.value) in ("operator.itemgetter(1, 0)", "itemgetter(1, 0)", "operator.itemgetter(1)", "itemgetter(1)"):
                    okk = True
                if kw.arg == "key" and mode == "keys" and isinstance(kw.value, ast.Attribute) and kw.value.attr in ("get", "__getitem__") and at is not None and \
                        fl.canon(kw.value.value, at) == attr_dict:
                    okk = True
                if kw.arg == "reverse" and not (isinstance(kw.value, ast.Constant) and kw.value.value is False):
                    okk = False
    if okk:
        obs.append(ob_ok(oid, fi, call, construct="key=lambda item: (value, old key)", instance="key", reason="sorted by membership first, old key as tie-break"))
    elif key_unread:
        # what a function with statements computes as sort key is decided by executing it on the value shapes that occur
        verdict = _sort_key_by_execution(fi, local_defs, key_unread)
        if verdict is True:
            obs.append(ob_ok(oid, fi, call, construct=key_unread, instance="key", reason="executed on representative entries: orders by the attribute value, then by the old key"))
        elif verdict is None:
            obs.append(ob_undecided(oid, fi, call, construct=key_unread, instance="key", reason="the sort key is computed by code the rule cannot read"))
        else:
            obs.append(ob_fail(oid, fi, call, construct=key_unread, instance="key", reason=verdict))
    else:
        obs.append(ob_fail(oid, fi, call, construct="sort key", instance="key", reason="the sort key does not start with the attribute value (membership)"))
    (obs.append(ob_ok(oid, fi, call, construct="relabel_nodes(graph, mapping)", instance="graph", reason="the argument graph is relabelled")) if g == graph else
     obs.append(ob_fail(oid, fi, call, construct="relabel_nodes(%s, ...)" % show(g), instance="graph", reason="not the argument graph is relabelled")))
    # every exit returns the relabelled graph
    for n in cfg.nodes:
        if n.kind == "stmt" and isinstance(n.ast, ast.Return):
            rt = fl.canon(n.ast.value, n.id) if n.ast.value is not None else None
            (obs.append(ob_ok(oid, fi, n.ast, construct="return <relabelled graph>", instance="return", reason="keys are 0..n-1 whatever the input numbering was")) if rt == ct else
             obs.append(ob_fail(oid, fi, n.ast, construct="return %s" % (show(rt) if rt else "None"), instance="return",
                                reason="a path returns a graph that was not relabelled: keys are not guaranteed to be 0..n-1 (holes after a squash)")))
    # call sites sort by fragid
    for caller_fq in ("resolve:MoleculeResolver.resolve", "sample:MoleculeSampler.sample"):
        caller = repo.function(caller_fq)
        cs = caller.flow.calls_to("graph_utils:sort_nodes_by_attr")
        need(cs, "anchor vanished: %s no longer calls sort_nodes_by_attr" % caller_fq, caller)
        for c2, n2, _ in cs:
            t2 = caller.flow.canon(c2, n2)
            sa = dict(t2[4]).get("sort_attr", t2[3][1] if len(t2[3]) > 1 else ("const", fi.defaults().get("sort_attr").value if isinstance(fi.defaults().get("sort_attr"), ast.Constant) else None))
            (obs.append(ob_ok(oid, caller, c2, construct="sort_nodes_by_attr(..., sort_attr='fragid')", instance="call:" + caller.qualname, reason="sorted by coarse-node membership")) if sa == ("const", "fragid") else
             obs.append(ob_fail(oid, caller, c2, construct="sort_nodes_by_attr(..., sort_attr=%s)" % show(sa), instance="call:" + caller.qualname,
                                reason="the result is not ordered by coarse-node membership")))
    return obs


def _sort_key_by_execution(fi, local_defs, what):
    """The local key function, run by the abstract evaluator on (node, membership) entries whose numeric and textual orders
    differ: True if it orders like (value, node), a reason if it does not, None if it cannot be executed."""
    from ..absint import Evaluator, Unsupported, Raised
    name = what.split("=", 1)[1].split(" ")[0]
    fdef = local_defs.get(name)
    if fdef is None or len(fdef.args.args) != 1:
        return None
    entries = [(0, [9]), (1, [10]), (2, [2]), (3, [10]), (4, [100]), (5, [9])]
    keys = []
    for node, value in entries:
        ev = Evaluator()
        try:
            kind, val = ev.run_function(fdef, {fdef.args.args[0].arg: (node, value)})
        except (Unsupported, Raised, Exception):
            return None
        if kind != "return":
            return None
        keys.append(val)
    try:
        got = [entries[i][0] for i in sorted(range(len(entries)), key=lambda i: keys[i])]
    except TypeError:
        return None
    want = [e[0] for e in sorted(entries, key=lambda e: (e[1], e[0]))]
    if got == want:
        return True
    return "the key function orders the membership values %s as nodes %s; by value and old key the order is %s" % ([e[1] for e in entries], got, want)


def prov_relative_attr(repo, tier="quick"):
    """C15: attributes that hold node keys are translated through the relabelling map."""
    fi = repo.function("graph_utils:sort_nodes_by_attr")
    fl, cfg = fi.flow, fi.cfg
    obs = []
    oid = "PROV.relative-attr"
    d = fi.defaults().get("relative_attr")
    need(d is not None, "anchor vanished: sort_nodes_by_attr has no relative_attr default", fi)
    from ..model import fold_const
    try:
        val = fold_const(d)
    except ValueError:
        raise AnalysisError("relative_attr default is not a literal", fi.where())
    names = {x[0] if isinstance(x, (tuple, list)) else x for x in val}
    (obs.append(ob_ok(oid, fi, construct="relative_attr default contains 'ez_isomer_atoms'", instance="default", reason="the node references of stereo annotations are remapped")) if "ez_isomer_atoms" in names else
     obs.append(ob_fail(oid, fi, construct="relative_attr default = %s" % (val,), instance="default", reason="'ez_isomer_atoms' holds node keys and is not remapped on renumbering")))
    # inside: new value = [mapping[v] for v in values] / mapping[values]; written back with set_node_attributes(new_graph, new_dict, attr)
    rel = fl.calls_to("networkx.relabel_nodes")
    need(rel, "anchor vanished", fi)
    R = fl.canon(rel[0][0], rel[0][1])
    mp = R[3][1] if len(R[3]) > 1 else None
    remaps = 0
    bad = []
    for n in cfg.nodes:
        if n.kind == "stmt" and isinstance(n.ast, ast.Assign):
            v = fl.canon(n.ast.value, n.id)
            if v[0] == "comp" and v[1] == "list" and v[3][0] == "sub" and v[3][1] == mp and v[3][2] == v[4][0][1]:
                remaps += 1
            elif v[0] == "sub" and v[1] == mp and mp is not None:
                remaps += 1
    sets = fl.calls_to("networkx.set_node_attributes")
    ok_set = False
    for call, nid, _ in sets:
        ct = fl.canon(call, nid)
        if ct[3] and ct[3][0] == R:
            e = elem_of(ct[3][2]) if len(ct[3]) > 2 else None
            if e or (len(ct[3]) > 2 and ct[3][2][0] == "sub"):
                ok_set = True
    # ... or stored on the relabelled graph entry by entry: new_graph.nodes[key][attr] = translated
    for n in cfg.nodes:
        if n.kind == "stmt" and isinstance(n.ast, ast.Assign) and isinstance(n.ast.targets[0], ast.Subscript):
            na = node_attr(fl.canon(n.ast.targets[0], n.id))
            ek = elem_of(na[1]) if na else None
            if na and na[0] == R and ek and ek[0] == "key":
                src = is_call(strip_wrappers(ek[1]), "networkx.get_node_attributes")
                if src and src[0] and src[0][0] == R and len(src[0]) > 1 and src[0][1] == na[2]:
                    ok_set = True
    # the write-back is not suppressed for a non-empty translation table
    neg_guard = False
    for call, nid, _ in sets:
        ct = fl.canon(call, nid)
        if ct[3] and ct[3][0] == R and len(ct[3]) > 1:
            tbl = ct[3][1]
            for test, pol, gid in guards_of(fi, nid):
                tt = fl.canon(test, gid)
                if tt == tbl and not pol:
                    neg_guard = True
                c_len = is_call(tt, "len")
                if c_len and c_len[0] and c_len[0][0] == tbl and not pol:
                    neg_guard = True
    if neg_guard:
        obs.append(ob_fail(oid, fi, construct="set_node_attributes(new_graph, translated, attr) only when the translation table is empty", instance="write-back",
                           reason="the translated node references are never written to the relabelled graph"))
    ok = remaps >= 2 and ok_set
    (obs.append(ob_ok(oid, fi, construct="values -> mapping[value] for every relative attribute, written back on the relabelled graph", instance="remap",
                      reason="node references survive the renumbering")) if ok else
     obs.append(ob_fail(oid, fi, construct="remapping of relative attributes", instance="remap",
                        reason="node-referencing attributes are not translated through the relabelling map and written back")))
    # the entries are read from the relabelled graph (they are written back to it under the same keys)
    graph_p = ("param", fi.positional_params[0])
    for n in cfg.nodes:
        if n.kind == "for":
            it = strip_wrappers(fl.canon(n.ast.iter, n.id))
            m = method_call(it, "items")
            c = is_call(m[0], "networkx.get_node_attributes") if m else None
            if c and c[0] and len(c[0]) >= 2 and elem_of(c[0][1]) is not None or (c and c[0] and len(c[0]) >= 2 and c[0][1][0] == "sub"):
                src = c[0][0]
                if src == R:
                    obs.append(ob_ok(oid, fi, n.ast, construct="entries read from the relabelled graph", instance="source-graph",
                                     reason="keys of the entries are the new node keys, the ones the values are written back under"))
                elif src == graph_p:
                    obs.append(ob_fail(oid, fi, n.ast, construct="entries read from the graph before relabelling", instance="source-graph",
                                       reason="the entries are keyed by the old node keys but written to the relabelled graph: the translated references land on "
                                              "unrelated atoms and the real carrier keeps stale ones"))
    # inside, every entry of the attribute is rewritten (no path through an iteration skips the store)
    for n in cfg.nodes:
        if n.kind == "for":
            it = strip_wrappers(fl.canon(n.ast.iter, n.id))
            m = method_call(it, "items")
            c = is_call(m[0], "networkx.get_node_attributes") if m else None
            if c and c[0] and c[0][0] == R:
                stores = {x.id for x in cfg.nodes if x.kind == "stmt" and isinstance(x.ast, ast.Assign) and isinstance(x.ast.targets[0], ast.Subscript)
                          and x.id in cfg.loops.get(n.id, set()) and
                          ((elem_of(fl.canon(x.ast.targets[0].slice, x.id)) and elem_of(fl.canon(x.ast.targets[0].slice, x.id))[0] == "key") or
                           (node_attr(fl.canon(x.ast.targets[0], x.id)) and elem_of(node_attr(fl.canon(x.ast.targets[0], x.id))[1]) and
                            elem_of(node_attr(fl.canon(x.ast.targets[0], x.id))[1])[0] == "key"))}
                starts = [d for d, lab in cfg.succ[n.id] if lab == "iter"]
                skip = False
                for s0 in starts:
                    if s0 in stores:
                        continue
                    reach = {s0} | cfg.reachable_from(s0, avoid=stores, edge_filter=lambda a, b, l: l != "exc")
                    if n.id in reach:
                        skip = True
                (obs.append(ob_fail(oid, fi, n.ast, construct="an entry of the attribute can be skipped", instance="every-entry",
                                    reason="node references of some nodes are not translated (an annotated atom can keep its key while the atoms it refers to move)")) if skip or not stores else
                 obs.append(ob_ok(oid, fi, n.ast, construct="new_dict[key] = remapped values for every entry", instance="every-entry", reason="all node references are translated")))
    # the loop ranges over all entries of relative_attr
    loops = [n for n in cfg.nodes if n.kind == "for" and strip_wrappers(fl.canon(n.ast.iter, n.id)) == ("param", "relative_attr")]
    (obs.append(ob_ok(oid, fi, loops[0].ast, construct="for attr, is_list in relative_attr", instance="range", reason="every listed attribute is handled")) if loops else
     obs.append(ob_fail(oid, fi, construct="loop over relative_attr", instance="range", reason="relative_attr is not iterated")))
    # merge_graphs offsets ez_isomer_atoms by the same offset as the node keys
    mg = repo.function("graph_utils:merge_graphs")
    mfl = mg.flow
    found = False
    for n in mg.cfg.nodes:
        if n.kind == "stmt" and isinstance(n.ast, ast.Assign) and isinstance(n.ast.targets[0], ast.Subscript) and \
                isinstance(n.ast.targets[0].slice, ast.Constant) and n.ast.targets[0].slice.value == "ez_isomer_atoms":
            found = True
            ok_off = False
            from .common import linear
            vt = mfl.canon(n.ast.value, n.id)
            # each component: old[i] + <first new node key>, where the new keys are enumerate(template.nodes, start=<first new node key>)
            start = None
            for c, cn in mfl.calls():
                if isinstance(c.func, ast.Name) and c.func.id == "enumerate":
                    ct = mfl.canon(c, cn)
                    st_ = dict(ct[4]).get("start", ct[3][1] if len(ct[3]) > 1 else None)
                    if st_ is not None:
                        start = st_
            if vt[0] == "tuple" and len(vt[1]) == 2 and start is not None:
                s_atoms, s_const = linear(start)
                good = 0
                olds = []
                for i, comp in enumerate(vt[1]):
                    atoms, const = linear(comp)
                    rest = dict(atoms)
                    for a, cnt in s_atoms:
                        rest[a] = rest.get(a, 0) - cnt
                    rest = {a: cnt for a, cnt in rest.items() if cnt}
                    if const == s_const and len(rest) == 1:
                        (a, cnt), = rest.items()
                        if cnt == 1 and a[0] == "sub" and a[2] == ("const", i):
                            good += 1
                            olds.append(a[1])
                ok_off = good == 2 and olds[0] == olds[1]
            (obs.append(ob_ok(oid, mg, n.ast, construct="ez_isomer_atoms shifted by the node-key offset", instance="merge-offset",
                              reason="stereo node references of a fragment copy point at the copy's own atoms")) if ok_off else
             obs.append(ob_fail(oid, mg, n.ast, construct=ast.unparse(n.ast), instance="merge-offset",
                                reason="node references in 'ez_isomer_atoms' are not shifted by the same offset as the copied nodes' keys")))
    if not found:
        obs.append(ob_fail(oid, mg, construct="no ez_isomer_atoms propagation in merge_graphs", instance="merge-offset",
                           reason="stereo node references of a template are copied without being shifted to the copy's node keys"))
    return obs


def prov_fragdict_by_key(repo, tier="quick"):
    """C12: on resolver paths the fragment dictionary is only accessed by key (in / subscript), never iterated."""
    obs = []
    oid = "PROV.fragdict-by-key"
    n = 0
    for fq in ("resolve:MoleculeResolver.resolve_disconnected_molecule", "resolve:MoleculeResolver.resolve"):
        fi = repo.function(fq)
        fl = fi.flow
        roots = [("param", "fragment_dict")] if "fragment_dict" in fi.params else []
        roots.append(("sub", ("attr", SELF, "fragment_dicts"), ("attr", SELF, "resolution_counter")))
        for node in fi.cfg.nodes:
            its = []
            if node.kind == "for":
                its.append(node.ast.iter)
            for sub in ast.walk(node.ast) if node.ast is not None and node.kind != "for" else ():
                if isinstance(sub, (ast.ListComp, ast.SetComp, ast.DictComp, ast.GeneratorExp)):
                    its += [g.iter for g in sub.generators]
            for itx in its:
                if id(itx) not in fi.cfg.owner:
                    continue
                t = strip_wrappers(fl.canon(itx, fi.cfg.owner[id(itx)]))
                m = method_call(t)
                base = m[0] if m and m[1] in ("items", "keys", "values") else t
                if base in roots:
                    obs.append(ob_fail(oid, fi, itx, construct="iteration over %s" % show(t), instance=fi.qualname,
                                       reason="the result can depend on the order of the definitions in the fragment block"))
        for call, nid in fl.calls():
            ct = fl.canon(call, nid)
            c = is_call(ct, "list", "tuple", "sorted", "next", "iter", "enumerate")
            if c and c[0]:
                a = strip_wrappers(c[0][0])
                m = method_call(a)
                base = m[0] if m and m[1] in ("items", "keys", "values") else a
                if base in roots:
                    obs.append(ob_fail(oid, fi, call, construct=show(ct), instance=fi.qualname,
                                       reason="the fragment dictionary is enumerated: the result can depend on definition order"))
        n += 1
        if not any((not o.ok) and o.instance == fi.qualname for o in obs):
            obs.append(ob_ok(oid, fi, construct="fragment dictionary accessed by key only", instance=fi.qualname,
                             reason="definition order in a fragment block cannot matter"))
    return obs


def prov_copy_complete(repo, tier="quick"):
    """C02/C14/C15: merge_graphs copies every node of the template with its whole attribute dict and every edge
    with all its attributes."""
    fi = repo.function("graph_utils:merge_graphs")
    fl, cfg = fi.flow, fi.cfg
    src, tmpl = ("param", fi.positional_params[0]), ("param", fi.positional_params[1])
    obs = []
    oid = "PROV.copy-complete"
    adds = [(c, n, fl.canon(c, n)) for c, n in fl.calls() if isinstance(c.func, ast.Attribute) and c.func.attr in ("add_node", "add_edge")]
    node_adds = [a for a in adds if a[0].func.attr == "add_node"]
    edge_adds = [a for a in adds if a[0].func.attr == "add_edge"]
    need(node_adds and edge_adds, "anchor vanished: merge_graphs no longer adds nodes and edges one by one", fi)
    for call, nid, ct in node_adds:
        m = method_call(ct)
        loops = enclosing_loops(fi, nid)
        ok_range = False
        node_elem = None
        if loops and loops[0].kind == "for" and len(loops) == 1:
            it = strip_wrappers(fl.canon(loops[0].ast.iter, loops[0].id))
            c = is_call(it, "enumerate")
            inner = strip_wrappers(c[0][0]) if c else it
            mm = method_call(inner, "nodes")
            mi = method_call(inner, "items")
            if inner in (("attr", tmpl, "nodes"), tmpl) or (mm and mm[0] == tmpl and not mm[2] and mm[3] in ({}, {"data": ("const", True)}, {"data": ("const", False)})) or \
                    (mm and mm[0] == tmpl and mm[2] in ((("const", True),), (("const", False),)) and not mm[3]) or \
                    (mi and not mi[2] and mi[0] == ("attr", tmpl, "nodes")):
                ok_range = True
        gs = [g for g in guards_of(fi, nid) if g[2] != (loops[0].id if loops else None)]
        ok_range = ok_range and not gs and m[0] == src
        (obs.append(ob_ok(oid, fi, call, construct="for node in template.nodes: molecule.add_node(...) unconditionally", instance="nodes:range",
                          reason="every template node is copied")) if ok_range else
         obs.append(ob_fail(oid, fi, call, construct="node copy loop", instance="nodes:range",
                            reason="not every node of the template is copied into the growing molecule" + (" (guarded by %s)" % ast.unparse(gs[0][0]) if gs else ""))))
        splat = dict(ct[4]).get("**")
        ok_attr = False
        if splat is not None:
            c = is_call(splat, "copy.deepcopy")
            inner = c[0][0] if c and c[0] else splat
            cd = is_call(inner, "dict")
            if cd and cd[0]:
                inner = cd[0][0]
            if inner[0] == "comp" and inner[1] == "dict":
                # {k: f(v) for k, v in template.nodes[n].items()} without filter
                g0 = inner[4][0]
                e = elem_of(g0[1])
                if e and e[0] == "item" and not g0[2]:
                    inner = e[1]
            if inner[0] == "sub" and inner[1] == ("attr", tmpl, "nodes"):
                e = elem_of(inner[2])
                ok_attr = bool(e)
        (obs.append(ob_ok(oid, fi, call, construct="**copy of template.nodes[node]", instance="nodes:attributes", reason="the whole attribute dict of the template atom reaches the copy")) if ok_attr else
         obs.append(ob_fail(oid, fi, call, construct="node attributes %s" % (show(splat) if splat else "<none>"), instance="nodes:attributes",
                            reason="the copied atom does not receive the template atom's complete attribute dict")))
        # deletions / filtering of keys of the attribute dict before add_node
        for n in cfg.nodes:
            if n.kind == "stmt" and isinstance(n.ast, ast.Delete):
                obs.append(ob_fail(oid, fi, n.ast, construct=ast.unparse(n.ast), instance="nodes:attributes-deleted",
                                   reason="an attribute is removed while copying a template atom"))
            if n.kind == "stmt" and isinstance(n.ast, ast.Expr) and isinstance(n.ast.value, ast.Call) and isinstance(n.ast.value.func, ast.Attribute) and \
                    n.ast.value.func.attr in ("pop", "popitem", "clear"):
                obs.append(ob_fail(oid, fi, n.ast, construct=ast.unparse(n.ast), instance="nodes:attributes-deleted",
                                   reason="an attribute is removed while copying a template atom"))
    for call, nid, ct in edge_adds:
        m = method_call(ct)
        loops = enclosing_loops(fi, nid)
        ok_range = False
        e_elem = None
        if loops and loops[0].kind == "for" and len(loops) == 1:
            it = strip_wrappers(fl.canon(loops[0].ast.iter, loops[0].id))
            mm = method_call(it, "edges")
            mi = method_call(it, "items")
            if it == ("attr", tmpl, "edges") or (mm and mm[0] == tmpl):
                ok_range = True
                e_elem = ("iter", (loops[0].ast.lineno, loops[0].ast.col_offset), fl.canon(loops[0].ast.iter, loops[0].id))
            elif mi and not mi[2] and mi[0] == ("attr", tmpl, "edges"):
                # for (a, b), attrs in template.edges.items()
                ok_range = True
                e_elem = fl.subscript(("iter", (loops[0].ast.lineno, loops[0].ast.col_offset), fl.canon(loops[0].ast.iter, loops[0].id)), ("const", 0))
        gs = [g for g in guards_of(fi, nid) if g[2] != (loops[0].id if loops else None)]
        # tolerated guard: correspondence[a] != correspondence[b] (never false for simple graphs)
        gs_bad = []
        for test, pol, gid in gs:
            t = fl.canon(test, gid)
            if t[0] == "cmp" and ((pol and t[1] == ("!=",)) or ((not pol) and t[1] == ("==",))) and t[2][0][0] == "sub" and t[2][1][0] == "sub" and \
                    t[2][0][1] == t[2][1][1]:
                continue
            gs_bad.append(test)
        ok_range = ok_range and not gs_bad and m[0] == src
        (obs.append(ob_ok(oid, fi, call, construct="for a, b in template.edges: molecule.add_edge(corr[a], corr[b], ...)", instance="edges:range",
                          reason="every template bond is copied")) if ok_range else
         obs.append(ob_fail(oid, fi, call, construct="edge copy loop", instance="edges:range",
                            reason="not every bond of the template is copied" + (" (guarded by %s)" % ast.unparse(gs_bad[0]) if gs_bad else ""))))
        # endpoints through the correspondence map
        ok_ends = False
        if e_elem is not None and len(m[2]) >= 2:
            a, b = m[2][0], m[2][1]
            if a[0] == "sub" and b[0] == "sub" and a[1] == b[1] and {a[2], b[2]} == {fl.subscript(e_elem, ("const", 0)), fl.subscript(e_elem, ("const", 1))}:
                ok_ends = True
        (obs.append(ob_ok(oid, fi, call, construct="endpoints corr[a], corr[b]", instance="edges:endpoints", reason="bonds join the copies of the atoms they joined in the template")) if ok_ends else
         obs.append(ob_fail(oid, fi, call, construct="add_edge(%s)" % ", ".join(show(x) for x in m[2][:2]), instance="edges:endpoints",
                            reason="copied bonds do not join the copies of their template end atoms")))
        splat = dict(ct[4]).get("**")
        ok_attr = False
        if splat is not None and e_elem is not None:
            c = is_call(splat, "copy.deepcopy", "dict")
            inner = c[0][0] if c and c[0] else splat
            ea = None
            if inner[0] == "sub" and inner[1] == ("attr", tmpl, "edges"):
                k = inner[2]
                if k == e_elem or (k[0] == "tuple" and set(k[1]) == {fl.subscript(e_elem, ("const", 0)), fl.subscript(e_elem, ("const", 1))}):
                    ok_attr = True
            if inner[0] == "sub" and e_elem[2] is not None and inner == fl.subscript(e_elem, ("const", 2)):
                ok_attr = True
        (obs.append(ob_ok(oid, fi, call, construct="**template.edges[(a, b)]", instance="edges:attributes", reason="bond order and other edge attributes reach the copy")) if ok_attr else
         obs.append(ob_fail(oid, fi, call, construct="edge attributes %s" % (show(splat) if splat else "<none>"), instance="edges:attributes",
                            reason="the copied bond does not receive the template bond's attributes (order)")))
    return obs


def prov_node_attributes(repo, tier="quick"):
    """C04/C14: the attributes given to add_node are the ones parsed from the same iteration's node text."""
    fi = repo.function("read_cgsmiles:read_cgsmiles")
    fl, cfg = fi.flow, fi.cfg
    obs = []
    oid = "PROV.node-attributes"
    parses = fl.calls_to("dialects:_parse_dialect_string")
    need(len(parses) >= 1, "anchor vanished: read_cgsmiles no longer parses node annotations", fi)

    def is_token_text(a):
        if a and a[0] == "sub" and a[2] == ("slice", ("const", 2), ("const", -1), None):
            m_ = method_call(a[1], "group")
            if m_ and m_[2] == (("const", 0),):
                e_ = elem_of(m_[0])
                return bool(e_ and e_[0] == "elem" and is_call(strip_wrappers(e_[1]), "re.finditer") is not None)
        # the same text taken from the scanned string:  pattern[start + 2:stop - 1]  with  start, stop = match.span()
        if a and a[0] == "sub" and a[1] == ("param", fi.positional_params[0]) and a[2][0] == "slice" and a[2][3] is None:
            lo, hi = a[2][1], a[2][2]
            def span_part(x, i, off):
                if x and x[0] == "binop" and x[1] == ("+" if off > 0 else "-") and x[3] == ("const", abs(off)):
                    b = x[2]
                    if b[0] == "sub" and b[2] == ("const", i):
                        m_ = method_call(b[1], "span")
                        if m_ and not m_[2]:
                            e_ = elem_of(m_[0])
                            return m_[0] if (e_ and e_[0] == "elem" and is_call(strip_wrappers(e_[1]), "re.finditer") is not None) else None
                return None
            m_lo, m_hi = span_part(lo, 0, 2), span_part(hi, 1, -1)
            return m_lo is not None and m_lo == m_hi
        return False
    good = [p for p in parses if is_token_text(fl.canon(p[0], p[1])[3][0] if fl.canon(p[0], p[1])[3] else None)]
    for p in parses:
        if p not in good:
            ct = fl.canon(p[0], p[1])
            obs.append(ob_fail(oid, fi, p[0], construct="annotation parse of %s" % (show(ct[3][0]) if ct[3] else "<nothing>"), instance="text:other",
                               reason="node attributes are (re)built from something other than the node's own token text: annotations written on the node are lost"))
    need(len(good) == 1, "expected exactly one parse of the node's own token text in read_cgsmiles, found %d" % len(good), fi)
    pcall, pnode, ptarget = good[0]
    P = fl.canon(pcall, pnode)
    # the parser used is the coarse dialect's
    bound = ptarget.bound
    okd = "dialect_signature" in bound and isinstance(bound["dialect_signature"], ast.Name) and bound["dialect_signature"].id == "CGSMILES_DEFAULT_DIALECT"
    (obs.append(ob_ok(oid, fi, pcall, construct="parse_graph_base_node(text)", instance="dialect", reason="base-graph nodes are parsed with the coarse dialect")) if okd else
     obs.append(ob_fail(oid, fi, pcall, construct=ast.unparse(pcall), instance="dialect", reason="base-graph node annotations are not parsed with the coarse dialect")))
    # argument: match.group(0)[2:-1] of the loop's match
    a = P[3][0] if P[3] else None
    ok_arg = is_token_text(a)
    (obs.append(ob_ok(oid, fi, pcall, construct="text = match.group(0)[2:-1]", instance="text", reason="the text between '[#' and ']' of this node")) if ok_arg else
     obs.append(ob_fail(oid, fi, pcall, construct="parse argument %s" % show(a), instance="text", reason="the annotation text is not the inside of this node's own token")))
    adds = []
    for call, nid in fl.calls():
        if isinstance(call.func, ast.Attribute) and call.func.attr == "add_node":
            ct = fl.canon(call, nid)
            adds.append((call, nid, ct))
    need(adds, "anchor vanished: no add_node in read_cgsmiles", fi)
    for call, nid, ct in adds:
        splat = dict(ct[4]).get("**")
        ok = splat == P and cfg.dominates(pnode, nid)
        (obs.append(ob_ok(oid, fi, call, construct="add_node(current, **attributes of this node)", instance="add_node",
                          reason="every (multiplied) copy carries the annotations written on its node")) if ok else
         obs.append(ob_fail(oid, fi, call, construct="add_node(..., **%s)" % (show(splat) if splat else "<none>"), instance="add_node",
                            reason="the node does not receive the attributes parsed from its own text")))
    # recipe entries carry the same attributes
    for n in cfg.nodes:
        if n.kind == "stmt":
            for sub in ast.walk(n.ast):
                if isinstance(sub, ast.Call) and isinstance(sub.func, ast.Attribute) and sub.func.attr == "append" and isinstance(sub.func.value, ast.Subscript) and \
                        len(sub.args) == 1 and isinstance(sub.args[0], ast.Tuple) and len(sub.args[0].elts) == 3:
                    ct = fl.canon(sub, n.id)
                    entry = ct[3][0] if ct[3] else None
                    ok = entry is not None and entry[0] == "tuple" and len(entry[1]) == 3 and entry[1][1] == P
                    (obs.append(ob_ok(oid, fi, sub, construct="recipe entry (count, attributes, order)", instance="recipe", reason="multiplied branches repeat the node's own annotations")) if ok else
                     obs.append(ob_fail(oid, fi, sub, construct="recipe entry %s" % show(entry), instance="recipe", reason="the branch recipe does not store this node's attributes")))
    # the anchor entry written when a branch opens: the attributes parsed for the anchor node (previous iteration)
    for n in cfg.nodes:
        if n.kind == "stmt" and isinstance(n.ast, ast.Assign) and isinstance(n.ast.targets[0], ast.Subscript) and isinstance(n.ast.value, ast.List) and \
                len(n.ast.value.elts) == 1 and isinstance(n.ast.value.elts[0], ast.Tuple) and len(n.ast.value.elts[0].elts) == 3:
            attr_e = n.ast.value.elts[0].elts[1]
            t = fl.canon(attr_e, n.id)
            # the anchor is the node the branch hangs on, which is not always the node read in the previous iteration (a second
            # branch on the same anchor): its attributes are the ones stored on the graph under the anchor's key
            ok = False
            key_t = fl.canon(n.ast.targets[0].slice, n.id)
            src = t
            c_ = is_call(src, "dict")
            if c_ and len(c_[0]) == 1 and not c_[1]:
                src = c_[0][0]
            m_ = method_call(src, "copy")
            if m_ and not m_[2]:
                src = m_[0]
            if src[0] == "sub" and src[1][0] == "attr" and src[1][2] == "nodes":
                anchors = {key_t}
                # recipes[branch_anchor[-1]] with branch_anchor.append(prev_node) in front: prev_node is the same key
                for call_, nid_ in fl.calls():
                    mm = method_call(fl.canon(call_, nid_), "append")
                    if mm and len(mm[2]) == 1 and key_t == ("sub", mm[0], ("const", -1)) and cfg.dominates(nid_, n.id):
                        anchors.add(mm[2][0])
                ok = src[2] in anchors
            stale = False
            if not ok and isinstance(attr_e, ast.Name):
                ds = [d for d in fl.reaching(attr_e.id, n.id) if d.kind != "unbound"]
                stale = bool(ds) and all(d.kind == "assign" and not d.path and fl.canon(d.value, d.node) == P for d in ds)
            (obs.append(ob_ok(oid, fi, n.ast, construct="anchor recipe entry carries the attributes stored on the anchor node", instance="recipe-anchor",
                              reason="copies of the anchor made by a branch multiplier keep its name and annotations")) if ok else
             obs.append(ob_fail(oid, fi, n.ast, construct="anchor recipe entry attributes = %s" % show(t), instance="recipe-anchor",
                                reason=("the anchor's recipe entry takes the attributes of the node that was read last, which is the anchor only for the "
                                        "first branch on it: {[#A;q=1]([#B])([#C])|2} repeats a node named B with charge 0" if stale else
                                        "the anchor's recipe entry does not carry the attributes of the anchor node"))))
    # _expand_branch forwards recipe attributes
    eb = repo.function("read_cgsmiles:_expand_branch")
    efl = eb.flow
    for call, nid in efl.calls():
        if isinstance(call.func, ast.Attribute) and call.func.attr == "add_node":
            ct = efl.canon(call, nid)
            splat = dict(ct[4]).get("**")
            e = None
            if splat is not None and splat[0] == "sub" and splat[2] == ("const", 1):
                e = elem_of(splat[1])
                if e is None and splat[1][0] == "sub":
                    e = elem_of(splat[1])
            ok = False
            if splat is not None and splat[0] == "sub" and splat[2] == ("const", 1):
                inner = splat[1]
                ee = elem_of(inner)
                if ee and ee[0] in ("elem",) and strip_wrappers(ee[1]) == ("param", "recipe"):
                    ok = True
                if inner[0] == "sub" and inner[2] == ("const", 1):
                    ee = elem_of(inner[1])
                    if ee and ee[0] == "enumitem":
                        ok = True
            ee = elem_of(splat) if splat else None
            if splat is not None and not ok:
                # for bdx, (n, attributes, order) in enumerate(recipe): splat = each(enumerate(recipe))[1][1]
                if splat[0] == "sub" and splat[2] == ("const", 1) and splat[1][0] == "sub" and splat[1][2] == ("const", 1):
                    e3 = elem_of(splat[1][1])
                    if e3 and e3[0] == "enumitem":
                        ok = True
            (obs.append(ob_ok(oid, eb, call, construct="add_node(current, **recipe attributes)", instance="expand", reason="expanded copies carry the recorded attributes")) if ok else
             obs.append(ob_fail(oid, eb, call, construct="add_node(..., **%s)" % (show(splat) if splat else "<none>"), instance="expand",
                                reason="expanded branch nodes do not receive the recipe's attributes")))
    return obs


def ord_parse_pipeline(repo, tier="quick"):
    """C14: bind -> cast -> defaults -> drop None -> rename -> merge free keywords."""
    fi = repo.function("dialects:_parse_dialect_string")
    fl, cfg = fi.flow, fi.cfg
    obs = []
    oid = "ORD.parse-pipeline"
    binds = {nid for c, nid in fl.calls() if isinstance(c.func, ast.Attribute) and c.func.attr == "bind"}
    casts = {nid for _, nid, _ in fl.calls_to("dialects:check_and_cast_types")}
    defaults = {nid for c, nid in fl.calls() if isinstance(c.func, ast.Attribute) and c.func.attr == "apply_defaults"}
    need(binds, "anchor vanished: no Signature.bind in _parse_dialect_string", fi)
    for name, S in (("cast", casts), ("defaults", defaults)):
        if not S:
            obs.append(ob_fail(oid, fi, construct="%s step missing" % name, instance="present:" + name,
                               reason="annotation values are no longer %s" % ("cast to their declared types" if name == "cast" else "completed with the documented defaults")))
    if not casts or not defaults:
        return obs
    # rename: arguments[new] = arguments.pop(old) inside loop over arg_to_fullname.items()
    renames = set()
    for n in cfg.nodes:
        if n.kind == "stmt" and isinstance(n.ast, ast.Assign) and isinstance(n.ast.targets[0], ast.Subscript):
            v = fl.canon(n.ast.value, n.id)
            m = method_call(v, "pop")
            k = fl.canon(n.ast.targets[0].slice, n.id)
            if m and m[2]:
                eo, en = elem_of(m[2][0]), elem_of(k)
                if eo and en and eo[0] == "key" and en[0] == "value" and eo[1] == en[1] and strip_wrappers(eo[1]) == ("param", "arg_to_fullname"):
                    renames.add(n.id)
    from .order import precedes, on_every_path
    pairs = [("bind", binds, "cast", casts, "values are cast after they are bound to their reserved key"),
             ("cast", casts, "defaults", defaults, "defaults are filled in after the cast (they already have the right type)"),
             ("cast", casts, "rename", renames, "the cast is keyed by the short reserved name, so it must precede the renaming")]
    for an, A, bn, B, why in pairs:
        if not B:
            obs.append(ob_fail(oid, fi, construct="%s step missing" % bn, instance="%s<%s" % (an, bn), reason="the %s step is missing" % bn))
            continue
        ok, reason = precedes(fi, A, B)
        (obs.append(ob_ok(oid, fi, construct="%s before %s" % (an, bn), instance="%s<%s" % (an, bn), reason=why)) if ok else
         obs.append(ob_fail(oid, fi, construct="%s before %s" % (an, bn), instance="%s<%s" % (an, bn), reason=reason + "; " + why)))
    for name, S in (("cast", casts), ("defaults", defaults)):
        ok = on_every_path(fi, S)
        (obs.append(ob_ok(oid, fi, construct="%s on every path" % name, instance="every-path:" + name, reason="applies to every annotation")) if ok else
         obs.append(ob_fail(oid, fi, construct="%s on every path" % name, instance="every-path:" + name, reason="a path returns attributes without the %s step" % name)))
    # the cast receives the bound arguments and the same signature
    for call, nid, _ in fl.calls_to("dialects:check_and_cast_types"):
        ct = fl.canon(call, nid)
        ok = len(ct[3]) == 2 and method_call(ct[3][0], "bind") is not None and ct[3][1] == ("param", "dialect_signature")
        if not ok and len(ct[3]) == 1 and not ct[4] and method_call(ct[3][0], "bind") is not None and method_call(ct[3][0], "bind")[0] == ("param", "dialect_signature"):
            # the cast takes the signature from the bound arguments themselves (BoundArguments.signature is the binding signature)
            callee = repo.function("dialects:check_and_cast_types")
            p0 = callee.positional_params[0] if callee.positional_params else None
            reads_sig = any(isinstance(x, ast.Attribute) and x.attr == "signature" and isinstance(x.value, ast.Name) and x.value.id == p0 for x in ast.walk(callee.node))
            ok = reads_sig
        (obs.append(ob_ok(oid, fi, call, construct="check_and_cast_types(bound, dialect_signature)", instance="cast:args", reason="types come from the dialect that bound the values")) if ok else
         obs.append(ob_fail(oid, fi, call, construct=show(ct), instance="cast:args", reason="the cast does not check the bound arguments against the binding dialect's types")))
    # result: free keywords merged and reserved keys present
    rets = [n for n in cfg.nodes if n.kind == "stmt" and isinstance(n.ast, ast.Return)]
    need(rets, "no return in _parse_dialect_string", fi)
    updates = [fl.canon(c, nid) for c, nid in fl.calls() if isinstance(c.func, ast.Attribute) and c.func.attr == "update"]
    srcs = [show(u[3][0]) for u in updates if u[3]]
    # the dictionary that is returned may also start out as a copy of the free keywords: out = dict(arguments.pop('kwargs', {}))
    rv = rets[0].ast.value
    if isinstance(rv, ast.Name):
        for d in fl.defs:
            if d.var == rv.id and d.kind == "assign" and d.value is not None:
                try:
                    srcs.append(show(fl.canon(d.value, d.node)))
                except Exception:
                    pass
    kw_ok = any("'kwargs'" in s_ for s_ in srcs)
    res_ok = any(s_.rstrip("~").endswith("arguments") for s_ in srcs)
    if not res_ok:
        # ... or a filtered copy of the bound arguments: {k: v for k, v in bound.arguments.items() if v is not None}
        for u in updates:
            t_ = u[3][0] if u[3] else None
            if t_ is not None and t_[0] == "comp" and t_[1] == "dict" and len(t_[4]) == 1:
                elem_ = t_[4][0][1]
                e_ = elem_of(("sub", elem_, ("const", 0)))
                k_, v_ = t_[3][1]
                if e_ and e_[0] == "key" and e_[1][0] == "attr" and e_[1][2] == "arguments" and k_ == ("sub", elem_, ("const", 0)) and v_ == ("sub", elem_, ("const", 1)):
                    res_ok = True
    mentions_kwargs = any(isinstance(x, ast.Constant) and x.value == "kwargs" for x in ast.walk(fi.node))
    if kw_ok and res_ok:
        obs.append(ob_ok(oid, fi, rets[0].ast, construct="out = {**free keywords, **reserved keys}", instance="merge", reason="free keys are kept verbatim next to the reserved ones"))
    elif not mentions_kwargs:
        obs.append(ob_fail(oid, fi, rets[0].ast, construct="result assembled from %s" % srcs, instance="merge",
                           reason="the catch-all 'kwargs' entry of the bound arguments is never unpacked: free keywords do not reach the result as keys of their own"))
    else:
        obs.append(ob_undecided(oid, fi, rets[0].ast, construct="result assembled from %s" % [x[:60] for x in srcs], instance="merge",
                                reason="cannot see how free keywords and reserved keys are merged into the result"))
    # keys and values are taken verbatim from `entry.split(assign token)`
    verb = {"kw": None, "pos": None}
    for n in cfg.nodes:
        if n.kind == "stmt" and isinstance(n.ast, ast.Assign) and isinstance(n.ast.targets[0], ast.Subscript):
            k = fl.canon(n.ast.targets[0].slice, n.id)
            v = fl.canon(n.ast.value, n.id)
            if k[0] == "sub" and method_call(k[1], "split") and k[2] == ("const", 0):
                verb["kw"] = (n, v == ("sub", k[1], ("const", 1)))
            elif any(method_call(x, "split") for x in walk_term(k) if isinstance(x, tuple) and x and x[0] == "call"):
                verb["kw"] = (n, False)
        if n.kind == "stmt" and isinstance(n.ast, ast.Expr) and isinstance(n.ast.value, ast.Call):
            ct = fl.canon(n.ast.value, n.id)
            m = method_call(ct, "append")
            if m and len(m[2]) == 1 and any(method_call(x, "split") for x in walk_term(m[2][0]) if isinstance(x, tuple) and x and x[0] == "call"):
                a = m[2][0]
                verb["pos"] = (n, a[0] == "sub" and method_call(a[1], "split") is not None and a[2] == ("const", 0))
    for what, label in (("kw", "keyword entries: kwargs[key] = value exactly as split"), ("pos", "positional entries: appended exactly as written")):
        if verb[what] is None:
            obs.append(ob_undecided(oid, fi, construct=label, instance="verbatim:" + what, reason="cannot find where %s entries are collected" % what))
        elif verb[what][1]:
            obs.append(ob_ok(oid, fi, verb[what][0].ast, construct=label, instance="verbatim:" + what, reason="free keys and values reach the graph unchanged"))
        else:
            obs.append(ob_fail(oid, fi, verb[what][0].ast, construct=ast.unparse(verb[what][0].ast), instance="verbatim:" + what,
                               reason="a key or value is transformed while it is collected: free annotation keys are no longer kept verbatim"))
    # check_and_cast_types: type from the parameter's annotation, isinstance guard, store back under the same name
    cf = repo.function("dialects:check_and_cast_types")
    cfl = cf.flow
    stores = [n for n in cf.cfg.nodes if n.kind == "stmt" and isinstance(n.ast, ast.Assign) and isinstance(n.ast.targets[0], ast.Subscript)]
    ok = False
    for n in stores:
        k = cfl.canon(n.ast.targets[0].slice, n.id)
        base = cfl.canon(n.ast.targets[0].value, n.id)
        v = cfl.canon(n.ast.value, n.id)
        ek = elem_of(k)
        if ek and ek[0] == "key" and base == ("attr", ("param", cf.positional_params[0]), "arguments") and v[0] == "call" and len(v[3]) == 1:
            ev = elem_of(v[3][0])
            if ev and ev[0] == "value" and ev[1] == ek[1] and v[2][0] == "attr" and v[2][2] == "annotation":
                ok = True
    (obs.append(ob_ok(oid, cf, stores[0].ast if stores else None, construct="arguments[name] = annotation(value)", instance="cast:store", reason="the cast value replaces the text under the same key")) if ok else
     obs.append(ob_fail(oid, cf, stores[0].ast if stores else None, construct="cast store", instance="cast:store", reason="the cast result is not stored back under the key it was bound to")))
    return obs


def trip_multiplier(repo, tier="quick"):
    """C05: the node loop runs n times for `|n`; the recipe stores the same n; _expand_branch runs each entry's
    count; the branch loop runs multiplier - 1 times."""
    fi = repo.function("read_cgsmiles:read_cgsmiles")
    fl, cfg = fi.flow, fi.cfg
    obs = []
    oid = "TRIP.multiplier"
    adds = [(c, n) for c, n in fl.calls() if isinstance(c.func, ast.Attribute) and c.func.attr == "add_node"]
    need(adds, "anchor vanished: no add_node in read_cgsmiles", fi)
    call, nid = adds[0]
    loops = enclosing_loops(fi, nid)
    need(len(loops) == 2 and loops[0].kind == "for", "add_node is not directly inside the node multiplication loop", fi, call)
    it = fl.canon(loops[0].ast.iter, loops[0].id)
    c = is_call(it, "range")
    count = None
    if c and len(c[0]) == 1:
        count = c[0][0]
    elif c and len(c[0]) == 2 and c[0][0] == ("const", 0):
        count = c[0][1]
    elif c and len(c[0]) == 2:
        # range(a, a + n) runs n times
        from .common import linear
        (la, ca), (lb, cb) = linear(c[0][0]), linear(c[0][1])
        diff = dict(lb)
        for a_, k_ in la:
            diff[a_] = diff.get(a_, 0) - k_
        diff = {a_: k_ for a_, k_ in diff.items() if k_}
        if cb == ca and len(diff) == 1 and list(diff.values()) == [1]:
            want = list(diff)[0]
            for x in walk_term(c[0][1]):
                if isinstance(x, tuple) and x and x[0] == "var" and strip_sites(x) == want:
                    count = x
    ok = False
    why = "node loop iterates %s" % show(it)
    nname = None
    if count is not None and count[0] == "var":
        nname = count[1]
        good = True
        seen_int = seen_one = False
        for d in fl.reaching(nname, loops[0].id):
            if d.kind == "unbound":
                continue
            v = fl.canon(d.value, d.node) if d.kind == "assign" else None
            if v == ("const", 1):
                seen_one = True
            elif v is not None and is_call(v, "int") is not None and v[3] and v[3][0][0] == "sub" and v[3][0][2][0] == "slice":
                sl = v[3][0][2]
                # pattern[stop+1 : eon]
                lo = sl[1]
                if lo is not None and lo[0] == "binop" and lo[1] == "+" and lo[3] == ("const", 1):
                    seen_int = True
                else:
                    good = False
                    why = "multiplier text starts at %s" % show(lo)
            else:
                good = False
                why = "multiplier has another source: %s" % (show(v) if v else d.kind)
        ok = good and seen_int and seen_one
    (obs.append(ob_ok(oid, fi, loops[0].ast, construct="for _ in range(0, n_mon): add_node; n_mon = int(text after '|') or 1", instance="node-loop",
                      reason="a node followed by |n is added n times")) if ok else
     obs.append(ob_fail(oid, fi, loops[0].ast, construct=why, instance="node-loop", reason="the number of copies of a multiplied node is not the number written after '|'")))
    # recipe stores the same count
    for n in cfg.nodes:
        if n.kind == "stmt":
            for sub in ast.walk(n.ast):
                if isinstance(sub, ast.Call) and isinstance(sub.func, ast.Attribute) and sub.func.attr == "append" and isinstance(sub.func.value, ast.Subscript) and \
                        len(sub.args) == 1 and isinstance(sub.args[0], ast.Tuple) and len(sub.args[0].elts) == 3:
                    ct = fl.canon(sub, n.id)
                    entry = ct[3][0] if ct[3] else None
                    okr = entry is not None and entry[0] == "tuple" and entry[1] and entry[1][0] == count
                    (obs.append(ob_ok(oid, fi, sub, construct="recipe entry count == node loop count", instance="recipe-count", reason="a multiplied node inside a branch is repeated as often when the branch is expanded")) if okr else
                     obs.append(ob_fail(oid, fi, sub, construct="recipe entry %s" % show(entry), instance="recipe-count",
                                        reason="the branch recipe records another count than the one the node was added with")))
    # the anchor entry of a branch recipe is repeated once per branch copy
    for n in cfg.nodes:
        if n.kind == "stmt" and isinstance(n.ast, ast.Assign) and isinstance(n.ast.targets[0], ast.Subscript) and isinstance(n.ast.value, ast.List) and \
                len(n.ast.value.elts) == 1 and isinstance(n.ast.value.elts[0], ast.Tuple) and len(n.ast.value.elts[0].elts) == 3:
            cnt = fl.canon(n.ast.value.elts[0].elts[0], n.id)
            (obs.append(ob_ok(oid, fi, n.ast, construct="anchor recipe entry count = 1", instance="anchor-count",
                              reason="a branch multiplier repeats the branch together with one copy of its anchoring node")) if cnt == ("const", 1) else
             obs.append(ob_fail(oid, fi, n.ast, construct="anchor recipe entry count = %s" % show(cnt), instance="anchor-count",
                                reason="the anchoring node is repeated %s times per branch copy instead of once" % show(cnt))))
    # inside the node copy loop the order used for the chain edge is replaced before the next copy
    chain = None
    for c2, n2 in fl.calls():
        if isinstance(c2.func, ast.Attribute) and c2.func.attr == "add_edge" and [l.id for l in enclosing_loops(fi, n2)] == [l.id for l in loops]:
            kw = [k for k in c2.keywords if k.arg == "order"]
            if kw and isinstance(kw[0].value, ast.Name) and not (fl.canon(c2.args[0], n2)[0] == "sub"):
                chain = (c2, n2, kw[0].value.id)
    if chain is not None:
        c2, n2, ovar = chain
        redefs = {d.node for d in fl.defs if d.var == ovar and d.kind in ("assign", "aug") and
                  [l.id for l in enclosing_loops(fi, d.node)][:1] == [loops[0].id]}
        reach = cfg.reachable_from(n2, avoid=redefs, edge_filter=lambda a, b, l: l != "exc")
        ok = bool(redefs) and loops[0].id not in reach
        (obs.append(ob_ok(oid, fi, c2, construct="chain edge order is replaced inside the copy loop", instance="copy-order",
                          reason="only the first copy is joined with the order written in front of the node; the copies are joined to each other with the following order")) if ok else
         obs.append(ob_fail(oid, fi, c2, construct="chain edge order %s is not updated between copies" % ovar, instance="copy-order",
                            reason="every copy of a multiplied node is joined with the bond order written in front of the node (the written-out form joins the copies by single bonds)")))
    else:
        obs.append(ob_undecided(oid, fi, call, construct="chain edge in the node copy loop", instance="copy-order", reason="cannot find add_edge(prev, current, order=<name>) in the copy loop"))
    # branch loop: range(0, int(...) - 1)
    ebs = fl.calls_to("read_cgsmiles:_expand_branch")
    need(ebs, "anchor vanished: read_cgsmiles no longer calls _expand_branch", fi)
    ecall, enode, _ = ebs[0]
    eloops = [l for l in enclosing_loops(fi, enode) if l.kind == "for"]
    okb = False
    whyb = "branch expansion is not inside a `for idx in range(0, multiplier - 1)` loop"
    for lp in eloops:
        it = fl.canon(lp.ast.iter, lp.id)
        c = is_call(it, "range")
        if c and it[2] == ("builtin", "range"):
            stop = c[0][0] if len(c[0]) == 1 else c[0][1]
            start = ("const", 0) if len(c[0]) == 1 else c[0][0]
            if start == ("const", 0) and stop[0] == "binop" and stop[1] == "-" and stop[3] == ("const", 1) and is_call(stop[2], "int") is not None:
                okb = True
            elif start == ("const", 1) and is_call(stop, "int") is not None:
                okb = True
            else:
                whyb = "branch loop iterates %s" % show(it)
    (obs.append(ob_ok(oid, fi, ecall, construct="for idx in range(0, int(multiplier) - 1): expand", instance="branch-loop",
                      reason="the written branch is the first copy; n - 1 more are added")) if okb else
     obs.append(ob_fail(oid, fi, ecall, construct=whyb, instance="branch-loop", reason="a branch followed by |n does not end up n times in the graph")))
    # _expand_branch: for _ in range(0, n_mon) per recipe entry; one add_node and one add_edge per iteration
    eb = repo.function("read_cgsmiles:_expand_branch")
    efl = eb.flow
    eadds = [(c, n) for c, n in efl.calls() if isinstance(c.func, ast.Attribute) and c.func.attr == "add_node"]
    need(eadds, "anchor vanished: no add_node in _expand_branch", eb)
    c0, n0 = eadds[0]
    l2 = enclosing_loops(eb, n0)
    oke = False
    if len(l2) == 2 and l2[0].kind == "for" and l2[1].kind == "for":
        it = efl.canon(l2[0].ast.iter, l2[0].id)
        c = is_call(it, "range")
        cnt = c[0][0] if c and len(c[0]) == 1 else (c[0][1] if c and len(c[0]) == 2 and c[0][0] == ("const", 0) else None)
        outer_it = strip_wrappers(efl.canon(l2[1].ast.iter, l2[1].id))
        en = is_call(outer_it, "enumerate")
        base = strip_wrappers(en[0][0]) if en else outer_it
        if cnt is not None and base == ("param", "recipe") and cnt[0] == "sub" and cnt[2] == ("const", 0):
            oke = True
    (obs.append(ob_ok(oid, eb, c0, construct="for entry in recipe: for _ in range(0, entry count): add_node", instance="expand-loop", reason="each recipe entry is repeated its recorded number of times")) if oke else
     obs.append(ob_fail(oid, eb, c0, construct="_expand_branch loops", instance="expand-loop", reason="recipe entries are not repeated their recorded number of times")))
    return obs


# ---------------------------------------------------------------------------
# DET.resolver
# ---------------------------------------------------------------------------
NONDET_EXT = ("random.", "time.", "numpy.random", "os.urandom", "uuid.", "secrets.", "datetime.")
RESOLVER_ROOTS = ["resolve:MoleculeResolver.from_string", "resolve:MoleculeResolver.from_graph", "resolve:MoleculeResolver.from_fragment_dicts",
                  "resolve:MoleculeResolver.resolve", "resolve:MoleculeResolver.resolve_iter", "resolve:MoleculeResolver.resolve_all",
                  "resolve:MoleculeResolver.__init__"]

with open(os.path.join(VERIF, "spec", "infeasible.json")) as _fh:
    _INF = json.load(_fh)


def _set_typed(fl, t, depth=0):
    if not isinstance(t, tuple):
        return False
    if t[0] == "set":
        return True
    if t[0] == "comp" and t[1] == "set":
        return True
    if t[0] == "call" and t[2] in (("builtin", "set"), ("builtin", "frozenset")):
        return True
    if t[0] == "binop" and t[1] in ("&", "|", "-", "^"):
        return _set_typed(fl, t[2]) or _set_typed(fl, t[3])
    if t[0] == "var" and depth < 2:
        ds = [fl.defs[i] for i in t[2]]
        vals = [d for d in ds if d.kind == "assign"]
        return bool(vals) and all(_set_typed(fl, fl.canon(d.value, d.node), depth + 1) for d in vals)
    return False


def det_resolver(repo, tier="quick"):
    obs = []
    oid = "DET.resolver"
    reach = sorted(repo.reachable(RESOLVER_ROOTS))
    n_iters = 0
    for fq in reach:
        fi = repo.function(fq)
        fl = fi.flow
        bad_here = False
        for call, nid in fl.calls():
            t = repo.resolve_call(fi, call)
            if t.kind == "ext" and t.name.startswith(NONDET_EXT):
                obs.append(ob_fail(oid, fi, call, construct=t.name, instance=fi.qualname, reason="a source of non-determinism on a resolver path"))
                bad_here = True
            if t.kind == "builtin" and t.name in ("id", "hash"):
                obs.append(ob_fail(oid, fi, call, construct=t.name + "()", instance=fi.qualname, reason="object identity / hash values differ between runs"))
                bad_here = True
        # iteration over set-typed values in an order-sensitive position
        its = []
        for node in fi.cfg.nodes:
            if node.kind == "for":
                its.append((node.ast.iter, node.id, node.ast))
        for sub in ast.walk(fi.node):
            if isinstance(sub, (ast.ListComp, ast.DictComp, ast.GeneratorExp)) and id(sub) in fi.cfg.owner:
                for g in sub.generators:
                    its.append((g.iter, fi.cfg.owner[id(sub)], sub))
            if isinstance(sub, ast.Call) and id(sub) in fi.cfg.owner and isinstance(sub.func, ast.Name) and \
                    sub.func.id in ("list", "tuple", "zip", "enumerate", "dict", "next", "iter") and sub.args:
                for a in sub.args:
                    its.append((a, fi.cfg.owner[id(sub)], sub))
        for itx, nid, where in its:
            n_iters += 1
            try:
                t = fl.canon(itx, nid)
            except Exception:
                continue
            tt = strip_wrappers(t)
            if _set_typed(fl, tt):
                # inside a sorted(...) / set(...) / len / sum: order-insensitive
                parent_ok = False
                for sup in ast.walk(fi.node):
                    if isinstance(sup, ast.Call) and isinstance(sup.func, ast.Name) and sup.func.id in ("sorted", "set", "frozenset", "len", "sum", "min", "max", "any", "all"):
                        if sup is not where and sup is not itx and any(x is where or x is itx for x in ast.walk(sup)):
                            parent_ok = True
                frozen = [e for e in _INF["DET"] if e["function"] == fi.fq]
                if parent_ok:
                    continue
                if frozen and isinstance(where, ast.Call) and isinstance(where.func, ast.Name) and where.func.id == "zip":
                    obs.append(ob_ok(oid, fi, where, construct="zip(set, str of identical characters)", instance=fi.qualname + ":frozen",
                                     reason="frozen exception: " + frozen[0]["reason"]))
                    continue
                obs.append(ob_fail(oid, fi, where, construct="iteration over %s" % show(tt), instance=fi.qualname,
                                   reason="iterating a set in an order-sensitive position: the result depends on the interpreter hash seed"))
                bad_here = True
        if not bad_here:
            obs.append(ob_ok(oid, fi, construct="no random/time/id/hash, no order-sensitive set iteration", instance=fi.qualname,
                             reason="the function's result depends on its inputs alone"))
    if len(reach) < 15:
        raise AnalysisError("determinism scan reached only %d functions from the resolver entry points (floor 15)" % len(reach))
    return obs


def tt_relative_dispatch(repo, tier="quick"):
    """C15: the remapping of a node-referencing attribute in sort_nodes_by_attr, executed abstractly for the value shapes that
    occur (tuple / list of node keys, a single integer key, a single string key): sequences are translated element by
    element, scalars as a whole, whatever the declared depth flag says."""
    from ..absint import Evaluator, Unsupported, Raised, _Continue
    fi = repo.function("graph_utils:sort_nodes_by_attr")
    fl, cfg = fi.flow, fi.cfg
    oid = "TT.relative-dispatch"
    rel = fl.calls_to("networkx.relabel_nodes")
    need(rel, "anchor vanished: sort_nodes_by_attr does not call relabel_nodes", fi)
    call = rel[0][0]
    from .common import call_arg
    marg = call_arg(call, 1, "mapping")
    need(isinstance(marg, ast.Name), "anchor vanished: the relabelling map is not a local name", fi)
    mapname = marg.id
    R = fl.canon(call, rel[0][1])
    # the loop over the entries of the attribute on the relabelled graph
    loop = None
    for n in cfg.nodes:
        if n.kind == "for":
            it = strip_wrappers(fl.canon(n.ast.iter, n.id))
            m = method_call(it, "items")
            c = is_call(m[0], "networkx.get_node_attributes") if m else None
            if c and c[0] and c[0][0] in (R, ("param", fi.positional_params[0])):
                loop = n
    node_form = False
    if loop is None:
        # the same entries, walked as (node, attribute dict) pairs of the relabelled graph
        for n in cfg.nodes:
            if n.kind == "for":
                it = strip_wrappers(fl.canon(n.ast.iter, n.id))
                m = method_call(it, "items")
                base = m[0] if m and not m[2] else None
                if base is None and it[0] == "call" and it[2][0] == "attr" and it[2][2] == "nodes" and dict(it[4]).get("data", it[3][0] if it[3] else None) == ("const", True):
                    base = it[2]
                if base is not None and base[0] == "attr" and base[2] == "nodes" and base[1] in (R, ("param", fi.positional_params[0])):
                    loop = n
                    node_form = True
    need(loop is not None, "anchor vanished: no loop over the entries of a relative attribute", fi)
    tgt = loop.ast.target
    need(isinstance(tgt, ast.Tuple) and len(tgt.elts) == 2 and all(isinstance(x, ast.Name) for x in tgt.elts),
         "the entry loop does not unpack (key, values)", fi)
    kname, vname = tgt.elts[0].id, tgt.elts[1].id
    attr_names = set()
    if node_form:
        # names used as key into the attribute dict stand for the attribute's name
        for sub in ast.walk(loop.ast):
            if isinstance(sub, ast.Subscript) and isinstance(sub.value, ast.Name) and sub.value.id == vname and isinstance(sub.slice, ast.Name):
                attr_names.add(sub.slice.id)
            if isinstance(sub, ast.Compare) and len(sub.ops) == 1 and isinstance(sub.ops[0], (ast.In, ast.NotIn)) and isinstance(sub.left, ast.Name) and \
                    isinstance(sub.comparators[0], ast.Name) and sub.comparators[0].id == vname:
                attr_names.add(sub.left.id)
            if isinstance(sub, ast.Call) and isinstance(sub.func, ast.Attribute) and sub.func.attr == "get" and isinstance(sub.func.value, ast.Name) and \
                    sub.func.value.id == vname and sub.args and isinstance(sub.args[0], ast.Name):
                attr_names.add(sub.args[0].id)
        need(attr_names, "the node loop does not look the relative attribute up in the node's attribute dict", fi)
    store = None
    for sub in ast.walk(loop.ast):
        if isinstance(sub, ast.Assign) and isinstance(sub.targets[0], ast.Subscript) and isinstance(sub.targets[0].value, ast.Name) \
                and isinstance(sub.targets[0].slice, ast.Name) and sub.targets[0].slice.id == kname:
            store = sub.targets[0].value.id
    graph_store = None
    if store is None:
        # ... or on the relabelled graph directly: new_graph.nodes[key][attr] = translated
        for sub in ast.walk(loop.ast):
            if isinstance(sub, ast.Assign) and isinstance(sub.targets[0], ast.Subscript) and isinstance(sub.targets[0].value, ast.Subscript) and \
                    isinstance(sub.targets[0].value.slice, ast.Name) and sub.targets[0].value.slice.id == kname and \
                    isinstance(sub.targets[0].value.value, ast.Attribute) and sub.targets[0].value.value.attr == "nodes" and \
                    isinstance(sub.targets[0].value.value.value, ast.Name):
                graph_store = sub.targets[0]
                store = "<entry store>"
    need(store is not None, "the entry loop does not store the translated value under the entry's key", fi)
    # free local names of the loop body that are bound outside it (the declared depth flag): both truth values
    bound_outside = set()
    for sub in ast.walk(loop.ast):
        if isinstance(sub, ast.Name) and isinstance(sub.ctx, ast.Load) and sub.id in fl.locals and sub.id not in (mapname, store, kname, vname) and \
                sub.id not in attr_names and not (graph_store is not None and any(sub is x for x in ast.walk(graph_store))):
            bound_outside.add(sub.id)
    assigned_inside = {t.id for sub in ast.walk(loop.ast) for t in ast.walk(sub) if isinstance(t, ast.Name) and isinstance(t.ctx, ast.Store)}
    flags = sorted(bound_outside)
    mapping = {10: 0, 11: 1, 12: 2, "a": 3}
    scenarios = [("tuple of node keys", (10, 11), [0, 1]), ("list of node keys", [11, 10], [1, 0]),
                 ("single integer key", 11, 1), ("single string key", "a", 3)]
    bad = []
    n = 0
    import itertools
    for (label, value, want), combo in itertools.product(scenarios, itertools.product((True, False), repeat=len(flags))):
        env = {mapname: dict(mapping), store: {}, kname: 12, vname: value}
        if node_form:
            env[vname] = {"<relative attribute>": value, "element": "C"}
            env.update({a: "<relative attribute>" for a in attr_names})
        env.update(dict(zip(flags, combo)))
        from .truth import helper_inliner
        def store_hook(ev_, target, value, env_):
            if graph_store is not None and target is graph_store:
                env_[store][ev_.eval(target.value.slice, env_)] = value
                return True
            return False
        ev = Evaluator(call_hook=helper_inliner(fi), store_hook=store_hook if graph_store is not None else None)
        n += 1
        try:
            try:
                ev.block(loop.ast.body, env)
            except _Continue:
                pass
            got = env[store].get(12, "<nothing stored>")
        except Raised as r:
            got = "raises " + r.exc_name
        except Unsupported as err:
            raise AnalysisError("relative attribute remapping outside the evaluator's language: %s" % err, fi.where(loop.ast))
        g = list(got) if isinstance(got, (list, tuple)) else got
        if g != want:
            bad.append((label, dict(zip(flags, combo)), want, got))
    if bad:
        return [ob_fail(oid, fi, loop.ast, construct="%s, declared %s" % (b[0], b[1]), instance="dispatch",
                        reason="translated to %r, the node references require %r" % (b[3], b[2])) for b in bad[:4]]
    return [ob_ok(oid, fi, loop.ast, construct="remap of (tuple | list | int | str) values through the relabelling map", instance="dispatch",
                  reason="%d abstract executions of the entry loop body: sequences element-wise, scalars as a whole" % n)]
