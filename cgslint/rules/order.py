"""ORD - phase order / must-pass-through rules on call sites of one function."""
import ast

from .. import AnalysisError
from ..cfg import flag_filter
from ..flow import show
from ..report import ob_ok, ob_fail
from .common import is_call, method_call, need, guards_of, aug_like, call_arg, enclosing_loops, strip_wrappers


class Phases:
    """Call sites of named phases inside one function."""

    def __init__(self, fi, matchers):
        """matchers: dict label -> list of target names (fq of repo functions, dotted externals,
        or method names)."""
        self.fi = fi
        self.sites = {}
        for label, names in matchers.items():
            found = fi.flow.calls_to(*names)
            self.sites[label] = [(call, nid) for call, nid, _ in found]

    def nodes(self, label):
        return {nid for _, nid in self.sites[label]}

    def require(self, label, minimum=1):
        if len(self.sites[label]) < minimum:
            raise AnalysisError("anchor vanished: no call to %s in %s" % (label, self.fi.qualname), self.fi.where())


def precedes(fi, A, B, flt=None, dominance=True):
    """A ≺ B: every path from entry to a B node passes an A node (unless dominance=False: the
    earlier phase is a loop that may run zero times), and no A node is reachable from a B node.
    A, B: sets of cfg node ids.  Returns (ok, reason)."""
    cfg = fi.cfg
    for b in B:
        if b in A or not dominance:
            continue
        if not cfg.must_pass(cfg.entry, {b}, A, flt):
            return False, "a path reaches line %d without passing the earlier phase" % cfg.nodes[b].lineno
    for b in B:
        reach = cfg.reachable_from(b, edge_filter=flt)
        hit = reach & (A - B)
        if hit:
            return False, "the earlier phase (line %d) can run again after line %d" % (
                cfg.nodes[min(hit)].lineno, cfg.nodes[b].lineno)
    return True, ""


def on_every_path(fi, A, flt=None):
    cfg = fi.cfg
    return cfg.must_pass(cfg.entry, {cfg.exit}, A, flt)


def flag_of_call(fi, nid):
    """The branch flag guarding cfg node nid: innermost enclosing `if <name>` (or `if self.<attr>`)."""
    gs = guards_of(fi, nid)
    if not gs:
        return None
    test, pol, gid = gs[-1] if len(gs) == 1 else sorted(gs, key=lambda g: -fi.cfg.nodes[g[2]].lineno)[0]
    if not pol:
        return None
    if isinstance(test, (ast.Name, ast.Attribute)):
        return ast.unparse(test)
    return None


def chain(oid, fi, ph, labels, flt, why, instance_prefix="", loop_phases=()):
    obs = []
    for a, b in zip(labels, labels[1:]):
        ok, reason = precedes(fi, ph.nodes(a), ph.nodes(b), flt, dominance=a not in loop_phases)
        inst = "%s%s<%s" % (instance_prefix, a, b)
        construct = "%s before %s" % (a, b)
        node = ph.sites[b][0][0] if ph.sites[b] else None
        if ok:
            obs.append(ob_ok(oid, fi, node, construct=construct, instance=inst, reason=why.get((a, b), "")))
        else:
            obs.append(ob_fail(oid, fi, node, construct=construct, instance=inst,
                               reason=reason + "; required because " + why.get((a, b), "")))
    return obs


# ---------------------------------------------------------------------------
# MoleculeResolver.resolve
# ---------------------------------------------------------------------------
RESOLVE_PHASES = {
    "instantiate": ["resolve:MoleculeResolver.resolve_disconnected_molecule"],
    "connect": ["resolve:MoleculeResolver.edges_from_bonding_descrpt"],
    "squash": ["resolve:MoleculeResolver.squash_atoms"],
    "hydrogens": ["pysmiles_utils:rebuild_h_atoms"],
    "sort": ["graph_utils:sort_nodes_by_attr"],
    "ez": ["pysmiles_utils:annotate_ez_isomers_cgsmiles"],
    "annotate": ["graph_utils:annotate_fragments"],
    "names": ["graph_utils:set_atom_names_atomistic"],
}
WHY_RESOLVE = {
    ("instantiate", "connect"): "bonds are made between fine nodes that instantiation creates",
    ("connect", "squash"): "squash reads the 'bonding' edge attribute the connect phase writes",
    ("squash", "hydrogens"): "hydrogens are counted from final connectivity; before squashing shared atoms would get them twice",
    ("hydrogens", "sort"): "hydrogens created after renumbering would not sit in their fragment's block",
    ("squash", "sort"): "renumbering must see the final node set",
    ("sort", "annotate"): "the per-coarse-node graphs must carry the final node keys",
    ("sort", "ez"): "stereo annotations store node keys and must be produced after the last relabelling",
    ("annotate", "names"): "atom names are assigned per coarse-node graph",
}


def resolve_flag(repo):
    fi = repo.function("resolve:MoleculeResolver.resolve")
    ph = Phases(fi, RESOLVE_PHASES)
    ph.require("hydrogens")
    flags = {flag_of_call(fi, nid) for _, nid in ph.sites["hydrogens"]}
    if len(flags) != 1 or None in flags:
        raise AnalysisError("cannot identify the all-atom flag guarding rebuild_h_atoms in resolve()", fi.where())
    return fi, ph, flags.pop()


def ord_resolve_phases(repo, tier="quick"):
    """C01/C09/C10: connect < squash < hydrogens < sort on all-atom paths; every all-atom path
    passes the hydrogen rebuild; coarse paths keep instantiate < connect < squash < sort."""
    fi, ph, flag = resolve_flag(repo)
    for lab in ("instantiate", "connect", "squash", "sort"):
        ph.require(lab)
    obs = []
    aa = flag_filter(fi.cfg, {flag: True})
    cg = flag_filter(fi.cfg, {flag: False})
    obs += chain("ORD.resolve-phases", fi, ph, ["instantiate", "connect", "squash", "hydrogens", "sort"], aa, WHY_RESOLVE, "all-atom:")
    obs += chain("ORD.resolve-phases", fi, ph, ["instantiate", "connect", "squash", "sort"], cg, WHY_RESOLVE, "coarse:")
    for lab in ("instantiate", "connect", "squash", "hydrogens", "sort"):
        ok = on_every_path(fi, ph.nodes(lab), aa)
        (obs.append(ob_ok("ORD.resolve-phases", fi, construct="%s on every all-atom path" % lab, instance="all-atom:every-path:" + lab,
                          reason="every path with %s true passes it" % flag)) if ok else
         obs.append(ob_fail("ORD.resolve-phases", fi, construct="%s on every all-atom path" % lab, instance="all-atom:every-path:" + lab,
                            reason="a path with %s true reaches the return without %s" % (flag, lab))))
    for lab in ("instantiate", "connect", "squash", "sort"):
        ok = on_every_path(fi, ph.nodes(lab), cg)
        (obs.append(ob_ok("ORD.resolve-phases", fi, construct="%s on every coarse path" % lab, instance="coarse:every-path:" + lab,
                          reason="every path with %s false passes it" % flag)) if ok else
         obs.append(ob_fail("ORD.resolve-phases", fi, construct="%s on every coarse path" % lab, instance="coarse:every-path:" + lab,
                            reason="a path with %s false reaches the return without %s" % (flag, lab))))
    # the hydrogen rebuild acts on the fine graph, the sort result is assigned back to it
    for call, nid in ph.sites["hydrogens"]:
        a0 = call_arg(call, 0, "mol_graph")
        t = fi.flow.canon(a0, nid) if a0 is not None else None
        cur = fi.flow.canon(ast.parse("self.molecule", mode="eval").body, nid)
        if t is not None and t == cur:
            obs.append(ob_ok("ORD.resolve-phases", fi, call, construct="rebuild_h_atoms(self.molecule)", instance="hydrogens:target",
                             reason="hydrogens are rebuilt on the current fine graph"))
        else:
            obs.append(ob_fail("ORD.resolve-phases", fi, call, construct="rebuild_h_atoms(%s)" % (show(t) if t else ""),
                               instance="hydrogens:target", reason="hydrogen rebuild is not applied to the current fine graph self.molecule"))
    return obs


def ord_resolve_annotate(repo, tier="quick"):
    """C02: annotate_fragments is dominated by the sort and by every call that changes the fine
    node set, none of which follows it; atom naming follows it."""
    fi, ph, flag = resolve_flag(repo)
    ph.require("annotate")
    ph.require("sort")
    obs = []
    for mode, flt in (("all-atom", flag_filter(fi.cfg, {flag: True})), ("coarse", flag_filter(fi.cfg, {flag: False}))):
        labels = ["squash", "hydrogens", "sort"] if mode == "all-atom" else ["squash", "sort"]
        for lab in labels:
            ok, reason = precedes(fi, ph.nodes(lab), ph.nodes("annotate"), flt)
            inst = "%s:%s<annotate" % (mode, lab)
            why = "the per-coarse-node graphs must be derived from the final node set and keys"
            if ok:
                obs.append(ob_ok("ORD.resolve-annotate", fi, ph.sites["annotate"][0][0], construct="%s before annotate" % lab,
                                 instance=inst, reason=why))
            else:
                obs.append(ob_fail("ORD.resolve-annotate", fi, ph.sites["annotate"][0][0], construct="%s before annotate" % lab,
                                   instance=inst, reason=reason + "; " + why))
        ok = on_every_path(fi, ph.nodes("annotate"), flt)
        (obs.append(ob_ok("ORD.resolve-annotate", fi, construct="annotate on every path", instance=mode + ":every-path",
                          reason="every path passes annotate_fragments")) if ok else
         obs.append(ob_fail("ORD.resolve-annotate", fi, construct="annotate on every path", instance=mode + ":every-path",
                            reason="a path returns without annotate_fragments")))
    if ph.sites["names"]:
        ok, reason = precedes(fi, ph.nodes("annotate"), ph.nodes("names"))
        (obs.append(ob_ok("ORD.resolve-annotate", fi, ph.sites["names"][0][0], construct="annotate before names", instance="annotate<names",
                          reason=WHY_RESOLVE[("annotate", "names")])) if ok else
         obs.append(ob_fail("ORD.resolve-annotate", fi, ph.sites["names"][0][0], construct="annotate before names", instance="annotate<names",
                            reason=reason + "; " + WHY_RESOLVE[("annotate", "names")])))
    # atom naming: on every all-atom path, applied to (fine graph, coarse graph)
    aa_flt = flag_filter(fi.cfg, {flag: True})
    if not ph.sites["names"] or not on_every_path(fi, ph.nodes("names"), aa_flt):
        obs.append(ob_fail("ORD.resolve-annotate", fi, construct="set_atom_names_atomistic on every all-atom path", instance="names:every-path",
                           reason="an all-atom result is returned without element+index atom names"))
    else:
        obs.append(ob_ok("ORD.resolve-annotate", fi, ph.sites["names"][0][0], construct="set_atom_names_atomistic on every all-atom path", instance="names:every-path",
                         reason="all-atom results carry element+index atom names"))
    for call, nid in ph.sites["names"]:
        a_m, a_c = call_arg(call, 0, "molecule"), call_arg(call, 1, "meta_graph")
        tm = fi.flow.canon(a_m, nid) if a_m is not None else None
        tc = fi.flow.canon(a_c, nid) if a_c is not None else None
        curm = fi.flow.canon(ast.parse("self.molecule", mode="eval").body, nid)
        curc = fi.flow.canon(ast.parse("self.meta_graph", mode="eval").body, nid)
        ok = tm == curm and (tc is None or tc == curc)
        (obs.append(ob_ok("ORD.resolve-annotate", fi, call, construct="set_atom_names_atomistic(self.molecule, self.meta_graph)", instance="names:args",
                          reason="names are set on the fine graph, per coarse node of the coarse graph")) if ok else
         obs.append(ob_fail("ORD.resolve-annotate", fi, call, construct="set_atom_names_atomistic(%s, %s)" % (show(tm) if tm else "", show(tc) if tc else ""),
                            instance="names:args", reason="atom names are not set on (fine graph, coarse graph)")))
    # arguments: annotate_fragments(<coarse graph>, <fine graph>) with the fine graph being the sorted one
    for call, nid in ph.sites["annotate"]:
        fl = fi.flow
        a_c, a_f = call_arg(call, 0, "meta_graph"), call_arg(call, 1, "molecule")
        if a_c is not None and a_f is not None:
            fine = fl.canon(a_f, nid)
            cur = fl.canon(ast.parse("self.molecule", mode="eval").body, nid)
            coarse = fl.canon(a_c, nid)
            curc = fl.canon(ast.parse("self.meta_graph", mode="eval").body, nid)
            ok = fine == cur and coarse == curc and is_call(cur, "sort_nodes_by_attr") is not None
            if ok:
                obs.append(ob_ok("ORD.resolve-annotate", fi, call, construct="annotate_fragments(self.meta_graph, self.molecule)",
                                 instance="annotate:args", reason="the fine graph handed over is the sorted one"))
            else:
                obs.append(ob_fail("ORD.resolve-annotate", fi, call, construct="annotate_fragments(%s, %s)" % (show(coarse), show(fine)),
                                   instance="annotate:args", reason="annotate_fragments does not receive (coarse graph, sorted fine graph)"))
    return obs


def ord_resolve_stereo(repo, tier="quick"):
    """C15: the producer of node-referencing stereo attributes runs after the last relabelling and
    after hydrogens exist."""
    fi, ph, flag = resolve_flag(repo)
    ph.require("ez")
    ph.require("sort")
    aa = flag_filter(fi.cfg, {flag: True})
    obs = []
    for lab in ("sort", "hydrogens"):
        ok, reason = precedes(fi, ph.nodes(lab), ph.nodes("ez"), aa)
        why = WHY_RESOLVE[("sort", "ez")] if lab == "sort" else "cis/trans classes are resolved through hydrogen substituents too"
        (obs.append(ob_ok("ORD.resolve-stereo", fi, ph.sites["ez"][0][0], construct="%s before ez annotation" % lab, instance=lab + "<ez", reason=why)) if ok else
         obs.append(ob_fail("ORD.resolve-stereo", fi, ph.sites["ez"][0][0], construct="%s before ez annotation" % lab, instance=lab + "<ez",
                            reason=reason + "; " + why)))
    ok = on_every_path(fi, ph.nodes("ez"), aa)
    (obs.append(ob_ok("ORD.resolve-stereo", fi, construct="ez annotation on every all-atom path", instance="every-path",
                      reason="every all-atom path resolves the cis/trans class marks")) if ok else
     obs.append(ob_fail("ORD.resolve-stereo", fi, construct="ez annotation on every all-atom path", instance="every-path",
                        reason="an all-atom path returns without resolving the cis/trans class marks")))
    for call, nid in ph.sites["ez"]:
        a0 = call_arg(call, 0, "molecule")
        t = fi.flow.canon(a0, nid) if a0 is not None else None
        cur = fi.flow.canon(ast.parse("self.molecule", mode="eval").body, nid)
        if t == cur and is_call(cur, "sort_nodes_by_attr") is not None:
            obs.append(ob_ok("ORD.resolve-stereo", fi, call, construct="annotate_ez_isomers_cgsmiles(self.molecule)", instance="ez:target",
                             reason="applied to the relabelled fine graph"))
        else:
            obs.append(ob_fail("ORD.resolve-stereo", fi, call, construct="annotate_ez_isomers_cgsmiles(%s)" % show(t), instance="ez:target",
                               reason="not applied to the relabelled fine graph"))
    return obs


# ---------------------------------------------------------------------------
# rebuild_h_atoms
# ---------------------------------------------------------------------------
H_PHASES = {
    "aromatic": ["pysmiles.smiles_helper.correct_aromatic_rings"],
    "reset": ["networkx.set_node_attributes"],
    "fill": ["pysmiles.smiles_helper.fill_valence"],
    "add": ["pysmiles.smiles_helper.add_explicit_hydrogens"],
}


def ord_hydrogens(repo, tier="quick"):
    """C09: reset of 'hcount' to 0 on all nodes < fill_valence(respect_hcount=False) < add_explicit_hydrogens;
    correct_aromatic_rings < fill_valence; the keep_bonding adjustment runs only under its flag."""
    fi = repo.function("pysmiles_utils:rebuild_h_atoms")
    fl = fi.flow
    ph = Phases(fi, H_PHASES)
    graph = ("param", fi.positional_params[0])
    obs = []
    # reset: nx.set_node_attributes(graph, 0, 'hcount')
    resets = []
    for call, nid in ph.sites["reset"]:
        t = fl.canon(call, nid)
        args, kw = t[3], dict(t[4])
        a = list(args) + [None] * 3
        g = a[0] if a[0] is not None else kw.get("G")
        v = a[1] if a[1] is not None else kw.get("values")
        n = a[2] if a[2] is not None else kw.get("name")
        if g == graph and v == ("const", 0) and n == ("const", "hcount"):
            resets.append((call, nid))
    ph.sites["reset"] = resets
    if not resets:
        obs.append(ob_fail("ORD.hydrogens", fi, construct="set_node_attributes(graph, 0, 'hcount')", instance="reset:present",
                           reason="fragment-level hydrogen counts are not reset to 0 on all nodes before the refill"))
    else:
        obs.append(ob_ok("ORD.hydrogens", fi, resets[0][0], construct="set_node_attributes(graph, 0, 'hcount')", instance="reset:present",
                         reason="hcount reset to the constant 0 on every node of the argument graph"))
    for lab in ("fill", "add", "aromatic"):
        ph.require(lab)
    # fill_valence(graph, respect_hcount=False)
    for call, nid in ph.sites["fill"]:
        t = fl.canon(call, nid)
        kw = dict(t[4])
        g = t[3][0] if t[3] else kw.get("mol")
        rh = kw.get("respect_hcount", t[3][1] if len(t[3]) > 1 else ("const", True))
        ok = g == graph and rh == ("const", False)
        (obs.append(ob_ok("ORD.hydrogens", fi, call, construct="fill_valence(graph, respect_hcount=False)", instance="fill:args",
                          reason="valence refilled from connectivity, ignoring stale counts")) if ok else
         obs.append(ob_fail("ORD.hydrogens", fi, call, construct="fill_valence(%s)" % ", ".join([show(x) for x in t[3]] + ["%s=%s" % (k, show(v)) for k, v in t[4]]),
                            instance="fill:args", reason="fill_valence must act on the argument graph with respect_hcount=False "
                            "(with the reset and respect_hcount=True no hydrogen would be added)")))
    for call, nid in ph.sites["add"]:
        t = fl.canon(call, nid)
        g = t[3][0] if t[3] else dict(t[4]).get("mol")
        (obs.append(ob_ok("ORD.hydrogens", fi, call, construct="add_explicit_hydrogens(graph)", instance="add:args", reason="acts on the argument graph"))
         if g == graph else
         obs.append(ob_fail("ORD.hydrogens", fi, call, construct="add_explicit_hydrogens(%s)" % show(g), instance="add:args",
                            reason="explicit hydrogens are not added to the argument graph")))
    why = {("reset", "fill"): "fragment-level counts were computed without the inter-fragment bonds and must not survive into the refill",
           ("fill", "add"): "explicit hydrogens are created from the refilled counts",
           ("aromatic", "fill"): "the aromatic correction changes the bond orders the refill counts"}
    why[("aromatic", "reset")] = ("pysmiles' aromatic correction reads hcount to decide which aromatic atoms still take part in the Kekule matching "
                                  "(pyrrole-type [nH] must be seen as saturated): the counts have to be reset after it, not before")
    if resets:
        obs += chain("ORD.hydrogens", fi, ph, ["reset", "fill", "add"], None, why)
        obs += chain("ORD.hydrogens", fi, ph, ["aromatic", "reset"], None, why)
    obs += chain("ORD.hydrogens", fi, ph, ["aromatic", "fill"], None, why)
    for lab in ("fill", "add") + (("reset",) if resets else ()):
        ok = on_every_path(fi, ph.nodes(lab))
        (obs.append(ob_ok("ORD.hydrogens", fi, construct="%s on every path" % lab, instance="every-path:" + lab, reason="every normal path passes it")) if ok else
         obs.append(ob_fail("ORD.hydrogens", fi, construct="%s on every path" % lab, instance="every-path:" + lab,
                            reason="a path returns without %s" % lab)))
    # writes to 'hcount' between fill and add only under the keep_bonding flag
    fill_nodes, add_nodes = ph.nodes("fill"), ph.nodes("add")
    between = set()
    for f in fill_nodes:
        between |= fi.cfg.reachable_from(f, avoid=add_nodes)
    n_adj = 0
    for n in fi.cfg.nodes:
        if n.id not in between or n.kind != "stmt":
            continue
        st = n.ast
        tgt = None
        if isinstance(st, ast.AugAssign):
            tgt = st.target
        elif isinstance(st, ast.Assign):
            tgt = st.targets[0]
        if isinstance(tgt, ast.Subscript) and isinstance(tgt.slice, ast.Constant) and tgt.slice.value == "hcount":
            n_adj += 1
            flags = [ast.unparse(t) for t, pol, _ in guards_of(fi, n.id) if pol]
            # a true conjunction implies each conjunct
            flags += [ast.unparse(v) for t, pol, _ in guards_of(fi, n.id) if pol and isinstance(t, ast.BoolOp) and isinstance(t.op, ast.And) for v in t.values]
            # a loop over `<table> if flag else {}` runs under the flag as well
            for lp in enclosing_loops(fi, n.id):
                if lp.kind != "for":
                    continue
                it = strip_wrappers(fi.flow.canon(lp.ast.iter, lp.id))
                m = method_call(it, "items") or method_call(it, "keys") or method_call(it, "values")
                if m and not m[2]:
                    it = m[0]
                if it[0] == "var":
                    it = fi.flow.diamond(it, lp.id) or it
                if it[0] == "ifexp" and it[1][0] == "param" and it[3] in (("dict", ()), ("list", ()), ("tuple", ()), ("set", ())):
                    flags.append(it[1][1])
            if "keep_bonding" in flags:
                obs.append(ob_ok("ORD.hydrogens", fi, st, construct="hcount adjustment", instance="adjust:guarded",
                                 reason="runs only under keep_bonding, which neither resolver nor sampler sets"))
            else:
                obs.append(ob_fail("ORD.hydrogens", fi, st, construct="hcount adjustment", instance="adjust:guarded",
                                   reason="hydrogen counts are changed between refill and creation outside the keep_bonding flag"))
    # keep_bonding is not set by resolver / sampler call sites
    for caller in repo.all_functions(["resolve", "sample", "pysmiles_utils"]):
        for call, nid, t in caller.flow.calls_to("pysmiles_utils:rebuild_h_atoms"):
            kb = None
            for kw in call.keywords:
                if kw.arg == "keep_bonding":
                    kb = kw.value
            if len(call.args) > 1:
                kb = call.args[1]
            if kb is None or (isinstance(kb, ast.Constant) and kb.value is False):
                obs.append(ob_ok("ORD.hydrogens", caller, call, construct="rebuild_h_atoms(...)", instance="keep_bonding:" + caller.qualname,
                                 reason="keep_bonding left at False"))
            else:
                obs.append(ob_fail("ORD.hydrogens", caller, call, construct="rebuild_h_atoms(..., keep_bonding=%s)" % ast.unparse(kb),
                                   instance="keep_bonding:" + caller.qualname,
                                   reason="unused descriptors would no longer be filled with hydrogen"))
    return obs


def prov_h_inherit(repo, tier="quick"):
    """C02/C09: the hydrogen attribute copy takes each value from a neighbour of the hydrogen, skips
    only single-hydrogen fragments and attributes the hydrogen already has (membership, not truth)."""
    fi = repo.function("pysmiles_utils:rebuild_h_atoms")
    fl, cfg = fi.flow, fi.cfg
    graph = ("param", fi.positional_params[0])
    from .common import node_attr, enclosing_loops, elem_of, strip_wrappers
    from .extra import _truth_tested
    obs = []
    stores = []      # (cfg node, ast, hnode term, key term, value term, kind)
    for n in cfg.nodes:
        if n.kind == "stmt" and isinstance(n.ast, ast.Assign) and isinstance(n.ast.targets[0], ast.Subscript):
            tt = fl.canon(n.ast.targets[0], n.id)
            na = node_attr(tt)
            if na and na[0] == graph:
                stores.append((n, n.ast, na[1], na[2], fl.canon(n.ast.value, n.id), "assign"))
        if n.kind == "stmt" and isinstance(n.ast, ast.Expr) and isinstance(n.ast.value, ast.Call):
            ct = fl.canon(n.ast.value, n.id)
            m = method_call(ct, "setdefault")
            if m and len(m[2]) == 2 and m[0][0] == "sub" and m[0][1] == ("attr", graph, "nodes"):
                stores.append((n, n.ast, m[0][2], m[2][0], m[2][1], "setdefault"))
    stores = [s_ for s_ in stores if elem_of(s_[3]) and elem_of(s_[3])[0] == "elem" and strip_wrappers(elem_of(s_[3])[1]) == ("param", "copy_attrs")]
    if not stores:
        raise AnalysisError("anchor vanished: no store of graph.nodes[h][attr] over copy_attrs in rebuild_h_atoms", fi.where())
    for n, st, hnode, key, val, kind in stores:
        va = node_attr(val)
        ok = False
        why = "value is not read from a neighbour of the hydrogen"
        if va and va[0] == graph and va[2] == key:
            anchor = va[1]
            c = is_call(anchor, "next")
            src = c[0][0] if c else (elem_of(anchor)[1] if elem_of(anchor) else None)
            if src is not None:
                src = strip_wrappers(src)
                m = method_call(src, "neighbors")
                if m and m[0] == graph and m[2] and m[2][0] == hnode:
                    ok = True
                elif src == ("sub", graph, hnode) or src == ("sub", ("attr", graph, "adj"), hnode):
                    ok = True
        (obs.append(ob_ok("PROV.h-inherit", fi, st, construct="graph.nodes[h][attr] = graph.nodes[neighbour(h)][attr]", instance="copy",
                          reason="each copied attribute comes from the atom the hydrogen is bonded to")) if ok else
         obs.append(ob_fail("PROV.h-inherit", fi, st, construct="graph.nodes[h][attr] = %s" % show(val), instance="copy", reason=why)))
        gs = guards_of(fi, n.id, named=True)
        texts = [(ast.unparse(t), pol) for t, pol, _ in gs]
        # truth table of the controlling guards over (element, single_h_frag): the copy happens exactly for hydrogens that are not
        # stand-alone hydrogen fragments
        from ..absint import Evaluator, Unsupported, MISSING
        table = {}
        undec = None
        for element in ("H", "C"):
            for single in (True, False, MISSING):
                def hook(ev, call, env, single=single, element=element):
                    if isinstance(call.func, ast.Attribute) and call.func.attr == "get" and call.args and \
                            isinstance(call.args[0], ast.Constant) and call.args[0].value == "element":
                        return True, element
                    if isinstance(call.func, ast.Attribute) and call.func.attr == "get" and call.args and \
                            isinstance(call.args[0], ast.Constant) and call.args[0].value == "single_h_frag":
                        if single is MISSING:
                            return True, (ev.eval(call.args[1], env) if len(call.args) > 1 else None)
                        return True, single
                    return False, None
                val = True
                for t, pol, gid in gs:
                    # conditions that do not speak about the element or the stand-alone flag (e.g. "the hydrogen has no such
                    # attribute yet") restrict which attribute is copied, not which atoms inherit
                    if not any(isinstance(x, ast.Constant) and x.value in ("H", "single_h_frag") for x in ast.walk(t)):
                        continue
                    env = {}
                    for sub in ast.walk(t):
                        if isinstance(sub, ast.Name) and sub.id in fl.locals:
                            ct = fl.canon(sub, gid)
                            if ct[0] == "sub" and ct[2] == ("const", 1) and ct[1][0] == "iter":
                                env[sub.id] = element
                            na2 = node_attr(ct)
                            if na2 and na2[2] == ("const", "element"):
                                env[sub.id] = element
                    try:
                        ev = Evaluator(call_hook=hook)
                        r = ev.truth(ev.eval(t, env))
                    except Unsupported as err:
                        undec = str(err)
                        r = True
                    val = val and (r if pol else not r)
                table[(element, single)] = val
        want = {(e_, s_): (e_ == "H" and s_ is not True) for e_ in ("H", "C") for s_ in (True, False, MISSING)}
        if undec:
            has_h = any(("'H'" in t or '"H"' in t) for t, pol in texts if pol)
            (obs.append(ob_ok("PROV.h-inherit", fi, st, construct="guard: element == 'H'", instance="guard", reason="copy applies to hydrogens (guard outside the evaluator: %s)" % undec))
             if has_h else
             obs.append(ob_fail("PROV.h-inherit", fi, st, construct="guards: %s" % texts, instance="guard", reason="copy loop is not restricted to hydrogen atoms")))
        elif table == want:
            obs.append(ob_ok("PROV.h-inherit", fi, st, construct="guard: element == 'H' and not single_h_frag", instance="guard",
                             reason="truth table over (element, single_h_frag present/absent): the copy applies exactly to hydrogens bonded to an atom"))
        else:
            diff = ["%s/%s: %s" % (k[0], k[1], v) for k, v in table.items() if v != want[k]]
            obs.append(ob_fail("PROV.h-inherit", fi, st, construct="guards: %s" % texts, instance="guard",
                               reason="the inheritance runs for the wrong atoms (element/single_h_frag: copies?) %s; heavy atoms would be overwritten from a neighbour or "
                                      "stand-alone hydrogens looked up without one" % diff))
        loops = enclosing_loops(fi, n.id)
        outer = loops[-1] if loops else None
        okl = False
        if outer is not None and outer.kind == "for":
            it = strip_wrappers(fl.canon(outer.ast.iter, outer.id))
            m = method_call(it, "nodes")
            if it == ("attr", graph, "nodes") or it == graph or (m and m[0] == graph):
                okl = True
        (obs.append(ob_ok("PROV.h-inherit", fi, st, construct="for node in graph.nodes", instance="range", reason="every node of the graph is visited"))
         if okl else
         obs.append(ob_fail("PROV.h-inherit", fi, st, construct="copy loop range", instance="range", reason="the copy loop does not range over all nodes of the graph")))
        # SENT: inside the attribute loop no attribute *value* is tested for truth (weight 0 is a value)
        inner = loops[0] if loops else None
        tested = []
        if inner is not None:
            body_nodes = cfg.loops.get(inner.id, set())
            for bn in body_nodes:
                node = cfg.nodes[bn]
                if node.kind in ("if", "while"):
                    tested += [(e, bn) for e in _truth_tested(node.ast.test)]
                elif node.kind == "stmt":
                    for sub in ast.walk(node.ast):
                        if isinstance(sub, ast.IfExp):
                            tested += [(e, bn) for e in _truth_tested(sub.test)]
                        if isinstance(sub, ast.BoolOp):
                            for v in sub.values[:-1]:
                                tested += [(e, bn) for e in _truth_tested(v)]
        bad = []
        for e, bn in tested:
            t = fl.canon(e, bn)
            na2 = node_attr(t)
            if na2 and na2[0] == graph and na2[2] == key:
                bad.append(e)
        (obs.append(ob_fail("SENT.attribute-value", fi, bad[0], construct="truth test on %s" % ast.unparse(bad[0]), instance="copy-guard",
                            reason="an attribute value is tested for truth: weight 0 (a legitimate annotation) is treated as 'not set', so it is overwritten or not inherited")) if bad else
         obs.append(ob_ok("SENT.attribute-value", fi, st, construct="attribute presence is tested by membership", instance="copy-guard",
                          reason="falsy values such as weight 0 are kept and inherited")))
        # an attribute the hydrogen already has is not replaced
        if kind == "assign":
            keep = any(isinstance(t, ast.Compare) and isinstance(t.ops[0], (ast.In, ast.NotIn)) for t, pol, _ in gs) or \
                any(cfg.nodes[d].kind == "if" and isinstance(cfg.nodes[d].ast.test, ast.Compare) and isinstance(cfg.nodes[d].ast.test.ops[0], (ast.In, ast.NotIn))
                    and cfg.dominates(d, n.id) for d in (cfg.loops.get(inner.id, set()) if inner is not None else ()))
            (obs.append(ob_ok("PROV.h-inherit", fi, st, construct="skip attributes the hydrogen already carries", instance="keep-explicit",
                              reason="annotations written on an explicit hydrogen win")) if keep else
             obs.append(ob_fail("PROV.h-inherit", fi, st, construct="unconditional overwrite", instance="keep-explicit",
                                reason="annotations written on an explicit hydrogen are overwritten by its heavy atom's")))
    return obs


# ---------------------------------------------------------------------------
# sampler finalisation and compute_mass
# ---------------------------------------------------------------------------

def ord_sample_finalise(repo, tier="quick"):
    """C16/C09: growth loop < rebuild_h_atoms (all-atom) < sort_nodes_by_attr < set_atom_names_atomistic."""
    fi = repo.function("sample:MoleculeSampler.sample")
    ph = Phases(fi, {"grow": ["sample:MoleculeSampler.add_fragment"], "hydrogens": ["pysmiles_utils:rebuild_h_atoms"],
                     "sort": ["graph_utils:sort_nodes_by_attr"], "names": ["graph_utils:set_atom_names_atomistic"]})
    ph.require("grow")
    missing = [lab for lab in ("hydrogens", "sort") if not ph.sites[lab]]
    if missing:
        why_m = {"hydrogens": "all-atom samples are returned without their hydrogens (valence completeness)",
                 "sort": "the sample is returned without canonical numbering: atoms of a fragment copy are not contiguous"}
        return [ob_fail("ORD.sample-finalise", fi, construct="sample() never calls %s" % {"hydrogens": "rebuild_h_atoms", "sort": "sort_nodes_by_attr"}[lab],
                        instance="missing:" + lab, reason=why_m[lab]) for lab in missing]
    # the resolution flag: the instance attribute that __init__ fills from its `all_atom` parameter
    ini = repo.function("sample:MoleculeSampler.__init__")
    flag = None
    for n in ini.cfg.nodes:
        if n.kind == "stmt" and isinstance(n.ast, ast.Assign) and isinstance(n.ast.targets[0], ast.Attribute) and \
                isinstance(n.ast.value, ast.Name) and n.ast.value.id == "all_atom" and "all_atom" in ini.params:
            flag = ast.unparse(n.ast.targets[0])
    if flag is None:
        flags = {flag_of_call(fi, nid) for _, nid in ph.sites["hydrogens"]}
        if len(flags) != 1 or None in flags:
            raise AnalysisError("cannot identify the all-atom flag guarding rebuild_h_atoms in sample()", fi.where())
        flag = flags.pop()
    aa = flag_filter(fi.cfg, {flag: True})
    cg = flag_filter(fi.cfg, {flag: False})
    why = {("grow", "hydrogens"): "hydrogens are counted from the final connectivity of the grown molecule",
           ("hydrogens", "sort"): "hydrogens created after renumbering would not sit in their fragment's block",
           ("grow", "sort"): "renumbering must see the final node set",
           ("sort", "names"): "atom names are assigned on the renumbered graph"}
    obs = chain("ORD.sample-finalise", fi, ph, ["grow", "hydrogens", "sort"] + (["names"] if ph.sites["names"] else []), aa, why, "all-atom:",
                loop_phases=("grow",))
    obs += chain("ORD.sample-finalise", fi, ph, ["grow", "sort"], cg, why, "coarse:", loop_phases=("grow",))
    # hydrogens are not added to coarse molecules
    from ..cfg import flag_filter as _ff
    reach_cg = {fi.cfg.entry} | fi.cfg.reachable_from(fi.cfg.entry, edge_filter=cg)
    hyd_cg = [nid for nid in ph.nodes("hydrogens") if nid in reach_cg]
    (obs.append(ob_fail("ORD.sample-finalise", fi, fi.cfg.nodes[hyd_cg[0]].ast, construct="rebuild_h_atoms reachable with %s false" % flag, instance="coarse:no-hydrogens",
                        reason="coarse-grained beads have no valence to fill; pysmiles fails or adds atoms to a coarse molecule")) if hyd_cg else
     obs.append(ob_ok("ORD.sample-finalise", fi, construct="rebuild_h_atoms only with %s true" % flag, instance="coarse:no-hydrogens",
                      reason="hydrogens are added in all-atom mode only")))
    checks = [("hydrogens", aa, "all-atom"), ("sort", aa, "all-atom"), ("sort", cg, "coarse")]
    for lab, flt, mode in checks:
        ok = on_every_path(fi, ph.nodes(lab), flt)
        (obs.append(ob_ok("ORD.sample-finalise", fi, construct="%s on every %s path" % (lab, mode), instance="%s:every-path:%s" % (mode, lab),
                          reason="every path passes it")) if ok else
         obs.append(ob_fail("ORD.sample-finalise", fi, construct="%s on every %s path" % (lab, mode), instance="%s:every-path:%s" % (mode, lab),
                            reason="a path returns the molecule without %s" % lab)))
    # the value returned is the sorted graph
    for n in fi.cfg.nodes:
        if n.kind == "stmt" and isinstance(n.ast, ast.Return) and n.ast.value is not None:
            t = fi.flow.canon(n.ast.value, n.id)

            def _sorted_value(term, depth=0):
                """the term is the result of sort_nodes_by_attr on every definition that reaches it (copies through locals followed)"""
                if is_call(term, "sort_nodes_by_attr") is not None:
                    return True
                if term[0] == "var" and len(term) == 3 and term[2] and depth < 4:
                    ds_ = [fi.flow.defs[i] for i in term[2]]
                    return all(d_.kind == "assign" and d_.value is not None and not d_.path and _sorted_value(fi.flow.canon(d_.value, d_.node), depth + 1) for d_ in ds_)
                return False
            ok = _sorted_value(t)
            (obs.append(ob_ok("ORD.sample-finalise", fi, n.ast, construct="return sort_nodes_by_attr(...)", instance="return",
                              reason="the renumbered graph is what the caller gets")) if ok else
             obs.append(ob_fail("ORD.sample-finalise", fi, n.ast, construct="return %s" % show(t), instance="return",
                                reason="the returned graph is not the renumbered one")))
    return obs


def ord_compute_mass(repo, tier="quick"):
    """C17: copy < rebuild_h_atoms(copy) < sum over all nodes of the copy; the argument is not mutated."""
    fi = repo.function("pysmiles_utils:compute_mass")
    fl = fi.flow
    from .common import strip_wrappers, elem_of
    param = ("param", fi.positional_params[0])
    obs = []
    hs = fi.flow.calls_to("pysmiles_utils:rebuild_h_atoms")
    if not hs:
        return [ob_fail("ORD.compute-mass", fi, construct="compute_mass without rebuild_h_atoms", instance="copy",
                        reason="implicit hydrogens are not added before summing: element-derived masses miss them")]
    work = None
    for call, nid, _ in hs:
        a0 = call_arg(call, 0, "mol_graph")
        t = fl.canon(a0, nid) if a0 is not None else None
        m = method_call(t, "copy") if t else None
        c = is_call(t, "deepcopy") if t else None
        if (m and m[0] == param) or (c and c[0] and c[0][0] == param):
            work = t
            obs.append(ob_ok("ORD.compute-mass", fi, call, construct="rebuild_h_atoms(copy of argument)", instance="copy",
                             reason="hydrogens are added to a copy; the fragment template is left alone"))
        else:
            obs.append(ob_fail("ORD.compute-mass", fi, call, construct="rebuild_h_atoms(%s)" % show(t), instance="copy",
                               reason="hydrogens are rebuilt on something that is not a copy of the argument (the template would be mutated)"))
    # the mass accumulates PTE[element]['AtomicMass'] over the nodes of the working copy, after the rebuild
    acc = None
    for n in fi.cfg.nodes:
        al = aug_like(n.ast) if n.kind == "stmt" and isinstance(n.ast, (ast.AugAssign, ast.Assign)) else None
        if al and al[1] is ast.Add:
            v = fl.canon(al[2], n.id)
            if v[0] == "sub" and v[2] == ("const", "AtomicMass") and v[1][0] == "sub" and v[1][1] == ("ext", "pysmiles.PTE"):
                acc = (n, v[1][2])
    if acc is None:
        obs.append(ob_fail("ORD.compute-mass", fi, construct="no accumulation of PTE[element]['AtomicMass']", instance="sum",
                           reason="the atomic masses are never added up: element-derived fragment masses are wrong, so the stop rule compares the wrong total"))
        return obs
    n, elem = acc
    from .common import node_attr, enclosing_loops
    na = node_attr(elem)
    ok = False
    if na and work is not None and na[0] == work and na[2] == ("const", "element"):
        e = elem_of(na[1])
        if e and e[0] == "elem" and strip_wrappers(e[1]) in (("attr", work, "nodes"), work):
            ok = True
    (obs.append(ob_ok("ORD.compute-mass", fi, n.ast, construct="mass += PTE[copy.nodes[n]['element']]['AtomicMass'] for n in copy.nodes", instance="sum",
                      reason="sum over every node of the hydrogen-completed copy")) if ok else
     obs.append(ob_fail("ORD.compute-mass", fi, n.ast, construct="mass += %s" % show(("sub", ("sub", ("ext", "pysmiles.PTE"), elem), ("const", "AtomicMass"))),
                        instance="sum", reason="the mass is not summed over all nodes of the hydrogen-completed copy")))
    hnodes = {nid for _, nid, _ in hs}
    loops = enclosing_loops(fi, n.id)
    if loops:
        okp, reason = precedes(fi, hnodes, {loops[-1].id})
        (obs.append(ob_ok("ORD.compute-mass", fi, n.ast, construct="rebuild before sum", instance="order", reason="implicit hydrogens are part of the mass")) if okp else
         obs.append(ob_fail("ORD.compute-mass", fi, n.ast, construct="rebuild before sum", instance="order", reason=reason + "; implicit hydrogens would be missing from the mass")))
    # the accumulator starts at zero and is what the function returns
    al = aug_like(n.ast)
    var = al[0] if al and isinstance(al[0], str) else (al[0].id if al and isinstance(al[0], ast.Name) else None)
    if var is not None:
        inits = [d for d in fl.reaching(var, loops[-1].id if loops else n.id) if d.node != n.id]
        zero = bool(inits) and all(d.kind == "assign" and d.value is not None and not d.path and
                                   isinstance(d.value, ast.Constant) and d.value.value == 0 and not isinstance(d.value.value, bool) for d in inits)
        (obs.append(ob_ok("ORD.compute-mass", fi, n.ast, construct="%s = 0 before the sum" % var, instance="init", reason="the sum starts at zero")) if zero else
         obs.append(ob_fail("ORD.compute-mass", fi, n.ast, construct="%s starts as %s" % (var, ", ".join(ast.unparse(d.value) if d.value is not None else d.kind for d in inits) or "<unbound>"),
                            instance="init", reason="the mass does not start at zero: every fragment mass is off by a constant, so the stop rule compares the wrong total")))
        rets = [x for x in fi.cfg.nodes if x.kind == "stmt" and isinstance(x.ast, ast.Return)]
        good = bool(rets) and all(isinstance(x.ast.value, ast.Name) and x.ast.value.id == var for x in rets)
        (obs.append(ob_ok("ORD.compute-mass", fi, rets[0].ast if rets else n.ast, construct="return %s" % var, instance="return", reason="the sum is returned unchanged")) if good else
         obs.append(ob_fail("ORD.compute-mass", fi, rets[0].ast if rets else n.ast, construct="; ".join(ast.unparse(x.ast) for x in rets) or "no return", instance="return",
                            reason="the function does not return the plain sum of atomic masses")))
    return obs
