"""EXC - exception discipline for the documented faults (C20, C11)."""
import ast

from .. import AnalysisError
from ..absint import Evaluator, Unsupported
from ..flow import show, walk_term
from ..report import ob_ok, ob_fail
from .common import (is_call, method_call, node_attr, edge_attr, elem_of, strip_wrappers, guards_of,
                     enclosing_loops, need, strip_sites, _arm_nodes, strip_not, if_arms)


def _raise_name(st):
    e = st.exc
    if e is None:
        return None
    if isinstance(e, ast.Call):
        e = e.func
    if isinstance(e, ast.Name):
        return e.id
    if isinstance(e, ast.Attribute):
        return e.attr
    return None


def arm_always_raises(fi, ifnode, label, exc_names):
    """Every path entering the `label` arm of ifnode ends in a raise of one of exc_names, never
    reaching the normal exit or leaving the arm.  Returns (ok, reason)."""
    cfg = fi.cfg
    starts = [dst for dst, lab in cfg.succ[ifnode.id] if lab == label]
    if not starts:
        return False, "branch has no successor"
    arm = _arm_nodes(cfg, ifnode, label)
    seen = set()
    work = list(starts)
    while work:
        n = work.pop()
        if n in seen:
            continue
        seen.add(n)
        if n not in arm:
            return False, "control leaves the branch at line %d without raising" % cfg.nodes[n].lineno
        node = cfg.nodes[n]
        if node.kind == "stmt" and isinstance(node.ast, ast.Raise):
            nm = _raise_name(node.ast)
            if nm not in exc_names:
                return False, "raises %s, documented is %s" % (nm, "/".join(sorted(exc_names)))
            continue
        for dst, lab in cfg.succ[n]:
            if lab == "exc":
                continue
            work.append(dst)
    return True, ""


def ring_table(fi):
    """(name, write sites) of the open-ring table of read_cgsmiles: the empty-dict local whose non-emptiness raises
    SyntaxError before the return (identified by rules/ring.py, also when the open/close code lives in a helper)."""
    from .ring import RingModel
    name = RingModel(fi.module.repo).table
    sites = {"del": [], "set": []}
    for n in fi.cfg.nodes:
        st = n.ast
        if n.kind == "stmt" and isinstance(st, ast.Delete):
            for t in st.targets:
                if isinstance(t, ast.Subscript) and isinstance(t.value, ast.Name) and t.value.id == name:
                    sites["del"].append(n)
        if n.kind == "stmt" and isinstance(st, ast.Assign):
            for t in st.targets:
                if isinstance(t, ast.Subscript) and isinstance(t.value, ast.Name) and t.value.id == name:
                    sites["set"].append(n)
    return name, sites


def ring_handlers(fi, name):
    """if-nodes testing `marker in <open-ring table>` (possibly negated)"""
    out = []
    for n in fi.cfg.nodes:
        if n.kind == "if":
            test, _ = strip_not(n.ast.test, True)
            if isinstance(test, ast.Compare) and len(test.ops) == 1 and isinstance(test.ops[0], (ast.In, ast.NotIn)) and \
                    isinstance(test.comparators[0], ast.Name) and test.comparators[0].id == name:
                out.append(n)
    return out


def exc_dangling_ring(repo, tier="quick"):
    fi = repo.function("read_cgsmiles:read_cgsmiles")
    cfg, fl = fi.cfg, fi.flow
    name, sites = ring_table(fi)
    obs = []
    oid = "EXC.X1-dangling-ring"
    returns = [n for n in cfg.nodes if n.kind == "stmt" and isinstance(n.ast, ast.Return)]
    exits = [p for p, lab in cfg.pred[cfg.exit]]
    need(exits, "read_cgsmiles has no normal exit", fi)
    for p in exits:
        node = cfg.nodes[p]
        # find a dominating `if <table nonempty>` whose true arm always raises SyntaxError
        found = None
        for g in cfg.nodes:
            if g.kind != "if" or not cfg.dominates(g.id, p):
                continue
            names = {s.id for s in ast.walk(g.ast.test) if isinstance(s, ast.Name)}
            if names != {name} and names != {name, "len"}:
                continue
            try:
                ev = Evaluator()
                t_empty = ev.truth(ev.eval(g.ast.test, {name: {}}))
                ev = Evaluator()
                t_full = ev.truth(ev.eval(g.ast.test, {name: {1: [0, 1]}}))
                ev = Evaluator()
                t_two = ev.truth(ev.eval(g.ast.test, {name: {1: [0, 1], 12: [3, 2]}}))
            except Unsupported:
                continue
            if t_empty is False and t_full is True and t_two is True:
                ok, why = arm_always_raises(fi, g, "T", {"SyntaxError"})
                found = (g, ok, why)
                if ok:
                    break
            elif t_empty is True and t_full is False and t_two is False:
                ok, why = arm_always_raises(fi, g, "F", {"SyntaxError"})
                found = (g, ok, why)
                if ok:
                    break
        if found and found[1]:
            # no write to the table between the test and the exit
            between = cfg.reachable_from(found[0].id) & {n.id for k in ("del", "set") for n in sites[k]}
            if between:
                obs.append(ob_fail(oid, fi, node.ast, construct="open-ring table written after the dangling test", instance="dominates-return",
                                   reason="the table is modified between the test and the return"))
            else:
                obs.append(ob_ok(oid, fi, found[0].ast, construct="if <open rings>: raise SyntaxError  dominates return", instance="dominates-return",
                                 reason="no graph is returned while a ring index is still open"))
        else:
            why = found[2] if found else "no test of the open-ring table '%s' dominates the return" % name
            obs.append(ob_fail(oid, fi, node.ast, construct="return without dangling-ring test", instance="dominates-return",
                               reason="a graph can be returned while a ring index is open: " + why))
    return obs


def sib_ring_handlers(repo, tier="quick"):
    """SIB S2: the %nn handler and the single-digit handler perform the same open/close protocol."""
    fi = repo.function("read_cgsmiles:read_cgsmiles")
    cfg, fl = fi.cfg, fi.flow
    name, sites = ring_table(fi)
    handlers = ring_handlers(fi, name)
    obs = []
    oid = "SIB.S2-ring-handlers"
    if len(handlers) < 2:
        raise AnalysisError("expected two ring-marker handlers testing membership in '%s', found %d" % (name, len(handlers)), fi.where())

    def norm(h):
        test, tarm, farm = if_arms(h.ast)
        marker = ast.unparse(test.left)
        body = tarm if isinstance(test.ops[0], ast.In) else farm
        other = farm if isinstance(test.ops[0], ast.In) else tarm
        return ([ast.unparse(s).replace(marker, "MARKER") for s in body], [ast.unparse(s).replace(marker, "MARKER") for s in other])
    ref = norm(handlers[0])
    for h in handlers[1:]:
        if norm(h) == ref:
            obs.append(ob_ok(oid, fi, h.ast, construct="ring handler open/close protocol", instance="line-pair",
                             reason="both marker forms close an open ring (record edge with the stored order, delete entry) and open a new one identically"))
        else:
            obs.append(ob_fail(oid, fi, h.ast, construct="ring handlers differ: %s vs %s" % (ref, norm(h)), instance="line-pair",
                               reason="the %nn and the single-digit ring handlers no longer perform the same open/close protocol"))
    # protocol of the reference handler: close = append edge (current, table[m][0], table[m][1]) + del table[m]; open = table[m] = [current, order]
    close, open_ = ref
    ok_close = any("append" in s for s in close) and any(s.startswith("del %s[MARKER]" % name) for s in close)
    ok_open = any(s.startswith("%s[MARKER] =" % name) for s in open_)
    (obs.append(ob_ok(oid, fi, handlers[0].ast, construct="close: record edge, delete entry; open: insert entry", instance="protocol",
                      reason="a closing marker removes its entry, so the table is empty exactly when no ring is open")) if ok_close and ok_open else
     obs.append(ob_fail(oid, fi, handlers[0].ast, construct="close=%s open=%s" % (close, open_), instance="protocol",
                        reason="closing a ring no longer records the edge and deletes the entry / opening no longer inserts one")))
    # every write to the table belongs to one of the handlers
    hnodes = set()
    for h in handlers:
        hnodes |= _arm_nodes(cfg, h, "T") | _arm_nodes(cfg, h, "F")
    stray = [n for k in ("del", "set") for n in sites[k] if n.id not in hnodes]
    (obs.append(ob_fail(oid, fi, stray[0].ast, construct=ast.unparse(stray[0].ast), instance="writers",
                        reason="the open-ring table is written outside the two ring handlers")) if stray else
     obs.append(ob_ok(oid, fi, construct="writers of the open-ring table", instance="writers", reason="only the two handlers write it")))
    return obs


def exc_duplicate_edge(repo, tier="quick"):
    fi = repo.function("read_cgsmiles:read_cgsmiles")
    cfg, fl = fi.cfg, fi.flow
    obs = []
    oid = "EXC.X2-duplicate-edge"
    graphs = [d for d in fl.defs if d.kind == "assign" and not d.path and fl.canon(d.value, d.node)[0] == "call" and
              is_call(fl.canon(d.value, d.node), "networkx.Graph") is not None]
    need(graphs, "cannot find the graph under construction in read_cgsmiles", fi)
    gnames = {d.var for d in graphs}

    def is_graph(t):
        return is_call(t, "networkx.Graph") is not None or (t[0] == "var" and t[1] in gnames)
    ring_adds = []
    chain_adds = []
    for call, nid in fl.calls():
        ct = fl.canon(call, nid)
        m = method_call(ct, "add_edge")
        if not m or not is_graph(m[0]) or len(m[2]) < 2:
            continue
        e0 = elem_of(m[2][0][1]) if m[2][0][0] == "sub" else None
        if e0 and e0[0] == "elem":
            ring_adds.append((call, nid, ct, m[2][0][1]))
        else:
            chain_adds.append((call, nid, ct))
    if not ring_adds:
        bulk = [c for c, n in fl.calls() if isinstance(c.func, ast.Attribute) and c.func.attr in ("add_edges_from", "add_weighted_edges_from")]
        if bulk:
            return [ob_fail(oid, fi, bulk[0], construct="ring edges added in bulk: %s" % ast.unparse(bulk[0])[:80], instance="ring-add",
                            reason="ring bonds are added in one batch: a ring bond that duplicates another ring bond of the same node is not compared with it "
                                   "and collapses silently into one edge")]
        need(False, "anchor vanished: no add_edge for ring edges in read_cgsmiles", fi)
    for call, nid, ct, elem in ring_adds:
        G = method_call(ct)[0]
        found = None
        for test, pol, gid in guards_of(fi, nid) + [(cfg.nodes[g].ast.test, None, g) for g in range(len(cfg.nodes))
                                                     if cfg.nodes[g].kind == "if" and cfg.dominates(g, nid)]:
            tt = fl.canon(test, gid)
            dup = False
            if tt[0] == "cmp" and tt[1] == ("in",) and tt[2][0] == elem and tt[2][1] == ("attr", G, "edges"):
                dup = True
            mh = method_call(tt, "has_edge")
            if mh and mh[0] == G and len(mh[2]) == 2 and mh[2][0] == ("sub", elem, ("const", 0)) and mh[2][1] == ("sub", elem, ("const", 1)):
                dup = True
            if dup and cfg.dominates(gid, nid) and enclosing_loops(fi, gid)[:1] == enclosing_loops(fi, nid)[:1]:
                ok, why = arm_always_raises(fi, cfg.nodes[gid], "T", {"SyntaxError"})
                found = (gid, ok, why)
                if ok:
                    break
        if found and found[1]:
            obs.append(ob_ok(oid, fi, call, construct="if ring_edge in graph.edges: raise SyntaxError  dominates add_edge(ring_edge)", instance="ring-add",
                             reason="a ring bond that duplicates an existing edge is rejected before it is added"))
        else:
            obs.append(ob_fail(oid, fi, call, construct="add_edge(ring edge) without duplicate test", instance="ring-add",
                               reason="a ring bond can silently overwrite an existing edge" + (": " + found[2] if found else "")))
        # the chain edge of the current node is added before the ring edges are processed (same iteration)
        loops = enclosing_loops(fi, nid)
        ring_loop = loops[0] if loops else None
        if ring_loop is not None:
            outer = [l.id for l in enclosing_loops(fi, ring_loop.id)]
            before = [c for c in chain_adds if [l.id for l in enclosing_loops(fi, c[1])] == outer and
                      not cfg.path_exists(ring_loop.id, c[1], avoid={outer[0]} if outer else ())]
            (obs.append(ob_ok(oid, fi, call, construct="chain edge added before the ring edges of the same node", instance="chain-first",
                              reason="a ring bond duplicating the implicit chain edge is seen by the test")) if before else
             obs.append(ob_fail(oid, fi, call, construct="ring edges processed before the chain edge", instance="chain-first",
                                reason="the implicit chain edge is added after the duplicate test, so `[#A]1[#B]1` is not rejected")))
    return obs


def exc_missing_fragment(repo, tier="quick"):
    """X3 / C11.2: a fragment-less coarse node is skipped only if all its edges have order 0, otherwise SyntaxError."""
    fi = repo.function("resolve:MoleculeResolver.resolve_disconnected_molecule")
    cfg, fl = fi.cfg, fi.flow
    obs = []
    oid = "EXC.X3-missing-fragment"
    fd = ("param", fi.positional_params[1])
    guard = None
    for n in cfg.nodes:
        if n.kind == "if":
            t_ast, t_pol = strip_not(n.ast.test, True)
            tt = fl.canon(t_ast, n.id)
            if tt[0] == "cmp" and tt[1] in (("not in",), ("in",)) and tt[2][1] == fd:
                na = node_attr(tt[2][0])
                if na and na[2] == ("const", "fragname"):
                    guard = (n, (tt[1][0] == "not in") == t_pol, na[1])
    need(guard is not None, "anchor vanished: no `fragname not in fragment_dict` test in resolve_disconnected_molecule", fi)
    g, neg, meta_node = guard
    label = "T" if neg else "F"
    other = "F" if neg else "T"
    arm = _arm_nodes(cfg, g, label)
    meta = ("attr", ("param", "self"), "meta_graph")
    # inside the arm: an if whose raising branch raises SyntaxError and whose test is "some incident order != 0"
    inner = [cfg.nodes[i] for i in arm if cfg.nodes[i].kind == "if"]
    verdict = None
    for n in inner:
        tt = fl.canon(n.ast.test, n.id)
        pol = _nonzero_order_test(tt, meta, meta_node)
        gate = n.id
        if pol is None and tt[0] == "cmp" and len(tt[1]) == 1 and tt[1][0] in ("!=", ">") and tt[2][1] in (("const", 0), ("const", 0.0)) and tt[2][0][0] == "iter":
            # the loop form of any(order != 0 ...):  for order in <orders>: if order != 0: raise
            loops_ = enclosing_loops(fi, n.id)
            if loops_ and loops_[0].id in arm and loops_[0].kind == "for" and (loops_[0].ast.lineno, loops_[0].ast.col_offset) == tuple(tt[2][0][1]):
                crafted = ("call", None, ("builtin", "any"), (("cmp", tt[1], (tt[2][0][2], tt[2][1])),), ())
                pol = _nonzero_order_test(crafted, meta, meta_node)
                if pol is not None:
                    gate = loops_[0].id      # an empty list of orders passes the loop head, not the test
        if pol is None:
            continue
        raise_label = "T" if pol else "F"
        ok, why = arm_always_raises(fi, n, raise_label, {"SyntaxError"})
        # every path from the arm entry to leaving the arm passes this test
        starts = [dst for dst, lab in cfg.succ[g.id] if lab == label]
        leaves = set()
        for s in starts:
            if s == gate:
                continue
            reach = {s} | cfg.reachable_from(s, avoid={gate})
            leaves |= {x for x in reach if x not in arm}
        dominated = not leaves or all(cfg.nodes[x].kind == "raise" for x in leaves)
        verdict = (n, ok and dominated, why if not ok else ("a path skips the node without the order test" if not dominated else ""), gate)
        if verdict[1]:
            break
    if verdict and verdict[1]:
        obs.append(ob_ok(oid, fi, verdict[0].ast, construct="fragment-less node: raise SyntaxError unless all incident orders are 0", instance="guard",
                         reason="only true virtual nodes are skipped"))
    elif verdict:
        obs.append(ob_fail(oid, fi, verdict[0].ast, construct="fragment-less node handling", instance="guard", reason=verdict[2]))
    else:
        obs.append(ob_fail(oid, fi, g.ast, construct="fragment-less node handling without order test", instance="guard",
                           reason="a node without fragment is skipped (or rejected) regardless of its edges' orders"))
    # the skip path creates no fine nodes: it reaches the loop head without merge_graphs
    merges = {nid for _, nid, _ in fl.calls_to("graph_utils:merge_graphs")}
    need(merges, "anchor vanished: resolve_disconnected_molecule no longer calls merge_graphs", fi)
    loops = enclosing_loops(fi, g.id)
    if loops:
        head = loops[0].id
        starts = [dst for dst, lab in cfg.succ[g.id] if lab == label]
        hit = False
        for s in starts:
            reach = {s} | cfg.reachable_from(s, avoid={head})
            if reach & merges:
                hit = True
        (obs.append(ob_fail(oid, fi, g.ast, construct="virtual node reaches merge_graphs", instance="no-instantiation",
                            reason="a fragment-less node still instantiates fine nodes")) if hit else
         obs.append(ob_ok(oid, fi, g.ast, construct="virtual node: continue", instance="no-instantiation", reason="a virtual node produces no fine nodes")))
        # the other arm (fragment exists) passes merge_graphs
        starts = [dst for dst, lab in cfg.succ[g.id] if lab == other]
        miss = False
        for s in starts:
            if s in merges:
                continue
            reach = {s} | cfg.reachable_from(s, avoid=merges)
            if head in reach or cfg.exit in reach:
                miss = True
        (obs.append(ob_fail(oid, fi, g.ast, construct="real node may skip instantiation", instance="instantiation",
                            reason="a node with a fragment can be left without fine nodes")) if miss else
         obs.append(ob_ok(oid, fi, g.ast, construct="real node: merge_graphs on every path", instance="instantiation", reason="every node with a fragment is instantiated")))
        # every iteration either instantiates the node or has looked at the orders of its own edges: no other way round the loop
        if verdict and verdict[1]:
            order_test = verdict[3]
            bypass = False
            for s in [dst for dst, lab in cfg.succ[head] if lab == "iter"]:
                if s in merges or s == order_test:
                    continue
                reach = {s} | cfg.reachable_from(s, avoid=set(merges) | {order_test}, edge_filter=lambda a_, b_, l_: l_ != "exc")
                if head in reach:
                    bypass = True
            (obs.append(ob_fail(oid, fi, loops[0].ast, construct="an iteration can end without merge_graphs and without the order test", instance="every-skip-tested",
                                reason="a coarse node can be skipped on other grounds than `all its edges have order 0` (for example because a node of "
                                       "the same name was virtual): a real node without fragment is then dropped silently")) if bypass else
             obs.append(ob_ok(oid, fi, loops[0].ast, construct="every iteration passes merge_graphs or the order test", instance="every-skip-tested",
                              reason="a node is skipped only after its own edges were inspected")))
    return obs


def _nonzero_order_test(tt, meta, meta_node):
    """Recognise `not all(orders == 0)` / `any(orders != 0)` / `not all(o == 0 for o in orders)` where orders are the
    'order' attributes of all edges (meta_node, neighbour).  Returns True if the test is true when some order is
    non-zero, False if it is true when all orders are zero, None if not recognised."""
    neg = False
    t = tt
    if t[0] == "unop" and t[1] == "not":
        neg = True
        t = t[2]
    c = is_call(t, "all", "any", "numpy.all", "numpy.any")
    if not c or not c[0]:
        return None
    fname = "all" if is_call(t, "all", "numpy.all") else "any"
    inner = c[0][0]
    cmp_ = None
    src = None
    direct = None     # (edge attribute term, iteration element) when the comparison is made on the edge attribute itself
    if inner[0] == "cmp" and len(inner[1]) == 1:
        cmp_, src = inner, inner[2][0]
    elif inner[0] == "comp" and inner[3][0] == "cmp" and len(inner[3][1]) == 1 and len(inner[4]) == 1 and not inner[4][0][2]:
        cmp_ = inner[3]
        elem0 = inner[4][0][1]
        if cmp_[2][0] == elem0:
            src = elem0[2] if elem0[0] == "iter" else None
        else:
            direct = (cmp_[2][0], elem0)
    if cmp_ is None or cmp_[2][1] not in (("const", 0), ("const", 0.0)) or cmp_[1][0] not in ("==", "!=", ">"):
        return None
    if direct is None:
        # src: [np.array](list of meta.edges[(meta_node, neigh)]['order'] for neigh in meta.neighbors(meta_node))
        a = is_call(src, "numpy.array", "numpy.asarray")
        if a and a[0]:
            src = a[0][0]
        src = strip_wrappers(src)
        if not (src and src[0] == "comp" and len(src[4]) == 1 and not src[4][0][2]):
            return None
        direct = (src[3], src[4][0][1])
    elem = direct[1]
    op = cmp_[1][0]
    # the attribute dicts of all incident edges:  attrs['order'] for attrs in meta.adj[meta_node].values()
    if direct[0] == ("sub", elem, ("const", "order")) and elem[0] == "iter":
        mv = method_call(strip_wrappers(elem[2]), "values")
        if mv and not mv[2] and mv[0] in (("sub", ("attr", meta, "adj"), meta_node), ("sub", meta, meta_node), ("sub", ("attr", meta, "_adj"), meta_node)):
            if fname == "all" and op == "==":
                return True if neg else False
            if fname == "any" and op in ("!=", ">"):
                return False if neg else True
            return None
    ea = edge_attr(direct[0])
    if not ea or ea[0] != meta or ea[2] != ("const", "order"):
        return None
    if ea[1] not in (("tuple", (meta_node, elem)), ("tuple", (elem, meta_node))):
        return None
    if elem[0] != "iter":
        return None
    it = strip_wrappers(elem[2])
    mn = method_call(it, "neighbors")
    if not ((mn and mn[0] == meta and mn[2] and mn[2][0] == meta_node) or it == ("sub", meta, meta_node) or it == ("sub", ("attr", meta, "adj"), meta_node)):
        return None
    op = cmp_[1][0]
    # all(== 0): true iff all zero ; any(!= 0)/any(> 0): true iff some nonzero ; any(== 0), all(!= 0): not the property
    if fname == "all" and op == "==":
        base = False     # true when all zero -> "some nonzero" is its negation
    elif fname == "any" and op in ("!=", ">"):
        base = True
    else:
        return None
    return (not base) if neg else base


def exc_annotations(repo, tier="quick"):
    """X4: two '=' in an entry -> SyntaxError before the split; bind failure -> SyntaxError; failing cast -> TypeError, and the
    cast is outside the try that converts TypeError."""
    fi = repo.function("dialects:_parse_dialect_string")
    cfg, fl = fi.cfg, fi.flow
    obs = []
    oid = "EXC.X4-annotations"
    # (a) count('=') > 1
    found = None
    for n in cfg.nodes:
        if n.kind != "if":
            continue
        tt = fl.canon(n.ast.test, n.id)
        if tt[0] == "cmp" and len(tt[1]) == 1:
            l, r = tt[2]
            mc = method_call(l, "count")
            if mc and mc[2] and mc[2][0] in (("const", "="), ("param", "annotation_assign_token")) and \
                    ((tt[1][0] == ">" and r == ("const", 1)) or (tt[1][0] == ">=" and r == ("const", 2))):
                found = (n, mc[0])
    if not found:
        obs.append(ob_fail(oid, fi, construct="entry.count('=') > 1", instance="two-equals", reason="no test for more than one '=' in an annotation entry"))
    else:
        n, entry = found
        ok, why = arm_always_raises(fi, n, "T", {"SyntaxError"})
        e = elem_of(entry)
        per_entry = False
        if e and e[0] == "elem":
            # the collection is the split text (on some paths possibly an empty literal: nothing to test)
            alts = fl.alternatives(strip_wrappers(e[1])) or []
            splits_ = [a for a in alts if method_call(strip_wrappers(a), "split")]
            empties = [a for a in alts if a in (("list", ()), ("tuple", ()))]
            per_entry = bool(splits_) and len(splits_) + len(empties) == len(alts)
        # precedes the split of that entry
        splits = [nid for call, nid in fl.calls() if method_call(fl.canon(call, nid), "split") and method_call(fl.canon(call, nid), "split")[0] == entry]
        before = all(cfg.dominates(n.id, s) for s in splits) if splits else True
        good = ok and per_entry and before
        (obs.append(ob_ok(oid, fi, n.ast, construct="for entry in elements: if entry.count('=') > 1: raise SyntaxError", instance="two-equals",
                          reason="checked for every entry, before the entry is split")) if good else
         obs.append(ob_fail(oid, fi, n.ast, construct="two-'=' test", instance="two-equals",
                            reason=why or ("the test is not applied to every entry" if not per_entry else "an entry is split before it is tested"))))
    # (b) Signature.bind inside try/except TypeError -> SyntaxError
    binds = [(call, nid) for call, nid in fl.calls() if isinstance(call.func, ast.Attribute) and call.func.attr == "bind"]
    if not binds:
        # without Signature.bind the overflow of positional values has to be rejected explicitly
        explicit = False
        for n in cfg.nodes:
            if n.kind == "if" and any(isinstance(x, ast.Call) and isinstance(x.func, ast.Name) and x.func.id == "len" for x in ast.walk(n.ast.test)):
                ok_r, _ = arm_always_raises(fi, n, "T", {"SyntaxError"})
                explicit = explicit or ok_r
        (obs.append(ob_ok(oid, fi, construct="explicit length test raising SyntaxError", instance="bind", reason="surplus positional values are rejected")) if explicit else
         obs.append(ob_fail(oid, fi, construct="no Signature.bind and no explicit length test", instance="bind",
                            reason="one positional value too many is no longer rejected with SyntaxError (it is silently dropped or mis-assigned)")))
    for call, nid in binds:
        hs = [cfg.nodes[d] for d, lab in cfg.succ[nid] if lab == "exc"]
        good = False
        why = "Signature.bind is not inside a try whose TypeError handler raises SyntaxError"
        for h in hs:
            names = _handler_names(h.ast)
            if "TypeError" in names or names == {"*"}:
                # handler body always raises SyntaxError
                body_ok = _block_always_raises(fi, h, {"SyntaxError"})
                if body_ok:
                    good = True
                else:
                    why = "the TypeError handler around bind does not always raise SyntaxError"
        (obs.append(ob_ok(oid, fi, call, construct="try: bind(...) except TypeError: raise SyntaxError", instance="bind",
                          reason="too many positional values / unknown structure are reported as SyntaxError")) if good else
         obs.append(ob_fail(oid, fi, call, construct="bind(...)", instance="bind", reason=why)))
        # bind can only count the key-less values when it receives them as positional arguments
        starred = [a for a in call.args if isinstance(a, ast.Starred)]
        explicit = False
        for n in cfg.nodes:
            if n.kind == "if" and any(isinstance(x, ast.Call) and isinstance(x.func, ast.Name) and x.func.id == "len" for x in ast.walk(n.ast.test)) and \
                    any(isinstance(x, ast.Compare) and isinstance(x.ops[0], (ast.Gt, ast.GtE, ast.Lt, ast.LtE)) for x in ast.walk(n.ast.test)):
                ok_r, _ = arm_always_raises(fi, n, "T", {"SyntaxError"})
                explicit = explicit or ok_r
        (obs.append(ob_ok(oid, fi, call, construct="bind(*<key-less values>, ...)", instance="bind:positional",
                          reason="the signature's own arity check sees every key-less value")) if starred or explicit else
         obs.append(ob_fail(oid, fi, call, construct=ast.unparse(call)[:80], instance="bind:positional",
                            reason="the key-less values are not handed to bind as positional arguments and there is no explicit count test: "
                                   "a surplus positional value is dropped or mis-assigned instead of being rejected with SyntaxError")))
    # (c) the cast
    cfi = repo.function("dialects:check_and_cast_types")
    ccfg, cfl = cfi.cfg, cfi.flow
    casts = [(call, nid) for call, nid in cfl.calls() if repo.resolve_call(cfi, call).kind == "dynamic"]
    if not casts:
        # the annotation called in place: param.annotation(value)
        casts = [(call, nid) for call, nid in cfl.calls() if isinstance(call.func, ast.Attribute) and call.func.attr == "annotation" and len(call.args) == 1]
    need(casts, "anchor vanished: no dynamic cast call expected_type(value) in check_and_cast_types", cfi)
    for call, nid in casts:
        hs = [ccfg.nodes[d] for d, lab in ccfg.succ[nid] if lab == "exc"]
        good = False
        why = "the cast is not inside a try whose (TypeError, ValueError) handler raises TypeError"
        for h in hs:
            names = _handler_names(h.ast)
            if {"TypeError", "ValueError"} <= names or names == {"*"} or "Exception" in names:
                if _block_always_raises(cfi, h, {"TypeError"}):
                    good = True
                else:
                    why = "the handler around the cast does not always raise TypeError"
            elif names & {"TypeError", "ValueError"}:
                why = "the handler around the cast catches only %s: float('abc') raises ValueError, float(None) TypeError" % sorted(names)
        (obs.append(ob_ok(oid, cfi, call, construct="try: expected_type(value) except (TypeError, ValueError): raise TypeError", instance="cast",
                          reason="a non-numeric charge or weight is reported as TypeError")) if good else
         obs.append(ob_fail(oid, cfi, call, construct="cast", instance="cast", reason=why)))
        # the cast result is stored back for every bound argument with an annotation
    # the cast applies to every bound argument: loop over bound_args.arguments.items()
    loops = [n for n in ccfg.nodes if n.kind == "for"]
    ok_loop = False
    for lp in loops:
        it = strip_wrappers(cfl.canon(lp.ast.iter, lp.id))
        m = method_call(it, "items")
        if m and m[0] == ("attr", ("param", cfi.positional_params[0]), "arguments"):
            ok_loop = True
    (obs.append(ob_ok(oid, cfi, construct="for name, value in bound_args.arguments.items()", instance="cast-range",
                      reason="positional and keyword values alike are cast")) if ok_loop else
     obs.append(ob_fail(oid, cfi, construct="cast loop", instance="cast-range", reason="the cast no longer ranges over all bound arguments")))
    # (d) the call of the cast in _parse_dialect_string is not protected by a handler catching TypeError
    ccalls = fl.calls_to("dialects:check_and_cast_types")
    need(ccalls, "anchor vanished: _parse_dialect_string no longer calls check_and_cast_types", fi)
    for call, nid, _ in ccalls:
        hs = [cfg.nodes[d] for d, lab in cfg.succ[nid] if lab == "exc"]
        bad = [h for h in hs if _handler_names(h.ast) & {"TypeError", "Exception", "*", "BaseException"}]
        (obs.append(ob_fail(oid, fi, call, construct="check_and_cast_types inside try/except TypeError", instance="cast-outside-try",
                            reason="the TypeError of a failing cast is caught and retyped")) if bad else
         obs.append(ob_ok(oid, fi, call, construct="check_and_cast_types outside the bind try", instance="cast-outside-try",
                          reason="the TypeError of a failing cast propagates")))
        # every normal path passes the cast, after bind
        ok = cfg.must_pass(cfg.entry, {cfg.exit}, {nid})
        (obs.append(ob_ok(oid, fi, call, construct="cast on every path", instance="cast-every-path", reason="every annotation is type-checked")) if ok else
         obs.append(ob_fail(oid, fi, call, construct="cast skipped on some path", instance="cast-every-path", reason="a path returns attributes without casting")))
    return obs


def _handler_names(h):
    if h.type is None:
        return {"*"}
    if isinstance(h.type, ast.Tuple):
        return {ast.unparse(e).split(".")[-1] for e in h.type.elts}
    return {ast.unparse(h.type).split(".")[-1]}


def _block_always_raises(fi, hnode, names):
    cfg = fi.cfg
    body = set()
    for s in hnode.ast.body:
        for sub in ast.walk(s):
            x = cfg.node_of_stmt.get(id(sub))
            if x is not None:
                body.add(x)
    seen = set()
    work = [d for d, lab in cfg.succ[hnode.id] if lab != "exc"]
    if not work:
        return False
    while work:
        n = work.pop()
        if n in seen:
            continue
        seen.add(n)
        if n not in body:
            return False
        node = cfg.nodes[n]
        if node.kind == "stmt" and isinstance(node.ast, ast.Raise):
            nm = _raise_name(node.ast)
            if nm is None or nm not in names:
                return False
            continue
        work.extend(d for d, lab in cfg.succ[n] if lab != "exc")
    return True


PUBLIC_ENTRIES = ["read_cgsmiles:read_cgsmiles", "read_fragments:read_fragments", "resolve:MoleculeResolver.from_string",
                  "resolve:MoleculeResolver.from_graph", "resolve:MoleculeResolver.from_fragment_dicts",
                  "resolve:MoleculeResolver.resolve", "resolve:MoleculeResolver.resolve_iter", "resolve:MoleculeResolver.resolve_all"]
FAULT_FUNCS = ["read_cgsmiles:read_cgsmiles", "resolve:MoleculeResolver.resolve_disconnected_molecule",
               "dialects:_parse_dialect_string", "dialects:check_and_cast_types"]


def exc_handlers(repo, tier="quick"):
    """On every call path from a public entry point to a fault site no enclosing handler matches
    SyntaxError / TypeError (unless it re-raises the same class)."""
    obs = []
    oid = "EXC.handlers"
    reach_fault = set()
    # functions from which a fault function is reachable
    for fi in repo.all_functions():
        if set(FAULT_FUNCS) & repo.reachable([fi.fq]):
            reach_fault.add(fi.fq)
    on_path = repo.reachable(PUBLIC_ENTRIES) & reach_fault
    n_calls = 0
    for fq in sorted(on_path):
        fi = repo.function(fq)
        cfg = fi.cfg
        # calls (also through functools.partial aliases) to functions that can reach a fault
        for call, nid in fi.flow.calls():
            t = repo.resolve_call(fi, call)
            if t.kind not in ("repo", "class") or t.fi is None or t.fi.fq not in reach_fault:
                continue
            n_calls += 1
            hs = [cfg.nodes[d] for d, lab in cfg.succ[nid] if lab == "exc"]
            for h in hs:
                names = _handler_names(h.ast)
                catches = names & {"SyntaxError", "TypeError", "Exception", "BaseException", "*"}
                if not catches:
                    obs.append(ob_ok(oid, fi, call, construct="call %s under `except %s`" % (t.fi.name, "/".join(sorted(names))),
                                     instance=fi.qualname + "->" + t.fi.name, reason="the handler does not match the documented errors"))
                    continue
                same = all(_block_always_raises(fi, h, {c}) for c in catches if c in ("SyntaxError", "TypeError")) and \
                    not (catches & {"Exception", "BaseException", "*"})
                (obs.append(ob_ok(oid, fi, call, construct="call %s under `except %s` (re-raises the same class)" % (t.fi.name, "/".join(sorted(names))),
                                  instance=fi.qualname + "->" + t.fi.name, reason="the error type is preserved")) if same else
                 obs.append(ob_fail(oid, fi, call, construct="call %s under `except %s`" % (t.fi.name, "/".join(sorted(names))),
                                    instance=fi.qualname + "->" + t.fi.name,
                                    reason="a handler between the fault and the API swallows or retypes the documented error")))
            if not hs:
                obs.append(ob_ok(oid, fi, call, construct="call %s not inside any try" % t.fi.name, instance=fi.qualname + "->" + t.fi.name,
                                 reason="the documented error propagates"))
    if n_calls < 8:
        raise AnalysisError("handler scan matched only %d call sites on paths to the fault sites (floor 8)" % n_calls)
    return obs


def exc_raise_inventory(repo, tier="quick"):
    """C04 (the documented grammar is accepted): the rejection sites of the graph reader are the ones confirmed by reading.
    A raise statement beyond the confirmed ones restricts the accepted language; whether it rejects documented strings is a
    question about runtime values the rule cannot answer, so it is reported as undecided (never as a violation)."""
    import json
    import os
    from ..report import VERIF, ob_undecided
    with open(os.path.join(VERIF, "spec", "faults.json")) as fh:
        table = json.load(fh)["reader_raise_sites"]
    obs = []
    oid = "EXC.raise-inventory"
    for mname in ("read_cgsmiles", "dialects"):
        for fi in repo.module(mname).functions.values():
            want = table.get(fi.fq, {})
            got = {}
            for n in fi.cfg.nodes:
                if n.kind == "stmt" and isinstance(n.ast, ast.Raise):
                    e = n.ast.exc
                    if e is None:
                        continue       # bare re-raise
                    cls = e.func if isinstance(e, ast.Call) else e
                    name = ast.unparse(cls)
                    got.setdefault(name, []).append(n)
            extra = []
            for name, nodes in got.items():
                if len(nodes) > want.get(name, 0):
                    extra.append((name, nodes))
            if extra:
                for name, nodes in extra:
                    obs.append(ob_undecided(oid, fi, nodes[-1].ast, construct="%d `raise %s` in %s, %d confirmed" % (len(nodes), name, fi.name, want.get(name, 0)),
                                            instance=fi.name + ":" + name,
                                            reason="the reader rejects input at a site that was not confirmed against the documented grammar; "
                                                   "review it and extend spec/faults.json (reader_raise_sites)"))
            else:
                obs.append(ob_ok(oid, fi, construct="raise statements of %s: %s" % (fi.name, {k: len(v) for k, v in got.items()} or "none"),
                                 instance=fi.name, reason="no rejection site beyond the confirmed ones"))
    return obs
