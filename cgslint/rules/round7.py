"""Rules added in the seventh seeded round (DESIGN section 18).  Each states a structural necessary condition of a property
that the earlier rule set left undecided; each was written against a class of changes, not against one patch."""
import ast

from .. import AnalysisError
from ..report import ob_ok, ob_fail, ob_undecided
from .common import need


# ---------------------------------------------------------------------------------------------------------------------
# SEL.rotate-component (C19): the cis/trans correction moves the piece of the molecule that holds the target atom
# ---------------------------------------------------------------------------------------------------------------------

def _names(node):
    return {n.id for n in ast.walk(node) if isinstance(n, ast.Name)}


def _ext(repo, fi, call):
    t = repo.resolve_call(fi, call)
    return t.name if t is not None and t.kind == "ext" else None


def _assigned_names(st):
    out = set()
    tg = []
    if isinstance(st, ast.Assign):
        tg = st.targets
    elif isinstance(st, (ast.AnnAssign, ast.AugAssign)):
        tg = [st.target]
    elif isinstance(st, (ast.For, ast.AsyncFor)):
        tg = [st.target]
    elif isinstance(st, ast.With):
        tg = [i.optional_vars for i in st.items if i.optional_vars is not None]
    for t in tg:
        for n in ast.walk(t):
            if isinstance(n, ast.Name):
                out.add(n.id)
    for n in ast.walk(st) if not isinstance(st, (ast.For, ast.While, ast.If, ast.With, ast.Try)) else ():
        if isinstance(n, ast.NamedExpr):
            out.add(n.target.id)
    return out


def _simple_statements(fn):
    """All statements of the function, compound ones included (their own header only is looked at by the callers)."""
    for n in ast.walk(fn):
        if isinstance(n, ast.stmt) and n is not fn:
            yield n


def _header(st):
    """The part of a statement that computes the values it assigns (for a loop: the iterable)."""
    if isinstance(st, (ast.For, ast.AsyncFor)):
        return st.iter
    if isinstance(st, ast.Assign):
        return st.value
    if isinstance(st, (ast.AnnAssign, ast.AugAssign)):
        return st.value
    return None


def sel_rotate_component(repo, tier="quick"):
    """rotate_subgraph cuts the bond anchor-target and rotates the side of the target.  Which nodes that is has to be decided
    by asking which connected component of the cut graph contains the target: the cut bond may lie in a ring (one piece), and
    the graph may have further pieces (more than two).  A selection that assumes exactly two pieces, or takes 'everything that
    is not on the anchor's side', raises or moves atoms that do not belong to the substituent."""
    oid = "SEL.rotate-component"
    fi = repo.function("graph_layout_utils:rotate_subgraph")
    fn = fi.node
    need("target" in fi.params and "points" in fi.params, "anchor vanished: rotate_subgraph has no parameters `target` / `points`", fi)
    # 1. the moved set: the iterable(s) of the loop / comprehension whose element subscripts `points` on the store side
    moved = set()
    store_site = None
    for st in _simple_statements(fn):
        if isinstance(st, (ast.For, ast.AsyncFor)):
            tnames = _names(st.target)
            for sub in ast.walk(st):
                if isinstance(sub, ast.Subscript) and isinstance(sub.ctx, ast.Store) and isinstance(sub.value, ast.Name) and sub.value.id == "points" \
                        and _names(sub.slice) & tnames:
                    moved |= _names(st.iter)
                    store_site = st
        if isinstance(st, ast.Expr) and isinstance(st.value, ast.Call) and isinstance(st.value.func, ast.Attribute) and st.value.func.attr == "update" \
                and isinstance(st.value.func.value, ast.Name) and st.value.func.value.id == "points":
            moved |= _names(st.value)
            store_site = st
    need(moved, "anchor vanished: rotate_subgraph no longer writes the rotated positions back into `points` node by node", fi)
    # 2. backward slice over names (flow-insensitive, which over-approximates the slice: enough for a who-defines-what question)
    stmts = list(_simple_statements(fn))
    slice_names = set(moved) - set(fi.params)
    slice_stmts = []
    changed = True
    while changed:
        changed = False
        for st in stmts:
            if st in slice_stmts:
                continue
            if _assigned_names(st) & slice_names:
                slice_stmts.append(st)
                h = _header(st)
                new = (_names(h) if h is not None else set()) - set(fi.params)
                if not new <= slice_names:
                    slice_names |= new
                changed = True
    # 3. facts
    cut_graphs = set()
    for n in ast.walk(fn):
        if isinstance(n, ast.Call) and isinstance(n.func, ast.Attribute) and n.func.attr in ("remove_edge", "remove_edges_from") and isinstance(n.func.value, ast.Name):
            cut_graphs.add(n.func.value.id)
    # ... or the bond is masked instead of removed: nx.restricted_view(graph, nodes, edges) with a non-empty edge list
    for n in ast.walk(fn):
        if isinstance(n, ast.Assign) and len(n.targets) == 1 and isinstance(n.targets[0], ast.Name) and isinstance(n.value, ast.Call):
            nm = _ext(repo, fi, n.value) or ""
            if nm.endswith("restricted_view"):
                ed = next((k.value for k in n.value.keywords if k.arg == "edges"), n.value.args[2] if len(n.value.args) > 2 else None)
                if isinstance(ed, (ast.List, ast.Tuple)) and ed.elts:
                    cut_graphs.add(n.targets[0].id)
    need(cut_graphs, "anchor vanished: rotate_subgraph no longer removes the anchor-target bond from a copy of the graph", fi)
    comp_calls = []     # (call, kind, statement)
    for st in slice_stmts:
        h = _header(st)
        if h is None:
            continue
        for n in ast.walk(h):
            if isinstance(n, ast.Call):
                nm = _ext(repo, fi, n) or ""
                if nm.endswith("connected_components"):
                    comp_calls.append((n, "all", st))
                elif nm.endswith("node_connected_component"):
                    comp_calls.append((n, "one", st))
    if not comp_calls:
        return [ob_undecided(oid, fi, store_site, construct="moved nodes: %s" % ", ".join(sorted(moved)), instance="selection",
                             reason="the nodes that are rotated are not taken from networkx' connected components of the cut graph; the rule cannot "
                                    "tell whether they are the target's side")]
    obs = []
    for call, kind, st in comp_calls:
        g = call.args[0] if call.args else None
        if not (isinstance(g, ast.Name) and g.id in cut_graphs):
            obs.append(ob_fail(oid, fi, call, construct="components of %s" % (ast.unparse(g) if g is not None else "?"), instance="cut-graph",
                               reason="the components are computed on a graph from which the anchor-target bond was not removed: the whole molecule "
                                      "is one piece and rotates, the anchor included"))
            continue
        if kind == "one":
            who = call.args[1] if len(call.args) > 1 else next((k.value for k in call.keywords if k.arg == "n"), None)
            if isinstance(who, ast.Name) and who.id == "target":
                # it must be used as it is, not complemented
                user_negated = _complemented(fn, st, slice_stmts)
                if user_negated is None:
                    obs.append(ob_ok(oid, fi, call, construct="node_connected_component(cut graph, target)", instance="selection",
                                     reason="the rotated nodes are the piece that contains the target"))
                else:
                    obs.append(ob_fail(oid, fi, user_negated, construct="complement of the target's piece", instance="selection",
                                       reason="the nodes outside the target's piece are rotated"))
            else:
                obs.append(ob_fail(oid, fi, call, construct="node_connected_component(cut graph, %s)" % (ast.unparse(who) if who is not None else "?"), instance="selection",
                                   reason="the rotated nodes are derived from the piece of another atom than the target: when the cut bond lies in a ring that "
                                          "piece is the whole molecule (nothing, or everything, is left for the target), and every further piece of the "
                                          "graph is moved along"))
            continue
        # kind == "all": a fixed-arity unpacking assumes a number of pieces
        if isinstance(st, ast.Assign) and any(isinstance(t, (ast.Tuple, ast.List)) and not any(isinstance(e, ast.Starred) for e in t.elts) for t in st.targets) \
                and _is_whole_value(st.value, call):
            obs.append(ob_fail(oid, fi, st, construct="%d names = connected_components(cut graph)" % len(st.targets[0].elts), instance="selection",
                               reason="the number of pieces is assumed: cutting a ring bond leaves one piece, a graph with a counter-ion has three; the "
                                      "unpacking raises ValueError and no layout is returned"))
            continue
        # a membership test on the target must decide which piece is taken
        if _membership_selects(fn, slice_names):
            obs.append(ob_ok(oid, fi, call, construct="piece chosen by `target in piece`", instance="selection",
                             reason="the rotated nodes are the piece that contains the target, however many pieces there are"))
        else:
            idx = _fixed_index(fn, slice_stmts, call)
            if idx is not None:
                obs.append(ob_fail(oid, fi, idx, construct="piece chosen by position", instance="selection",
                                   reason="the order of networkx' components is the order of the node keys, not anchor side / target side"))
            else:
                obs.append(ob_undecided(oid, fi, call, construct="connected_components(cut graph)", instance="selection",
                                        reason="no test `target in <piece>` decides which piece is rotated and the selection is none of the forms the rule knows"))
    return obs


def _is_whole_value(value, call):
    """value is the call itself or the call wrapped in list()/tuple()/sorted()."""
    v = value
    while isinstance(v, ast.Call) and v is not call and isinstance(v.func, ast.Name) and v.func.id in ("list", "tuple", "sorted") and v.args:
        v = v.args[0]
    return v is call


def _membership_selects(fn, slice_names):
    for n in ast.walk(fn):
        if isinstance(n, ast.Compare) and len(n.ops) == 1 and isinstance(n.ops[0], ast.In) and isinstance(n.left, ast.Name) and n.left.id == "target":
            right = n.comparators[0]
            if _names(right) & slice_names or isinstance(right, ast.Name):
                return True
    return False


def _complemented(fn, st, slice_stmts):
    """A later slice statement that filters with `not in <name assigned by st>`."""
    mine = _assigned_names(st)
    for other in slice_stmts:
        if other is st:
            continue
        for n in ast.walk(other):
            if isinstance(n, ast.Compare) and len(n.ops) == 1 and isinstance(n.ops[0], ast.NotIn) and _names(n.comparators[0]) & mine:
                return n
            if isinstance(n, ast.BinOp) and isinstance(n.op, ast.Sub) and _names(n.right) & mine:
                return n
    return None


def _int_literal(node):
    try:
        return isinstance(ast.literal_eval(node), int)
    except (ValueError, TypeError, SyntaxError, MemoryError, RecursionError):
        return False


def _fixed_index(fn, slice_stmts, call):
    for st in slice_stmts:
        for n in ast.walk(st):
            if isinstance(n, ast.Subscript) and _int_literal(n.slice):
                if any(c is call for c in ast.walk(n.value)):
                    return n
                if isinstance(n.value, ast.Name) and any(n.value.id in _assigned_names(s2) and any(c is call for c in ast.walk(s2)) for s2 in slice_stmts):
                    return n
    return None


# ---------------------------------------------------------------------------------------------------------------------
# OWN.resolver-input (C12, C06): the constructors leave the base graph as the caller wrote it
# ---------------------------------------------------------------------------------------------------------------------

def own_resolver_input(repo, tier="quick"):
    """resolve() selects the fragment of a base-graph node by the names the caller's graph carries (`atomname` if present,
    `fragname` otherwise).  A constructor that writes into that graph before resolve() reads it changes which fragments are
    taken for graphs that carry both names - the output of an earlier resolution handed to from_graph - while every freshly
    parsed base graph behaves as before.  The three constructors therefore have to be read-only on the base graph."""
    from .own import effects
    E = effects(repo)
    oid = "OWN.resolver-input"
    obs = []
    sites = [("resolve:MoleculeResolver.__init__", 1), ("resolve:MoleculeResolver.from_graph", None)]
    for fq, pos in sites:
        fi = repo.function(fq)
        params = [p for p in fi.positional_params if p not in ("self", "cls")]
        graphs = [p for p in params if "graph" in p or "molecule" in p]
        need(graphs, "anchor vanished: %s has no base-graph parameter" % fq, fi)
        for p in graphs:
            items = E.effects_on(fi, ("param", p))
            if items:
                for d, o in items[:3]:
                    obs.append(ob_fail(oid, fi, construct="base graph `%s` written at distance %d via %s" % (p, d, o.split(" ", 1)[1] if " " in o else o), instance=fq.split(".")[-1] + ":" + p,
                                       reason="a constructor modifies the base graph before resolve() reads the names that select the fragments: %s" % o))
            else:
                obs.append(ob_ok(oid, fi, construct="base graph `%s` is read-only in %s and its callees" % (p, fq.split(":")[1]), instance=fq.split(".")[-1] + ":" + p,
                                 reason="the names on the caller's graph reach resolve() unchanged"))
    return obs


# ---------------------------------------------------------------------------------------------------------------------
# ORD.repetition-state (C05): every repetition of a multiplied branch is computed from the same state
# ---------------------------------------------------------------------------------------------------------------------

def _repetition_loops(fi, repo=None):
    """(repetition loop, recipe loop) pairs of read_cgsmiles: a `for _ in range(...)` loop directly around a loop that calls
    _expand_branch (the bounds of the range are the business of TRIP.multiplier, not of the rules that use this)."""
    from .common import is_call, enclosing_loops
    fl, cfg = fi.flow, fi.cfg
    reps = []
    for n in cfg.nodes:
        if n.kind != "for":
            continue
        c = is_call(fl.canon(n.ast.iter, n.id), "range")
        if not c or not c[0]:
            continue
        inner = [m for m in cfg.nodes if m.kind in ("for", "while") and m.id != n.id and m.id in cfg.loops.get(n.id, set()) and
                 enclosing_loops(fi, m.id) and enclosing_loops(fi, m.id)[0].id == n.id]
        inner = [m for m in inner if any(isinstance(x, ast.Call) and isinstance(x.func, ast.Name) and x.func.id == "_expand_branch" for x in ast.walk(m.ast))]
        if inner:
            reps.append((n, inner[0]))
    return reps


def ord_repetition_state(repo, tier="quick"):
    """`[...]|n` stands for n copies of the same unit.  The copies are produced by a loop over the repetitions around a loop over
    the recorded recipes; the only thing one repetition may hand to the next is the cursor (graph, running node number, node the
    next copy hangs on).  Any other variable that feeds the arguments of _expand_branch and survives from one repetition into
    the next makes copy k+1 differ from copy k (the unit is then not 'written out' n times)."""
    from .da import loop_carried
    oid = "ORD.repetition-state"
    fi = repo.function("read_cgsmiles:read_cgsmiles")
    fl, cfg = fi.flow, fi.cfg
    reps = _repetition_loops(fi)
    need(reps, "anchor vanished: no repetition loop `for _ in range(0, int(<multiplier>) - 1)` over the branch recipes in read_cgsmiles", fi)
    obs = []
    for rep, inner in reps:
        body = cfg.loops.get(rep.id, set())
        # the cursor: what _expand_branch hands back
        cursor = set()
        feeds = set()
        calls = []
        for m in cfg.nodes:
            if m.id not in body or m.kind != "stmt":
                continue
            for sub in ast.walk(m.ast):
                if isinstance(sub, ast.Call):
                    t = repo.resolve_call(fi, sub)
                    if t is not None and t.kind == "repo" and t.name.endswith(":_expand_branch"):
                        calls.append((m, sub))
        need(calls, "anchor vanished: the repetition loop of read_cgsmiles no longer calls _expand_branch", fi)
        for m, call in calls:
            if isinstance(m.ast, ast.Assign):
                for t in m.ast.targets:
                    cursor |= _names(t)
            for a in list(call.args) + [k.value for k in call.keywords]:
                feeds |= _names(a)
        # names the arguments depend on inside the repetition body (flow-insensitive closure over the assignments of the body)
        changed = True
        while changed:
            changed = False
            for m in cfg.nodes:
                if m.id not in body or m.kind != "stmt":
                    continue
                st = m.ast
                if _assigned_names(st) & feeds:
                    h = _header(st)
                    new = (_names(h) if h is not None else set())
                    # the guards of the assignment decide the value as well
                    if not new <= feeds:
                        feeds |= new
                        changed = True
        # the conditions under which feeding assignments run
        for m in cfg.nodes:
            if m.id in body and m.kind == "if":
                arm = set()
                for sub in ast.walk(m.ast):
                    if isinstance(sub, ast.stmt) and sub is not m.ast:
                        arm |= _assigned_names(sub)
                if arm & feeds:
                    feeds |= _names(m.ast.test)
        # names that only ever hold a copy of a cursor variable inside the repetition (`base_anchor = prev_node`) are cursor state
        grew = True
        while grew:
            grew = False
            cand = {}
            for m in cfg.nodes:
                if m.id in body and m.kind == "stmt":
                    for v in _assigned_names(m.ast):
                        plain = isinstance(m.ast, ast.Assign) and len(m.ast.targets) == 1 and isinstance(m.ast.targets[0], ast.Name) and \
                            isinstance(m.ast.value, ast.Name) and m.ast.value.id in cursor
                        cand[v] = cand.get(v, True) and plain
            for v, ok in cand.items():
                if ok and v not in cursor:
                    cursor.add(v)
                    grew = True
        carried = loop_carried(fi, rep)
        extra = sorted((carried & feeds) - cursor - set(fi.params))
        # a name that is only formally carried: assigned on every path from the head of the repetition to each of its reads
        if extra:
            for v in extra:
                obs.append(ob_fail(oid, fi, rep.ast, construct="`%s` survives from one repetition into the next and feeds _expand_branch" % v, instance="per-repetition:" + v,
                                   reason="copy k+1 of a multiplied branch is built with state left over from copy k; apart from the cursor (%s) nothing may be "
                                          "carried: the copies are not the same unit written out n times" % ", ".join(sorted(cursor))))
        else:
            obs.append(ob_ok(oid, fi, rep.ast, construct="only the cursor (%s) is handed from one repetition to the next" % ", ".join(sorted(cursor)), instance="per-repetition",
                             reason="every copy of a multiplied branch is produced from the same recipes and the same per-repetition state"))
    return obs


# ---------------------------------------------------------------------------------------------------------------------
# PROV.rdkit-source (C18): the graph is read off the molecule that was handed in
# ---------------------------------------------------------------------------------------------------------------------

_RDKIT_CHANGING = ("AddHs", "RemoveHs", "RemoveAllHs", "MergeQueryHs", "Kekulize", "SanitizeMol", "SetAromaticity", "AssignRadicals", "KekulizeIfPossible",
                   "AdjustQueryProperties", "Cleanup", "Normalize", "Uncharge", "Neutralize")
_RDKIT_COPY = ("Mol", "RWMol", "deepcopy", "copy")


def prov_rdkit_source(repo, tier="quick"):
    """rdkit_to_networkx has to describe the molecule it is given: the atoms, bonds and hydrogen counts are read from that
    molecule, not from a derivative with hydrogens made explicit, bonds kekulised or charges normalised (each of those changes
    hydrogen counts, bond orders or the number of atoms on the way back from RDKit)."""
    oid = "PROV.rdkit-source"
    fi = repo.function("rdkit:rdkit_to_networkx")
    fl = fi.flow
    need(fi.positional_params, "anchor vanished: rdkit_to_networkx has no parameter", fi)
    root = ("param", fi.positional_params[0])
    obs = []
    readers = []
    for call, nid in fl.calls():
        f = call.func
        if isinstance(f, ast.Attribute) and f.attr in ("GetAtoms", "GetBonds"):
            readers.append((call, nid))
        # in-place changes of the argument
        nm = _ext(repo, fi, call) or ""
        last = nm.split(".")[-1]
        if nm.startswith("rdkit") and last in _RDKIT_CHANGING and call.args and fl.canon(call.args[0], nid) == root and \
                not (isinstance(getattr(fi.cfg.nodes[nid], "ast", None), ast.Assign)):
            obs.append(ob_fail(oid, fi, call, construct="%s(<the argument>) in place" % last, instance="in-place:" + last,
                               reason="the caller's molecule is rewritten before it is read: hydrogen counts / bond orders of the graph are those of the rewritten molecule"))
    need(readers, "anchor vanished: rdkit_to_networkx no longer iterates GetAtoms() / GetBonds()", fi)
    # "has coordinates" means: has a conformer.  GetConformer() (id -1) returns the first conformer whatever its id; an explicit id
    # raises ValueError when no conformer carries it, which the surrounding try/except reads as "no coordinates"
    for call, nid in fl.calls():
        if isinstance(call.func, ast.Attribute) and call.func.attr == "GetConformer":
            ids = list(call.args) + [k.value for k in call.keywords]
            default = not ids or (len(ids) == 1 and isinstance(ids[0], ast.UnaryOp) and isinstance(ids[0].op, ast.USub) and
                                  isinstance(ids[0].operand, ast.Constant) and ids[0].operand.value == 1)
            (obs.append(ob_ok(oid, fi, call, construct="GetConformer() (first conformer, whatever its id)", instance="conformer",
                              reason="a molecule with coordinates is recognised as such")) if default else
             obs.append(ob_fail(oid, fi, call, construct="GetConformer(%s)" % ", ".join(ast.unparse(i) for i in ids), instance="conformer",
                                reason="the argument is a conformer id, not a position: a molecule whose only conformer has another id raises ValueError here, "
                                       "which is taken for 'no coordinates': the graph comes back without positions")))
    for call, nid in readers:
        rec = fl.canon(call.func.value, nid)
        what = call.func.attr
        if rec == root:
            obs.append(ob_ok(oid, fi, call, construct="%s() of the argument" % what, instance=what, reason="read off the molecule that was handed in"))
            continue
        cands = [rec]
        if rec[0] == "var":
            cands = [fl.canon(d.value, d.node) if d.kind == "assign" and not d.path and d.value is not None else ("param", d.var) if d.kind == "param" else None
                     for d in [fl.defs[i] for i in rec[2]]]
        verdicts = []
        for c in cands:
            if c == root:
                verdicts.append("ok")
            elif c is not None and c[0] == "call":
                nm = c[2][1] if c[2][0] == "ext" else (c[2][2] if c[2][0] == "attr" else "")
                last = str(nm).split(".")[-1]
                if last in _RDKIT_CHANGING:
                    verdicts.append("bad:" + last)
                elif last in _RDKIT_COPY and c[3] and c[3][0] == root:
                    verdicts.append("ok")
                else:
                    verdicts.append("?")
            else:
                verdicts.append("?")
        bad = [v for v in verdicts if v.startswith("bad:")]
        if bad:
            obs.append(ob_fail(oid, fi, call, construct="%s() of %s(<the argument>)" % (what, bad[0][4:]), instance=what,
                               reason="the graph is read off a derivative of the molecule: with %s the atoms, hydrogen counts or bond orders are no longer those "
                                      "of the molecule that was handed in (a round trip does not give the graph back)" % bad[0][4:]))
        elif all(v == "ok" for v in verdicts):
            obs.append(ob_ok(oid, fi, call, construct="%s() of the argument (or a plain copy)" % what, instance=what, reason="read off the molecule that was handed in"))
        else:
            obs.append(ob_undecided(oid, fi, call, construct="%s() of %s" % (what, ast.unparse(call.func.value)), instance=what,
                                    reason="the molecule that is read is neither the argument nor a known derivative of it"))
    return obs


# ---------------------------------------------------------------------------------------------------------------------
# DET.level-state (C06, C02, C10): nothing but the two graphs is handed from one resolution level to the next
# ---------------------------------------------------------------------------------------------------------------------

_MUTATORS = {"append", "extend", "insert", "add", "update", "setdefault", "pop", "popitem", "remove", "discard", "clear", "sort", "reverse",
             "add_node", "add_nodes_from", "add_edge", "add_edges_from", "remove_node", "remove_nodes_from", "remove_edge", "remove_edges_from", "appendleft"}


def _self_attr(node):
    """`self.x` (possibly subscripted / attribute-extended: self.x[k], self.x.nodes[k]) -> 'x'."""
    while isinstance(node, (ast.Subscript, ast.Attribute)):
        if isinstance(node, ast.Attribute) and isinstance(node.value, ast.Name) and node.value.id == "self":
            return node.attr
        node = node.value
    return None


_PURE_WRITES = {"append", "extend", "insert", "add", "update", "clear", "sort", "reverse", "appendleft", "discard", "remove",
                "add_node", "add_nodes_from", "add_edge", "add_edges_from", "remove_node", "remove_nodes_from", "remove_edge", "remove_edges_from"}


def _attrs_read(methods):
    """Attributes `self.x` whose value is used in one of the methods: every load of self.x that is not just the receiver of a
    call that only writes (self.x.append(v)) or the target of a store (self.x[k] = v)."""
    read = set()
    for fi in methods:
        write_only = set()
        for sub in ast.walk(fi.node):
            if isinstance(sub, ast.Call) and isinstance(sub.func, ast.Attribute) and sub.func.attr in _PURE_WRITES:
                r = sub.func.value
                if isinstance(r, ast.Attribute) and isinstance(r.value, ast.Name) and r.value.id == "self":
                    write_only.add(id(r))
            if isinstance(sub, (ast.Assign, ast.AugAssign, ast.Delete)):
                for t in (sub.targets if isinstance(sub, (ast.Assign, ast.Delete)) else [sub.target]):
                    if isinstance(t, ast.Subscript) and isinstance(t.value, ast.Attribute) and isinstance(t.value.value, ast.Name) and t.value.value.id == "self" \
                            and not isinstance(sub, ast.AugAssign):
                        write_only.add(id(t.value))
        for sub in ast.walk(fi.node):
            if isinstance(sub, ast.Attribute) and isinstance(sub.value, ast.Name) and sub.value.id == "self" and isinstance(sub.ctx, ast.Load) and id(sub) not in write_only:
                read.add(sub.attr)
            if isinstance(sub, ast.AugAssign) and isinstance(sub.target, ast.Attribute) and isinstance(sub.target.value, ast.Name) and sub.target.value.id == "self":
                pass      # a counter that is only ever counted up is not read; a read elsewhere makes it state
    return read


def det_level_state(repo, tier="quick"):
    """resolve() is called once per level on the same MoleculeResolver.  What one level leaves for the next are the two graphs
    (both re-assigned by resolve()) and the level counter.  A container attribute that is created in the constructor, filled
    while a level is resolved and never replaced by resolve() still holds the entries of the previous level when the next one
    starts: node keys start from 0 on every level, so the stale entries name unrelated atoms."""
    oid = "DET.level-state"
    mod = repo.module("resolve")
    cls = "MoleculeResolver"
    methods = [fi for q, fi in mod.functions.items() if q.startswith(cls + ".")]
    need(methods, "anchor vanished: class MoleculeResolver not found in resolve.py")
    res = repo.function("resolve:%s.resolve" % cls)
    reach = repo.reachable([res.fq])
    per_level = [fi for fi in methods if fi.fq in reach]
    # attributes replaced while a level is resolved (plain assignment `self.x = ...` in resolve() or a method it calls)
    replaced = set()
    mutated = {}
    for fi in per_level:
        for sub in ast.walk(fi.node):
            if isinstance(sub, (ast.Assign, ast.AnnAssign)):
                tgs = sub.targets if isinstance(sub, ast.Assign) else [sub.target]
                for t in tgs:
                    for e in (t.elts if isinstance(t, (ast.Tuple, ast.List)) else [t]):
                        if isinstance(e, ast.Attribute) and isinstance(e.value, ast.Name) and e.value.id == "self":
                            replaced.add(e.attr)
                        elif isinstance(e, ast.Subscript):
                            a = _self_attr(e)
                            if a:
                                mutated.setdefault(a, (fi, sub))
            elif isinstance(sub, ast.AugAssign):
                a = _self_attr(sub.target) if not (isinstance(sub.target, ast.Attribute) and isinstance(sub.target.value, ast.Name) and sub.target.value.id == "self") else None
                if a:
                    mutated.setdefault(a, (fi, sub))
            elif isinstance(sub, ast.Delete):
                for t in sub.targets:
                    a = _self_attr(t)
                    if a and isinstance(t, ast.Subscript):
                        mutated.setdefault(a, (fi, sub))
            elif isinstance(sub, ast.Call) and isinstance(sub.func, ast.Attribute) and sub.func.attr in _MUTATORS:
                a = _self_attr(sub.func.value)
                if a:
                    mutated.setdefault(a, (fi, sub))
    obs = []
    read = _attrs_read(per_level)
    for a in sorted(mutated):
        fi, site = mutated[a]
        if a not in read:
            obs.append(ob_ok(oid, fi, site, construct="self.%s is filled in place and never read while a level is resolved" % a, instance=a,
                             reason="a record that nothing of the resolution depends on"))
            continue
        if a in replaced:
            obs.append(ob_ok(oid, fi, site, construct="self.%s is filled in place and replaced while a level is resolved" % a, instance=a,
                             reason="the next level starts from a new object"))
        else:
            obs.append(ob_fail(oid, fi, site, construct="self.%s is filled in place in %s and never replaced by resolve()" % (a, fi.name), instance=a,
                               reason="the entries made while one level is resolved are still there when the next level is resolved on the same object: node keys "
                                      "start from 0 again, so they name unrelated nodes of the next level"))
    need(obs, "anchor vanished: no attribute of MoleculeResolver is modified in place while a level is resolved (self.molecule is expected)")
    return obs


# ---------------------------------------------------------------------------------------------------------------------
# IDX.branch-stop (C04): everything that may stand between a node and the brace that closes its branch is looked past
# ---------------------------------------------------------------------------------------------------------------------

def _regex_source(repo, fi, node, depth=0):
    """The pattern text of a regular expression object or literal used at `node`: literals, re.compile(<text>), names assigned
    once (module level or in the function), entries of a module-level dict of patterns."""
    if depth > 6 or node is None:
        return None
    if isinstance(node, ast.Constant) and isinstance(node.value, str):
        return node.value
    if isinstance(node, ast.Call) and node.args and (
            (isinstance(node.func, ast.Attribute) and node.func.attr == "compile") or (isinstance(node.func, ast.Name) and node.func.id == "compile")):
        return _regex_source(repo, fi, node.args[0], depth + 1)
    tree = getattr(fi.module, "tree", None)

    def assigned(name):
        vals = []
        for sub in ast.walk(fi.node):
            if isinstance(sub, ast.Assign) and any(isinstance(t, ast.Name) and t.id == name for t in sub.targets):
                vals.append(sub.value)
        if not vals and tree is not None:
            for st in tree.body:
                if isinstance(st, ast.Assign) and any(isinstance(t, ast.Name) and t.id == name for t in st.targets):
                    vals.append(st.value)
        return vals[0] if len(vals) == 1 else None
    if isinstance(node, ast.Name):
        return _regex_source(repo, fi, assigned(node.id), depth + 1)
    if isinstance(node, ast.Subscript) and isinstance(node.value, ast.Name) and isinstance(node.slice, ast.Constant):
        table = assigned(node.value.id)
        if isinstance(table, ast.Dict):
            for k, v in zip(table.keys, table.values):
                if isinstance(k, ast.Constant) and k.value == node.slice.value:
                    return _regex_source(repo, fi, v, depth + 1)
    return None


def _class_before_brace(rx):
    """For a pattern of the shape  <class>* \\)  (optionally anchored / grouped) the set of characters of the class; None for any
    other shape."""
    import re
    try:
        from re import _parser as sre_parse
        from re import _constants as C
    except ImportError:                     # Python < 3.11
        import sre_parse
        import sre_constants as C
    try:
        p = list(sre_parse.parse(rx))
    except re.error:
        return None
    # strip groups and leading anchors
    flat = []

    def walk(items):
        for op, av in items:
            if op is C.SUBPATTERN:
                walk(list(av[3]))
            elif op is C.AT:
                continue
            else:
                flat.append((op, av))
    walk(p)
    if len(flat) < 1 or flat[-1] != (C.LITERAL, ord(")")):
        return None
    allowed = set()
    for op, av in flat[:-1]:
        if op not in (C.MAX_REPEAT, C.MIN_REPEAT) or av[0] != 0:
            return None
        inner = list(av[2])
        if len(inner) != 1:
            return None
        iop, iav = inner[0]
        items = iav if iop is C.IN else [(iop, iav)]
        for kop, kav in items:
            if kop is C.LITERAL:
                allowed.add(chr(kav))
            elif kop is C.RANGE:
                allowed |= {chr(c) for c in range(kav[0], kav[1] + 1)}
            elif kop is C.CATEGORY and kav is C.CATEGORY_DIGIT:
                allowed |= set("0123456789")
            elif kop is C.NEGATE or kop is C.ANY:
                return None
            else:
                return None
    return allowed


def idx_branch_stop(repo, tier="quick"):
    """A node is the last one of its branch when the closing brace comes before the next node.  Between the node and that brace the
    grammar allows ring markers (digits, `%nn`), a bond order symbol in front of a marker, and a multiplier `|n`.  A test that
    looks past only some of these leaves the anchor un-popped for the others: the next node is silently attached inside the
    branch."""
    import json
    import os
    from ..report import VERIF
    from .common import guards_of
    oid = "IDX.branch-stop"
    fi = repo.function("read_cgsmiles:read_cgsmiles")
    fl, cfg = fi.flow, fi.cfg
    with open(os.path.join(VERIF, "spec", "grammar.json")) as fh:
        symbols = set(json.load(fh)["order_symbols"])
    required = set("0123456789") | {"%", "|"} | symbols
    pops = [(call, nid) for call, nid in fl.calls()
            if isinstance(call.func, ast.Attribute) and call.func.attr == "pop" and isinstance(call.func.value, ast.Name) and "anchor" in call.func.value.id]
    need(pops, "anchor vanished: no pop of the branch anchor stack in read_cgsmiles", fi)
    obs = []
    for call, nid in pops:
        tests = guards_of(fi, nid)
        names = set()
        exprs = []
        for t, pol, g in tests:
            exprs.append(t)
            names |= _names(t)
        # the values of the guard variables
        values = list(exprs)
        for d in fl.defs:
            if d.var in names and d.kind == "assign" and d.value is not None:
                values.append(d.value)
        verdict = None
        for v in values:
            for sub in ast.walk(v):
                if isinstance(sub, ast.Compare) and len(sub.ops) == 1 and isinstance(sub.ops[0], (ast.Gt, ast.Lt, ast.GtE, ast.LtE)):
                    sides = [sub.left, sub.comparators[0]]
                    for i, sd in enumerate(sides):
                        if isinstance(sd, ast.Name):
                            dv = [d.value for d in fl.defs if d.var == sd.id and d.kind == "assign" and d.value is not None]
                            if len(dv) == 1:
                                sides[i] = dv[0]
                    if all(isinstance(s, ast.Call) and isinstance(s.func, ast.Name) and "find_next" in s.func.id for s in sides):
                        verdict = verdict or ("ok", sub, "position of the next `)` compared with the position of the next `[`")
                if isinstance(sub, ast.Call) and isinstance(sub.func, ast.Attribute) and sub.func.attr in ("match", "fullmatch", "search"):
                    recv = sub.func.value
                    src = None
                    if isinstance(recv, ast.Name) and recv.id == "re" and sub.args:
                        src = _regex_source(repo, fi, sub.args[0])
                    else:
                        src = _regex_source(repo, fi, recv)
                    if src is None:
                        verdict = ("?", sub, "regular expression whose text the rule cannot find")
                        continue
                    allowed = _class_before_brace(src)
                    if allowed is None:
                        verdict = ("?", sub, "regular expression %r is not of the shape <class>*\\)" % src)
                        continue
                    missing = sorted(required - allowed)
                    if missing:
                        verdict = ("bad", sub, "regular expression %r does not look past %s" % (src, " ".join(missing)))
                    else:
                        verdict = verdict if verdict and verdict[0] == "bad" else ("ok", sub, "regular expression %r looks past digits, %%, |, and every order symbol" % src)
        if verdict is None:
            obs.append(ob_undecided(oid, fi, call, construct="guard of %s.pop()" % call.func.value.id, instance="branch-stop",
                                    reason="the test that decides whether a branch ends here is neither the comparison of two scans nor a regular expression"))
        elif verdict[0] == "ok":
            obs.append(ob_ok(oid, fi, verdict[1], construct=verdict[2], instance="branch-stop", reason="ring markers, their order symbols and a multiplier between the node and the brace are looked past"))
        elif verdict[0] == "bad":
            obs.append(ob_fail(oid, fi, verdict[1], construct=verdict[2], instance="branch-stop",
                               reason="a node followed by one of these characters and then `)` is not recognised as the end of its branch: the anchor is not popped and "
                                      "what follows the brace is attached inside the branch, without an error"))
        else:
            obs.append(ob_undecided(oid, fi, verdict[1], construct=verdict[2], instance="branch-stop", reason="outside the forms the rule knows"))
    return obs


# ---------------------------------------------------------------------------------------------------------------------
# EXC.cast-spellings (C14): what is a number is decided by float() and by nothing in front of it
# ---------------------------------------------------------------------------------------------------------------------

_SPELLINGS = ["1", "+1", "-0.25", "0.5", ".5", "1.", "1e-1", "2.5E-1", "-5e-1", "1E3", "0", "-0"]


def exc_cast_spellings(repo, tier="quick"):
    """The reserved numeric keys accept every spelling float() accepts (+1, -0.25, 1e-1 are named by the property).  The cast
    itself is Python's; what the package can get wrong is a test in front of it.  Everything that runs between the decision
    to cast and the cast is executed abstractly on representative spellings: none of them may be rejected or changed."""
    from ..absint import Evaluator, Unsupported, Raised
    oid = "EXC.cast-spellings"
    fi = repo.function("dialects:check_and_cast_types")
    casts = []
    for tr in ast.walk(fi.node):
        if not isinstance(tr, ast.Try):
            continue
        for i, st in enumerate(tr.body):
            for sub in ast.walk(st):
                # `<type held in a local>(<value>)`: the cast by the annotation of the parameter
                if not (isinstance(sub, ast.Call) and len(sub.args) == 1 and isinstance(sub.args[0], ast.Name) and not sub.keywords and
                        isinstance(st, (ast.Assign, ast.Return, ast.Expr))):
                    continue
                if isinstance(sub.func, ast.Name) and fi.flow.is_local(sub.func.id) and repo.resolve_name(fi.module, sub.func.id) is None:
                    casts.append((tr, i, st, sub))
                elif isinstance(sub.func, ast.Attribute) and sub.func.attr == "annotation":
                    casts.append((tr, i, st, sub))
    need(casts, "anchor vanished: check_and_cast_types no longer casts `type(value)` inside a try block and stores the result", fi)
    obs = []
    for tr, i, st, call in casts:
        tname, vname = (call.func.id if isinstance(call.func, ast.Name) else "expected_type"), call.args[0].id
        pre = tr.body[:i]
        # the statements in front of the try block in the same arm (`if not isinstance(value, expected_type): <here> try: ...`)
        for parent in ast.walk(fi.node):
            for field in ("body", "orelse"):
                lst = getattr(parent, field, None)
                if isinstance(lst, list) and tr in lst and isinstance(parent, ast.If):
                    pre = lst[:lst.index(tr)] + pre
        FLOAT = "<class float>"

        def hook(ev, c, env):
            if isinstance(c.func, ast.Name):
                t = repo.resolve_name(fi.module, c.func.id)
                if t is not None and t.kind == "repo" and c.func.id not in env:
                    args = [ev.eval(a, env) for a in c.args]
                    params = t.fi.positional_params
                    sub_ev = Evaluator(call_hook=hook, load_hook=load)
                    res = sub_ev.run_function(t.fi.node, dict(zip(params, args)))
                    if res[0] == "raise":
                        raise Raised(res[1])
                    return True, res[1]
            return False, None

        def load(ev, e, env):
            if isinstance(e, ast.Name) and e.id == "float" and "float" not in env:
                return True, FLOAT
            if isinstance(e, ast.Attribute) and e.attr == "annotation":
                return True, FLOAT
            return False, None
        bad = None
        undecided = None
        for text in _SPELLINGS:
            fn = ast.FunctionDef(name="probe", args=ast.arguments(posonlyargs=[], args=[], kwonlyargs=[], kw_defaults=[], defaults=[]),
                                 body=list(pre) + [ast.Return(value=ast.Name(id=vname, ctx=ast.Load()))], decorator_list=[])
            ev = Evaluator(call_hook=hook, load_hook=load)
            try:
                res = ev.run_function(fn, {vname: text, tname: FLOAT, "expected_type": FLOAT})
            except Unsupported as err:
                undecided = str(err)
                break
            if res[0] == "raise":
                bad = (text, "rejected with %s before float() is asked" % res[1])
                break
            if res[1] != text:
                bad = (text, "changed to %r before the cast" % (res[1],))
                break
        if bad:
            obs.append(ob_fail(oid, fi, pre[0] if pre else st, construct="numeric spelling %r is %s" % bad, instance="spellings",
                               reason="a test in front of the cast is stricter than float(): a documented spelling of a charge or weight raises TypeError (positional and keyword form alike)"))
        elif undecided:
            obs.append(ob_undecided(oid, fi, pre[0] if pre else st, construct="statements in front of the cast", instance="spellings",
                                    reason="outside the evaluator's language: %s" % undecided))
        else:
            obs.append(ob_ok(oid, fi, st, construct="%d spellings reach %s(%s) unchanged" % (len(_SPELLINGS), ast.unparse(call.func), vname), instance="spellings",
                             reason="nothing in front of the cast rejects or rewrites a number"))
    return obs


# ---------------------------------------------------------------------------------------------------------------------
# Round 8 (two cooperating sites / sequences): state that crosses calls
# ---------------------------------------------------------------------------------------------------------------------

class _Shim:
    """a FunctionInfo stand-in for the built-in positive examples: .node and .name"""
    def __init__(self, node):
        self.node = node
        self.name = node.name


def _sampler_state_sites(methods):
    """(method, site, attribute, how) for every store into an attribute of self in the given methods; `how` starts with
    'never-read:' when nothing in these methods reads the attribute."""
    read = _attrs_read(methods)
    out = []
    for fi in methods:
        for sub in ast.walk(fi.node):
            site, attr, how = None, None, None
            if isinstance(sub, (ast.Assign, ast.AnnAssign, ast.AugAssign)):
                tgs = sub.targets if isinstance(sub, ast.Assign) else [sub.target]
                for t in tgs:
                    for e in (t.elts if isinstance(t, (ast.Tuple, ast.List)) else [t]):
                        a = _self_attr(e)
                        if a:
                            site, attr, how = sub, a, "assigned" if isinstance(e, ast.Attribute) and isinstance(e.value, ast.Name) else "written into"
            elif isinstance(sub, ast.Delete):
                for t in sub.targets:
                    a = _self_attr(t)
                    if a:
                        site, attr, how = sub, a, "deleted from"
            elif isinstance(sub, ast.Call) and isinstance(sub.func, ast.Attribute) and sub.func.attr in _MUTATORS - {"add_node", "add_nodes_from", "add_edge", "add_edges_from",
                                                                                                                  "remove_node", "remove_nodes_from", "remove_edge", "remove_edges_from"}:
                a = _self_attr(sub.func.value)
                if a and a not in ("random", "rng"):
                    site, attr, how = sub, a, "modified in place (.%s)" % sub.func.attr
            if site is not None:
                is_read = attr in read
                out.append((fi, site, attr, how if is_read else "never-read:" + how))
    return out


def det_sampler_state(repo, tier="quick"):
    """A MoleculeSampler is built once and sampled from many times.  The only thing one sample() may leave for the next is the
    position of the sampler's own random generator.  An attribute that sample() or a method it calls assigns, counts up or fills
    in place is state of the previous molecule: the second molecule drawn from one sampler then differs from the first one of a
    fresh sampler with the same history (wrong fragment ids, leftover descriptors, shrinking tables)."""
    oid = "DET.sampler-state"
    mod = repo.module("sample")
    cls = "MoleculeSampler"
    smp = repo.function("sample:%s.sample" % cls)
    reach = repo.reachable([smp.fq])
    methods = [fi for q, fi in mod.functions.items() if q.startswith(cls + ".") and fi.fq in reach]
    need(methods, "anchor vanished: MoleculeSampler.sample not found")
    # positive control (the expected number of findings on a correct tree is zero, so the matcher proves itself on every run)
    ctrl = ast.parse("class S:\n    def sample(self):\n        self.count += 1\n        self.seen.append(self.count)\n        return self.seen\n").body[0].body[0]
    hits = _sampler_state_sites([_Shim(ctrl)])
    if {a for _, _, a, _ in hits} != {"count", "seen"}:
        raise AnalysisError("DET.sampler-state: the built-in positive example is not recognised (matcher broken)")
    obs = []
    n = 0
    for fi, site, attr, how in _sampler_state_sites(methods):
        if attr is None:
            continue
        if how.startswith("never-read:"):
            obs.append(ob_ok(oid, fi, site, construct="self.%s is %s in %s and never read while sampling" % (attr, how[11:], fi.name), instance=fi.name + ":" + attr,
                             reason="a record that no later sample depends on"))
        else:
            n += 1
            obs.append(ob_fail(oid, fi, site, construct="self.%s is %s in %s" % (attr, how, fi.name), instance=fi.name + ":" + attr,
                               reason="the sampler keeps something of the molecule it has just built: the next sample() of the same sampler starts from it"))
    if not obs:
        obs.append(ob_ok(oid, smp, construct="sample() and the %d methods it reaches assign no attribute of the sampler" % (len(methods) - 1), instance="sample",
                         reason="only the random generator advances between two molecules"))
    return obs


def own_meta_edges(repo, tier="quick"):
    """The coarse graph of a resolution step is the fine graph the previous step handed to the caller.  A step may attach the
    per-node graphs to its nodes (that is the documented mapping); it must not write into its edges: their attributes (`bonding`
    descriptor pair, `order`) describe the bonds of the previous level and are read again by the caller and by the writer."""
    oid = "OWN.meta-edges"
    mod = repo.module("resolve")
    res = repo.function("resolve:MoleculeResolver.resolve")
    reach = repo.reachable([res.fq])
    methods = [fi for q, fi in mod.functions.items() if q.startswith("MoleculeResolver.") and fi.fq in reach]
    obs = []

    def is_meta_edges(node):
        # self.meta_graph.edges[...]  (possibly one more subscript for the attribute)
        while isinstance(node, ast.Subscript):
            v = node.value
            if isinstance(v, ast.Attribute) and v.attr == "edges" and isinstance(v.value, ast.Attribute) and v.value.attr == "meta_graph" and \
                    isinstance(v.value.value, ast.Name) and v.value.value.id == "self":
                return True
            node = v
        return False
    for fi in methods:
        for sub in ast.walk(fi.node):
            bad = None
            if isinstance(sub, (ast.Assign, ast.AugAssign)):
                for t in (sub.targets if isinstance(sub, ast.Assign) else [sub.target]):
                    if isinstance(t, ast.Subscript) and is_meta_edges(t):
                        bad = "store into self.meta_graph.edges[...]"
            elif isinstance(sub, ast.Call) and isinstance(sub.func, ast.Attribute):
                f = sub.func
                if f.attr in ("update", "setdefault", "pop", "clear") and isinstance(f.value, ast.Subscript) and is_meta_edges(f.value):
                    bad = "self.meta_graph.edges[...].%s(...)" % f.attr
                if f.attr in ("add_edge", "add_edges_from", "remove_edge", "remove_edges_from") and isinstance(f.value, ast.Attribute) and f.value.attr == "meta_graph" and \
                        isinstance(f.value.value, ast.Name) and f.value.value.id == "self":
                    bad = "self.meta_graph.%s(...)" % f.attr
                nm = _ext(repo, fi, sub) or ""
                if nm.endswith("set_edge_attributes") and sub.args and isinstance(sub.args[0], ast.Attribute) and sub.args[0].attr == "meta_graph":
                    bad = "set_edge_attributes(self.meta_graph, ...)"
            if bad:
                obs.append(ob_fail(oid, fi, sub, construct=bad, instance=fi.name, reason="the edges of the coarse graph are the bonds of the previous level (a graph the caller already holds): "
                                   "their descriptor pairs / orders are overwritten by those of the level being resolved"))
    # positive control: the matcher recognises the store it is there to find
    ctrl = ast.parse("def f(self, a, b):\n    self.meta_graph.edges[a, b]['bonding'] = 1\n").body[0].body[0]
    if not (isinstance(ctrl.targets[0], ast.Subscript) and is_meta_edges(ctrl.targets[0])):
        raise AnalysisError("OWN.meta-edges: the built-in positive example is not recognised (matcher broken)")
    if not obs:
        obs.append(ob_ok(oid, res, construct="no method reachable from resolve() writes an edge of self.meta_graph", instance="resolve",
                         reason="the bonds of the previous level stay as they were handed out"))
    return obs


# ---------------------------------------------------------------------------------------------------------------------
# Round 9
# ---------------------------------------------------------------------------------------------------------------------

def prov_fragment_text(repo, tier="quick"):
    """fragment_iter splits a definition into its clean text and the descriptors / marks / annotations taken out of it.  The
    fragment readers have to be handed the *clean* text: the raw definition still contains the descriptor tokens, and for a
    coarse fragment `read_cgsmiles` skips them silently, except that an order symbol written for a descriptor becomes a bond
    order and a descriptor at the end of a branch hides the closing brace."""
    from .common import is_call
    oid = "PROV.fragment-text"
    fi = repo.function("read_fragments:fragment_iter")
    fl = fi.flow
    obs = []
    strips = fl.calls_to("read_fragments:strip_bonding_descriptors")
    need(strips, "anchor vanished: fragment_iter no longer calls strip_bonding_descriptors", fi)
    readers = []
    for fq in ("pysmiles_utils:read_fragment_smiles", "cgsmiles_utils:read_fragment_cgsmiles"):
        for call, nid, _ in fl.calls_to(fq):
            readers.append((fq, call, nid))
    need(len(readers) >= 2, "anchor vanished: fragment_iter no longer calls both fragment readers", fi)
    for fq, call, nid in readers:
        a0 = call.args[0] if call.args else next((k.value for k in call.keywords if k.arg in ("smiles_str", "cgsmiles_str")), None)
        t = fl.canon(a0, nid) if a0 is not None else None
        ok = False
        if t is not None:
            cands = [t]
            if t[0] == "var" and len(t) == 3:
                cands = [fl.canon(d.value, d.node) for d in [fl.defs[i] for i in t[2]] if d.kind == "assign" and d.value is not None]
                # tuple unpacking: the definition carries a path into the call's result
                for d in [fl.defs[i] for i in t[2]]:
                    if d.kind == "assign" and d.value is not None and d.path == (0,) and is_call(fl.canon(d.value, d.node), "strip_bonding_descriptors"):
                        ok = True
            for c in cands:
                if c[0] == "sub" and c[2] == ("const", 0) and is_call(c[1], "strip_bonding_descriptors"):
                    ok = True
        name = fq.split(":")[1]
        (obs.append(ob_ok(oid, fi, call, construct="%s(<clean text of strip_bonding_descriptors>, ...)" % name, instance=name, reason="the reader sees the text without descriptors")) if ok else
         obs.append(ob_fail(oid, fi, call, construct="%s(%s, ...)" % (name, ast.unparse(a0) if a0 is not None else "?"), instance=name,
                            reason="the reader is not handed the clean text returned by strip_bonding_descriptors: descriptor tokens (and the order symbols written for them) "
                                   "are read as part of the fragment graph")))
    return obs


def key_parity_of_distance(repo, tier="quick"):
    """The target distance of a node pair depends on whether the number of bonds between them is odd or even.  The test has to
    be made on the hop count (the value of the shortest-path table), never on a node key: with the resolver's integer keys a
    test on the key runs and merely bends the layout, with any other labelling (atom names, tuples) it raises."""
    from .common import elem_of
    oid = "KEY.K3-layout"
    fi = repo.function("graph_layout:vespr_layout")
    fl, cfg = fi.flow, fi.cfg
    obs = []
    for sub in ast.walk(fi.node):
        if isinstance(sub, ast.BinOp) and isinstance(sub.op, ast.Mod) and isinstance(sub.right, ast.Constant) and sub.right.value == 2 and id(sub) in cfg.owner:
            t = fl.canon(sub.left, cfg.owner[id(sub)])
            e = elem_of(t)
            if e and e[0] == "key":
                obs.append(ob_fail(oid, fi, sub, construct="parity of a node key: %s" % ast.unparse(sub), instance="parity",
                                   reason="odd / even is asked of the node label, not of the number of bonds: wrong target distances for integer labels, TypeError for any other"))
            elif e and e[0] == "value":
                obs.append(ob_ok(oid, fi, sub, construct="parity of the hop count: %s" % ast.unparse(sub), instance="parity", reason="odd / even number of bonds between the pair"))
            else:
                obs.append(ob_undecided(oid, fi, sub, construct="parity test %s" % ast.unparse(sub), instance="parity", reason="the rule cannot tell what the operand is"))
    if not obs:
        # the formula moved into a helper: the parity is asked of the helper's parameter, the question moves to its call sites
        for call, nid in fl.calls():
            t = repo.resolve_call(fi, call)
            if t is None or t.kind != "repo" or t.fi is None:
                continue
            hp = t.fi.positional_params
            tested = set()
            for sub in ast.walk(t.fi.node):
                if isinstance(sub, ast.BinOp) and isinstance(sub.op, ast.Mod) and isinstance(sub.right, ast.Constant) and sub.right.value == 2 and \
                        isinstance(sub.left, ast.Name) and sub.left.id in hp:
                    tested.add(sub.left.id)
            for pname in tested:
                pos = hp.index(pname)
                a = call.args[pos] if pos < len(call.args) else next((k.value for k in call.keywords if k.arg == pname), None)
                if a is None:
                    continue
                e = elem_of(fl.canon(a, nid))
                if e and e[0] == "key":
                    obs.append(ob_fail(oid, fi, call, construct="parity of a node key: %s(%s)" % (t.fi.name, ast.unparse(a)), instance="parity",
                                       reason="odd / even is asked of the node label, not of the number of bonds"))
                elif e and e[0] == "value":
                    obs.append(ob_ok(oid, fi, call, construct="parity of the hop count: %s(%s)" % (t.fi.name, ast.unparse(a)), instance="parity",
                                     reason="odd / even number of bonds between the pair"))
                else:
                    obs.append(ob_undecided(oid, fi, call, construct="%s(%s)" % (t.fi.name, ast.unparse(a)), instance="parity", reason="the rule cannot tell what the argument is"))
    # no odd / even test in vespr_layout or in a helper it calls directly (a table of distances, a closed formula): nothing to
    # ask; the other KEY.K3 obligations carry the floor of this family
    return obs


def prov_valence_choice(repo, tier="quick"):
    """Hydrogens are filled up to "the smallest standard valence of the element that is not below the bonds the atom already
    has" (pysmiles' fill_valence).  A local refill that asks pysmiles for the valences of the element and takes the *first*
    one is right for C, N, O and the halogens and wrong for every hypervalent S or P that still lacks a hydrogen."""
    oid = "PROV.valence-choice"
    mod = repo.module("pysmiles_utils")
    obs = []
    for q, fi in mod.functions.items():
        fl = fi.flow
        held = set()
        for call, nid in fl.calls():
            nm = _ext(repo, fi, call) or ""
            if nm.endswith("smiles_helper.valence") or nm.endswith(".valence"):
                st = fi.cfg.nodes[nid].ast
                if isinstance(st, ast.Assign) and len(st.targets) == 1 and isinstance(st.targets[0], ast.Name):
                    held.add(st.targets[0].id)
                for sub in ast.walk(fi.node):
                    if isinstance(sub, ast.Subscript) and sub.value is call and _int_literal(sub.slice) and ast.literal_eval(sub.slice) == 0:
                        obs.append(ob_fail(oid, fi, sub, construct="valence(...)[0]", instance=fi.name, reason="the first valence of the element, not the smallest one that fits the bonds present"))
        for sub in ast.walk(fi.node):
            if isinstance(sub, ast.Subscript) and isinstance(sub.value, ast.Name) and sub.value.id in held and isinstance(sub.ctx, ast.Load) and \
                    _int_literal(sub.slice) and ast.literal_eval(sub.slice) == 0:
                obs.append(ob_fail(oid, fi, sub, construct="%s[0] with %s = valence(...)" % (sub.value.id, sub.value.id), instance=fi.name,
                                   reason="the first valence of the element is taken, not the smallest one that is not below the bonds the atom has: a sulfonyl or phosphonate "
                                          "atom with a free descriptor gets no hydrogen (bond-order sum 5 instead of 6)"))
    return obs


def key_edge_orientation(repo, tier="quick"):
    """The edges the DFS does not cross are written as ring bonds.  "Not crossed" is a statement about unordered pairs: an edge
    (u, v) of the molecule and the tree edge (v, u) are the same bond.  A membership test of an edge tuple in the edge view of a
    *directed* traversal result (nx.dfs_tree / bfs_tree, or a list of nx.dfs_edges) is sensitive to the orientation: a bond the
    DFS crossed from its second end is taken for a ring bond and written twice."""
    oid = "KEY.edge-orientation"
    fi = repo.function("write_cgsmiles:write_graph")
    fn = fi.node
    directed = set()
    for sub in ast.walk(fn):
        if isinstance(sub, ast.Assign) and len(sub.targets) == 1 and isinstance(sub.targets[0], ast.Name):
            for c in ast.walk(sub.value):
                if isinstance(c, ast.Call):
                    nm = _ext(repo, fi, c) or ""
                    if nm.split(".")[-1] in ("dfs_tree", "bfs_tree", "dfs_edges", "bfs_edges", "dfs_labeled_edges"):
                        # wrapped into unordered pairs on the spot?  set(map(frozenset, ...)) / {frozenset(e) for e in ...}
                        if "frozenset" not in ast.unparse(sub.value):
                            directed.add(sub.targets[0].id)
    obs = []
    for sub in ast.walk(fn):
        if isinstance(sub, ast.Compare) and len(sub.ops) == 1 and isinstance(sub.ops[0], (ast.In, ast.NotIn)):
            right = sub.comparators[0]
            base = right.value if isinstance(right, ast.Attribute) and right.attr == "edges" else right
            if isinstance(base, ast.Name) and base.id in directed and "frozenset" not in ast.unparse(sub.left) and "sorted" not in ast.unparse(sub.left):
                obs.append(ob_fail(oid, fi, sub, construct=ast.unparse(sub), instance="ring-edges",
                                   reason="an edge of the molecule is looked up in the edges of a directed traversal result: the answer depends on which end the "
                                          "DFS entered the bond from, a tree edge crossed backwards is written as a ring bond as well"))
    return obs
