"""OWN - ownership / effects: templates and mutable defaults are read-only."""
import ast

from .. import AnalysisError
from ..effects import Effects, is_root
from ..flow import show
from ..report import ob_ok, ob_fail
from .common import need, method_call

SELF = ("param", "self")
MUTABLE_CALLS = {"list", "dict", "set", "defaultdict", "OrderedDict", "deque"}
SKIP_MODULES = {"drawing", "drawing_utils", "graph_layout", "graph_layout_utils", "linalg_functions"}


def effects(repo):
    e = repo.__dict__.get("_effects")
    if e is None:
        e = repo.__dict__["_effects"] = Effects(repo)
    return e


RESOLVER_SEEDS = [("resolve:MoleculeResolver.__init__", "fragment_dicts"),
                  ("resolve:MoleculeResolver.resolve_disconnected_molecule", "fragment_dict"),
                  ("resolve:MoleculeResolver.from_fragment_dicts", "fragment_dicts")]
RESOLVER_ATTR = ("attr", SELF, "fragment_dicts")
SAMPLER_SEEDS = [("sample:MoleculeSampler.__init__", "fragment_dict")]
SAMPLER_ATTR = ("attr", SELF, "fragment_dict")


def _taint(repo, E, seeds, attr_root, cls_prefix):
    """{(fq, param): fresh} - parameters that may receive (parts of) a fragment template; fresh is
    the number of levels for which the received object is a copy."""
    tainted = {s: 0 for s in seeds}
    cls_funcs = {fi.fq for fi in repo.all_functions() if fi.fq.startswith(cls_prefix)}
    changed = True
    while changed:
        changed = False
        for fi in repo.all_functions():
            roots = {("param", p): k for (fq, p), k in tainted.items() if fq == fi.fq}
            if fi.fq in cls_funcs:
                roots[attr_root] = 0
            if not roots:
                continue
            S = E.sharing(fi)
            for call, nid in fi.flow.calls():
                tgt = repo.resolve_call(fi, call)
                if tgt.kind not in ("repo", "class") or tgt.fi is None:
                    continue
                ct = fi.flow.canon(call, nid)
                callee = tgt.fi
                cpos = callee.positional_params
                if callee.cls and not callee.is_staticmethod:
                    cpos = cpos[1:]
                amap = {}
                for i, a in enumerate(ct[3]):
                    if i < len(cpos):
                        amap[cpos[i]] = a
                for k, a in ct[4]:
                    amap[k] = a
                for pname, a in amap.items():
                    for r, (d, fr) in S.share(a).items():
                        if r in roots:
                            k = max(fr, roots[r])
                            cur = tainted.get((callee.fq, pname))
                            if cur is None or k < cur:
                                tainted[(callee.fq, pname)] = k
                                changed = True
    return tainted


def own_templates(repo, which="resolver", tier="quick"):
    E = effects(repo)
    if which == "resolver":
        seeds, attr_root, prefix, oid = RESOLVER_SEEDS, RESOLVER_ATTR, "resolve:MoleculeResolver.", "OWN.templates-resolver"
    else:
        seeds, attr_root, prefix, oid = SAMPLER_SEEDS, SAMPLER_ATTR, "sample:MoleculeSampler.", "OWN.templates-sampler"
    for fq, p in seeds:
        fi = repo.function(fq)
        need(p in fi.params, "anchor vanished: %s has no parameter %s" % (fq, p), fi)
    tainted = _taint(repo, E, seeds, attr_root, prefix)
    obs = []
    n_checked = 0
    seedset = set(seeds)
    for fi in repo.all_functions():
        roots = [("param", p) for (fq, p) in sorted(tainted) if fq == fi.fq and ((fq, p) in seedset or tainted[(fq, p)] == 0)]
        if fi.fq.startswith(prefix):
            roots.append(attr_root)
        for root in roots:
            n_checked += 1
            items = E.effects_on(fi, root)
            if items:
                for dist, origin in items[:4]:
                    obs.append(ob_fail(oid, fi, construct="%s mutated at distance %d via %s" % (show(root), dist, origin.split(" ", 1)[1] if " " in origin else origin),
                                       instance=fi.qualname + ":" + show(root),
                                       reason="a fragment template (or the library holding it) can be modified in place: %s" % origin))
            else:
                obs.append(ob_ok(oid, fi, construct="%s is read-only in %s" % (show(root), fi.qualname), instance=fi.qualname + ":" + show(root),
                                 reason="no structural, attribute or value mutation reaches it, directly or through callees"))
    # flows of shared values out of a template into an instance
    m2_keys = {}
    reach = repo.reachable([fi.fq for fi in repo.all_functions() if fi.fq.startswith(prefix)])
    for fi, kind, key, g, node in E.m2_sites:
        if fi.fq in reach:
            m2_keys.setdefault(kind, []).append((key, fi, node))
    for fq, flows in E.flows.items():
        fi = repo.function(fq)
        for f in flows:
            root = f["root"]
            is_tmpl = (root[0] == "param" and tainted.get((fq, root[1])) == 0) or (root == attr_root and fq.startswith(prefix))
            if not is_tmpl:
                continue
            conflicts = m2_keys.get(f["kind"], [])
            if f["keys"] is not None:
                conflicts = [c for c in conflicts if c[0] == ("const", f["keys"]) or c[0][0] != "const"]
            if conflicts:
                key, mfi, mnode = conflicts[0]
                obs.append(ob_fail(oid, fi, f["site"], construct="%s attribute values of template %s stored into %s without a deep copy" % (f["kind"], show(root), show(f["dest"])),
                                   instance="flow:" + fi.qualname + ":" + f["kind"],
                                   reason="%s attribute values are shared with the template and %s mutates %s values in place (%s)"
                                   % (f["kind"], mfi.qualname, show(key), mfi.where(mnode))))
            else:
                obs.append(ob_ok(oid, fi, f["site"], construct="%s attribute values of template %s shared into %s" % (f["kind"], show(root), show(f["dest"])),
                                 instance="flow:" + fi.qualname + ":" + f["kind"],
                                 reason="shallow copy cannot leak: no in-place mutation of %s attribute values is reachable" % f["kind"]))
    if n_checked < 3:
        raise AnalysisError("ownership rule matched only %d template positions" % n_checked)
    return obs


def own_mutable_defaults(repo, tier="quick", only_modules=None, floor=20):
    E = effects(repo)
    obs = []
    oid = "OWN.mutable-defaults"
    n = n_scanned = 0
    for fi in repo.all_functions():
        if only_modules is None and fi.module.name in SKIP_MODULES:
            continue
        if only_modules is not None and fi.module.name not in only_modules:
            continue
        for p, d in fi.defaults().items():
            n_scanned += 1
            mutable = isinstance(d, (ast.List, ast.Dict, ast.Set, ast.ListComp, ast.DictComp, ast.SetComp)) or \
                (isinstance(d, ast.Call) and isinstance(d.func, ast.Name) and d.func.id in MUTABLE_CALLS)
            if not mutable:
                continue
            n += 1
            root = ("param", p)
            items = E.effects_on(fi, root)
            problems = ["mutated via %s" % origin for _, origin in items[:3]]
            S = E.sharing(fi)
            fl = fi.flow
            # stored on self / returned while still the default object
            for nd in fi.cfg.nodes:
                st = nd.ast
                if nd.kind == "stmt" and isinstance(st, ast.Assign):
                    for t in st.targets:
                        if isinstance(t, ast.Attribute):
                            sh = S.share(fl.canon(st.value, nd.id))
                            if sh.get(root) == (0, 0):
                                problems.append("stored as %s (line %d)" % (ast.unparse(t), st.lineno))
                if nd.kind == "stmt" and isinstance(st, ast.Return) and st.value is not None:
                    sh = S.share(fl.canon(st.value, nd.id))
                    if sh.get(root) == (0, 0):
                        problems.append("returned to the caller (line %d)" % st.lineno)
            if problems:
                obs.append(ob_fail(oid, fi, construct="default of %s" % p, instance=fi.qualname + ":" + p,
                                   reason="mutable default argument is not read-only: " + "; ".join(problems)))
            else:
                obs.append(ob_ok(oid, fi, construct="default of %s" % p, instance=fi.qualname + ":" + p,
                                 reason="mutable default is only read (no mutating method, store, del, augmented assignment, escape)"))
    # the floor is on what was looked at (parameters with a default value), not on how many of them are mutable objects:
    # replacing a mutable default by None leaves fewer of them and is not a reason to doubt the scan
    if n_scanned < floor:
        raise AnalysisError("mutable-default scan saw only %d parameters with a default value (floor %d)" % (n_scanned, floor))
    obs.append(ob_ok(oid, None, construct="%d parameters with a default value scanned, %d of them mutable objects" % (n_scanned, n), instance="scan",
                     reason="every default value of the scanned modules was classified"))
    return obs
