"""Ring-marker protocol of the graph reader, judged by abstract execution of every place that
opens / closes a ring (inline handler or helper function), independent of how it is written."""
import ast

from .. import AnalysisError
from ..absint import Evaluator, Unsupported, Raised
from ..flow import show
from ..report import ob_ok, ob_fail, ob_undecided
from .common import enclosing_loops, need, strip_not, if_arms, _arm_nodes, guards_of


class Tok(str):
    """opaque symbolic value"""


class RingModel:
    def __init__(self, repo):
        self.repo = repo
        fi = self.fi = repo.function("read_cgsmiles:read_cgsmiles")
        self.fl, self.cfg = fi.flow, fi.cfg
        self.table = self._find_table()
        self.sites = self._find_sites()

    # -- the open-ring table: an empty-dict local whose non-emptiness raises SyntaxError before the return
    def _find_table(self):
        fi, fl, cfg = self.fi, self.fl, self.cfg
        def _empty_dict(d):
            if (isinstance(d.value, ast.Dict) and not d.value.keys) or (isinstance(d.value, ast.Call) and ast.unparse(d.value) == "dict()"):
                return True
            try:
                t = fl.canon(d.value, d.node)
            except Exception:
                return False
            return t == ("dict", ()) or (t[0] == "call" and t[2] == ("builtin", "dict") and not t[3] and not t[4])
        empties = {d.var for d in fl.defs if d.kind == "assign" and not d.path and d.value is not None and _empty_dict(d)}
        cands = []
        exits = [p for p, lab in cfg.pred[cfg.exit]]
        for g in cfg.nodes:
            if g.kind != "if" or not all(cfg.dominates(g.id, p) for p in exits):
                continue
            names = {s.id for s in ast.walk(g.ast.test) if isinstance(s, ast.Name)} - {"len"}
            if len(names) == 1 and names <= empties:
                raises = any(isinstance(x, ast.Raise) for st in g.ast.body + g.ast.orelse for x in ast.walk(st))
                if raises:
                    cands.append(names.pop())
        # fall back: dict that is both subscript-stored and deleted / popped in the function
        if not cands:
            for name in sorted(empties):
                stores = any(isinstance(s, ast.Subscript) and isinstance(s.ctx, (ast.Store, ast.Del)) and isinstance(s.value, ast.Name) and s.value.id == name
                             for s in ast.walk(fi.node))
                if stores:
                    cands.append(name)
        if len(set(cands)) != 1:
            raise AnalysisError("cannot identify the open-ring table in read_cgsmiles (candidates: %s)" % sorted(set(cands)), fi.where())
        return cands[0]

    def _find_sites(self):
        """completion sites: inline `if marker in table` statements, and calls that hand the table to a helper"""
        fi, fl, cfg = self.fi, self.fl, self.cfg
        sites = []
        for n in cfg.nodes:
            if n.kind == "if":
                test, _ = strip_not(n.ast.test, True)
                if isinstance(test, ast.Compare) and len(test.ops) == 1 and isinstance(test.ops[0], (ast.In, ast.NotIn)) and \
                        isinstance(test.comparators[0], ast.Name) and test.comparators[0].id == self.table:
                    sites.append({"kind": "inline", "node": n, "ast": n.ast, "marker": test.left})
        for call, nid in fl.calls():
            t = self.repo.resolve_call(fi, call)
            if t.kind == "repo" and any(isinstance(a, ast.Name) and a.id == self.table for a in call.args + [k.value for k in call.keywords]):
                sites.append({"kind": "call", "node": cfg.nodes[nid], "ast": call, "helper": t.fi})
        return sites

    # -- abstract execution of one site in one scenario
    def run_site(self, site, scenario, MK=7):
        """scenario 'open' (marker not in table) or 'close' (marker in table with [N0, O0]).
        Returns (table dict, list of lists that were appended to, env) or raises Unsupported."""
        table = {} if scenario == "open" else {MK: [Tok("N0"), Tok("O0")]}
        lists = {}

        def mk_load(table_names, marker_src, list_names):
            def load(ev, e, env):
                if isinstance(e, ast.Name) and e.id not in env:
                    if e.id in table_names:
                        return True, table
                    if e.id in list_names:
                        return True, lists.setdefault(e.id, [])
                    return True, Tok(e.id)
                return False, None
            return load

        def call_hook(ev, call, env):
            # int(marker-ish) -> the marker
            if isinstance(call.func, ast.Name) and call.func.id == "int":
                return True, MK
            return False, None
        if site["kind"] == "inline":
            st = site["ast"]
            # conditions on the marker that enclose the completion (e.g. `if not marker: skip`) belong to it: the outermost
            # enclosing `if` inside the scan loop whose test mentions the marker is what is executed
            mname = site["marker"].id if isinstance(site["marker"], ast.Name) else None
            if mname:
                chain = []

                def find(n, path):
                    if n is site["ast"]:
                        chain.extend(path)
                        return True
                    for c in ast.iter_child_nodes(n):
                        if isinstance(c, (ast.FunctionDef, ast.Lambda)):
                            continue
                        if find(c, path + ([n] if isinstance(n, ast.If) else [])):
                            return True
                    return False
                find(self.fi.node, [])
                for anc in chain:
                    if any(isinstance(x, ast.Name) and x.id == mname for x in ast.walk(anc.test)):
                        st = anc
                        break
            list_names = {x.func.value.id for x in ast.walk(st) if isinstance(x, ast.Call) and isinstance(x.func, ast.Attribute) and x.func.attr in ("append", "extend")
                          and isinstance(x.func.value, ast.Name)}
            marker_src = ast.unparse(site["marker"])
            env = {}
            if isinstance(site["marker"], ast.Name):
                env[site["marker"].id] = MK
            ev = Evaluator(load_hook=mk_load({self.table}, marker_src, list_names), call_hook=call_hook)
            ev.block([st], env)
            return table, lists, env, {}
        # helper call: bind parameters from the call's arguments; try every non-table, non-list parameter as the marker
        call, helper = site["ast"], site["helper"]
        params = helper.positional_params
        argmap = {}
        for i, a in enumerate(call.args):
            if i < len(params):
                argmap[params[i]] = a
        for k in call.keywords:
            if k.arg:
                argmap[k.arg] = k.value
        list_params = {x.func.value.id for x in ast.walk(helper.node) if isinstance(x, ast.Call) and isinstance(x.func, ast.Attribute)
                       and x.func.attr in ("append", "extend") and isinstance(x.func.value, ast.Name) and x.func.value.id in params}
        table_params = {p for p, a in argmap.items() if isinstance(a, ast.Name) and a.id == self.table}
        results = []
        for marker_param in [p for p in params if p not in table_params and p not in list_params]:
            tbl = {} if scenario == "open" else {MK: [Tok("N0"), Tok("O0")]}
            lsts = {}
            env = {}
            for p in params:
                if p in table_params:
                    env[p] = tbl
                elif p in list_params:
                    env[p] = lsts.setdefault(p, [])
                elif p == marker_param:
                    env[p] = MK
                else:
                    a = argmap.get(p)
                    env[p] = Tok(ast.unparse(a)) if a is not None else Tok("default:" + p)
            ev = Evaluator(call_hook=call_hook)
            try:
                ev.run_function(helper.node, env)
            except Unsupported:
                continue
            results.append((marker_param, tbl, lsts, env))
        return results

    def judge_site(self, site):
        """Returns (ok, reason, facts); judged for an ordinary ring index and for ring index 0 (a legal index that is falsy)."""
        ok7, why7, facts = self._judge_site(site, 7)
        if ok7 is not True:
            return ok7, why7, facts
        ok0, why0, _ = self._judge_site(site, 0)
        if ok0 is not True:
            return ok0, "for ring index 0: " + why0, facts
        return True, "", facts

    def _judge_site(self, site, MK):
        facts = {}
        problems = []
        try:
            if site["kind"] == "inline":
                t_open, l_open, _, _ = self.run_site(site, "open", MK)
                t_close, l_close, _, _ = self.run_site(site, "close", MK)
                cands = [(None, t_open, l_open, t_close, l_close)]
            else:
                ro = self.run_site(site, "open", MK)
                rc = self.run_site(site, "close", MK)
                cands = []
                for (mp, t_o, l_o, _e) in ro:
                    for (mp2, t_c, l_c, _e2) in rc:
                        if mp == mp2:
                            cands.append((mp, t_o, l_o, t_c, l_c))
                if not cands:
                    return None, "the helper %s is outside the block language" % site["helper"].name, facts
        except Unsupported as err:
            return None, "outside the block language: %s" % err, facts
        except Raised as r:
            return False, "raises %s while opening / closing a ring" % r.exc_name, facts
        best = None
        for mp, t_o, l_o, t_c, l_c in cands:
            p = []
            # open: table gets exactly one entry [current, pending order], nothing recorded
            vals = list(t_o.values())
            if len(t_o) != 1 or not (isinstance(vals[0], (list, tuple)) and len(vals[0]) == 2 and all(isinstance(x, Tok) for x in vals[0])):
                p.append("opening a ring does not store [current node, pending order] under the marker (table after opening: %r)" % (t_o,))
            elif any(l for l in l_o.values()):
                p.append("opening a ring records an edge")
            # close: entry removed, exactly one record (current, N0, O0)
            recs = [x for l in l_c.values() for x in l]
            if t_c:
                p.append("closing a ring leaves its entry in the open-ring table (a closed ring is reported as dangling / can be closed twice)")
            if len(recs) != 1 or not (isinstance(recs[0], (tuple, list)) and len(recs[0]) == 3 and recs[0][1] == "N0" and recs[0][2] == "O0"
                                      and isinstance(recs[0][0], Tok) and recs[0][0] not in ("N0", "O0")):
                p.append("closing a ring does not record (closing node, opening node, order written at the opening marker): %r" % (recs,))
            if not p:
                facts["current"] = str(vals[0][0])
                facts["order"] = str(vals[0][1])
                if isinstance(recs[0][0], Tok) and str(recs[0][0]) != facts["current"]:
                    p.append("the node stored on opening (%s) and the node recorded on closing (%s) are different variables" % (facts["current"], recs[0][0]))
            if best is None or len(p) < len(best):
                best = p
            if not p:
                break
        if best:
            return False, "; ".join(best), facts
        return True, "", facts


def ring_protocol(repo, tier="quick"):
    """C04/C20: every place that opens or closes a ring follows the protocol
    open: table[marker] = [current node, pending ring order];  close: record (current, opening node, stored order), delete entry;
    and after it the pending ring order is reset before the scan continues."""
    M = RingModel(repo)
    fi, fl, cfg = M.fi, M.fl, M.cfg
    obs = []
    oid = "SIB.S2-ring-handlers"
    if len(M.sites) < 2:
        raise AnalysisError("expected two ring-marker completion sites (single digit and %%nn) using the table '%s', found %d" % (M.table, len(M.sites)), fi.where())
    order_vars = set()
    for site in M.sites:
        ok, why, facts = M.judge_site(site)
        label = "inline" if site["kind"] == "inline" else "helper " + site["helper"].name
        if ok is None:
            obs.append(ob_undecided(oid, fi, site["ast"], construct="ring open/close (%s)" % label, instance="protocol", reason=why))
        elif ok:
            obs.append(ob_ok(oid, fi, site["ast"], construct="ring open/close (%s): open stores [current, pending order]; close records (current, opener, stored order) and deletes the entry" % label,
                             instance="protocol", reason="the table is empty exactly when no ring is open; ring bonds join opener and closer with the opener's order"))
            if "order" in facts:
                ov = facts["order"]
                has_symbol_def = any(d.var == ov and d.kind == "assign" and isinstance(d.value, ast.Subscript) and isinstance(d.value.slice, ast.Name)
                                     for d in fl.defs)
                if ov in fl.locals and not has_symbol_def:
                    obs.append(ob_fail(oid, fi, site["ast"], construct="ring opened with order %s" % ov, instance="protocol:order",
                                       reason="the order stored for an opening marker is %s, which is never set from a bond order symbol: a symbol written in front of the marker is lost" % ov))
                else:
                    order_vars.add(ov)
        else:
            obs.append(ob_fail(oid, fi, site["ast"], construct="ring open/close (%s)" % label, instance="protocol", reason=why))
    # writers of the table: only the sites (inline arms or helpers)
    allowed = set()
    for site in M.sites:
        if site["kind"] == "inline":
            allowed |= _arm_nodes(cfg, site["node"], "T") | _arm_nodes(cfg, site["node"], "F")
    stray = []
    for n in cfg.nodes:
        if n.kind == "stmt" and n.id not in allowed:
            for sub in ast.walk(n.ast):
                if isinstance(sub, ast.Subscript) and isinstance(sub.ctx, (ast.Store, ast.Del)) and isinstance(sub.value, ast.Name) and sub.value.id == M.table:
                    stray.append(n)
                if isinstance(sub, ast.Call) and isinstance(sub.func, ast.Attribute) and isinstance(sub.func.value, ast.Name) and sub.func.value.id == M.table and \
                        sub.func.attr in ("pop", "clear", "update", "setdefault", "popitem"):
                    stray.append(n)
    (obs.append(ob_fail(oid, fi, stray[0].ast, construct=ast.unparse(stray[0].ast)[:80], instance="writers",
                        reason="the open-ring table is written outside the ring open/close sites")) if stray else
     obs.append(ob_ok(oid, fi, construct="writers of the open-ring table", instance="writers", reason="only the open/close sites write it")))
    # reset of the pending order after every site, and per node before the scan
    oid2 = "PROV.ring-edges"
    # the pending order variable in read_cgsmiles: for helper sites the token is the argument's source text
    pend = {v for v in order_vars if v in fl.locals}
    if len(pend) != 1:
        obs.append(ob_undecided(oid2, fi, construct="pending ring order variable", instance="reset", reason="cannot identify it (candidates %s)" % sorted(order_vars)))
        return obs
    pend = pend.pop()
    defs = [d for d in fl.defs if d.var == pend and d.kind == "assign"]
    from_table = [d for d in defs if isinstance(d.value, ast.Subscript) and isinstance(d.value.slice, ast.Name)]
    resets = [d for d in defs if d not in from_table]
    (obs.append(ob_ok(oid2, fi, from_table[0].ast, construct="symbol: pending ring order = table[token]", instance="symbol", reason="a symbol in front of a marker is that ring bond's order")) if from_table else
     obs.append(ob_fail(oid2, fi, construct="no `pending ring order = table[token]`", instance="symbol", reason="ring bond order symbols are not read")))
    loop = _scan_loop(M)
    if loop is None:
        obs.append(ob_undecided(oid2, fi, construct="marker scan loop", instance="reset", reason="ring sites are not inside a scan loop"))
        return obs
    # between two completions the pending order is reset on every path: from a site, no site (itself included) is reachable
    # without passing a reset (the one after the marker, or the per-node one in front of the next scan)
    reset_nodes = {d.node for d in resets}
    site_nodes = {s_["node"].id for s_ in M.sites}
    for site in M.sites:
        reach = cfg.reachable_from(site["node"].id, avoid=reset_nodes, edge_filter=lambda a, b, l: l != "exc")
        ok = bool(reset_nodes) and not (reach & site_nodes)
        (obs.append(ob_ok(oid2, fi, site["ast"], construct="after a marker: pending ring order = default", instance="reset", reason="the next marker does not inherit this one's order")) if ok else
         obs.append(ob_fail(oid2, fi, site["ast"], construct="pending ring order not reset after a marker", instance="reset",
                            reason="a second ring marker on the same node inherits the order written for the first")))
    outer = enclosing_loops(fi, loop.id)
    if outer:
        head = outer[0].id
        per_node = {d.node for d in resets if [l.id for l in enclosing_loops(fi, d.node)][:1] == [head]}
        starts = [d for d, lab in cfg.succ[head] if lab in ("iter", "T")]
        ok = bool(per_node)
        for s0 in starts:
            if s0 in per_node:
                continue
            reach = {s0} | cfg.reachable_from(s0, avoid=per_node | {head}, edge_filter=lambda a, b, l: l != "exc")
            if loop.id in reach:
                ok = False
        (obs.append(ob_ok(oid2, fi, loop.ast, construct="per node: pending ring order = default before the marker scan", instance="reset-per-node",
                          reason="a symbol scanned after one node cannot become the order of a ring opened on a later node")) if ok else
         obs.append(ob_fail(oid2, fi, loop.ast, construct="marker scan entered without resetting the pending ring order", instance="reset-per-node",
                            reason="a bond order symbol scanned at an earlier node leaks into the next ring marker that is written without its own symbol")))
    # the recorded ring bond is added as recorded
    from .common import method_call, elem_of
    for call, nid in fl.calls():
        if isinstance(call.func, ast.Attribute) and call.func.attr == "add_edge":
            ct = fl.canon(call, nid)
            m = method_call(ct)
            if len(m[2]) >= 2 and m[2][0][0] == "sub" and elem_of(m[2][0][1]) and elem_of(m[2][0][1])[0] == "elem":
                rec = m[2][0][1]
                ok = m[2][0] == ("sub", rec, ("const", 0)) and m[2][1] == ("sub", rec, ("const", 1)) and dict(ct[4]).get("order") == ("sub", rec, ("const", 2))
                (obs.append(ob_ok(oid2, fi, call, construct="add_edge(rec[0], rec[1], order=rec[2])", instance="add", reason="the recorded ring bond is added as recorded")) if ok else
                 obs.append(ob_fail(oid2, fi, call, construct=show(ct)[:120], instance="add", reason="the ring bond added differs from the recorded (closing node, opening node, order)")))
    return obs


def _scan_loop(model):
    """the for loop that scans the characters behind a node for ring markers: the innermost `for` loop around the inline sites
    (a completion site behind the loop, for a marker that ends the text, is in the enclosing loop only and does not count)"""
    fi = model.fi
    count = {}
    for site in model.sites:
        ls = [l for l in enclosing_loops(fi, site["node"].id) if l.kind == "for"]
        if ls:
            count.setdefault(ls[0].id, [ls[0], 0])[1] += 1
    if not count:
        return None
    # the scan loop is nested inside the per-node loop: prefer the deepest one
    best = sorted(count.values(), key=lambda c: (-len(enclosing_loops(fi, c[0].id)), -c[1]))
    return best[0][0]


def ring_marker_text(repo, tier="quick"):
    """C04: the text of a ring marker behind a node.  The scanning loop is executed in the abstract evaluator on representative
    tails (D stands for a digit): `D`, `DD`, `%DD`, `%DD%DD`, `=D`, `=%DD`, `D=D`, each for opening and closing.  The ring
    key is the digit itself for a bare digit and the number formed by all digits behind a `%`; a bond order symbol applies
    to the next marker only."""
    model = RingModel(repo)
    fi, fl = model.fi, model.fl
    oid = "TOK.ring-marker-text"
    lp = _scan_loop(model)
    need(lp is not None, "cannot identify the loop that scans ring markers behind a node", fi)
    # iterable: enumerate(<pattern>[<stop>:])
    it = lp.ast.iter
    need(isinstance(it, ast.Call) and isinstance(it.func, ast.Name) and it.func.id == "enumerate" and it.args and isinstance(it.args[0], ast.Subscript)
         and isinstance(it.args[0].value, ast.Name) and isinstance(it.args[0].slice, ast.Slice) and isinstance(it.args[0].slice.lower, ast.Name),
         "the ring scanning loop does not iterate enumerate(pattern[stop:])", fi, lp.ast)
    pat_name, stop_name = it.args[0].value.id, it.args[0].slice.lower.id
    # statements of the enclosing block that initialise the scanner state right before the loop
    parent_body = None
    for sub in ast.walk(fi.node):
        for fld in ("body", "orelse"):
            b = getattr(sub, fld, None)
            if isinstance(b, list) and lp.ast in b:
                parent_body = b
    need(parent_body is not None, "ring scanning loop has no parent block", fi, lp.ast)
    idx = parent_body.index(lp.ast)
    site_asts = {id(x["ast"]) for x in model.sites}
    post = [st for st in parent_body[idx + 1:] if any(id(sub) in site_asts for sub in ast.walk(st))]
    pre = []
    for st in reversed(parent_body[:idx]):
        if isinstance(st, ast.Assign) and all(isinstance(t, ast.Name) for t in st.targets) and isinstance(st.value, (ast.Constant, ast.Name)):
            pre.insert(0, st)
        else:
            break
    # module/function level constants the loop reads
    consts = {}
    ndefs = {}
    for d in fl.defs:
        if d.kind not in ("unbound", "entryattr"):
            ndefs[d.var] = ndefs.get(d.var, 0) + 1
    for d in fl.defs:
        if d.kind == "assign" and not d.path and d.value is not None and not enclosing_loops(fi, d.node) and ndefs.get(d.var) == 1:
            try:
                from ..model import fold_const
                consts[d.var] = fold_const(d.value, fi.module)
            except (ValueError, TypeError):
                pass
    list_names = {x.func.value.id for x in ast.walk(lp.ast) if isinstance(x, ast.Call) and isinstance(x.func, ast.Attribute) and x.func.attr in ("append", "extend")
                  and isinstance(x.func.value, ast.Name)}
    CUR = Tok("CUR")
    N0 = Tok("N0")
    scenarios = [
        # (tail, table before, expected table after, expected closures)
        ("1)", {}, {1: ("CUR", 1)}, []),
        ("12[", {}, {1: ("CUR", 1), 2: ("CUR", 1)}, []),
        ("%12[", {}, {12: ("CUR", 1)}, []),
        ("%12%34)", {}, {12: ("CUR", 1), 34: ("CUR", 1)}, []),
        ("%12}", {}, {12: ("CUR", 1)}, []),
        ("%12", {}, {12: ("CUR", 1)}, []),
        ("=%12", {}, {12: ("CUR", 2)}, []),
        ("1", {}, {1: ("CUR", 1)}, []),
        ("%12", {12: [N0, 3]}, {}, [("CUR", "N0", 3)]),
        ("=1[", {}, {1: ("CUR", 2)}, []),
        ("=%12[", {}, {12: ("CUR", 2)}, []),
        ("1=2[", {}, {1: ("CUR", 1), 2: ("CUR", 2)}, []),
        ("=12[", {}, {1: ("CUR", 2), 2: ("CUR", 1)}, []),
        ("=%12%34[", {}, {12: ("CUR", 2), 34: ("CUR", 1)}, []),
        ("%12=3[", {}, {12: ("CUR", 1), 3: ("CUR", 2)}, []),
        ("1[", {1: [N0, 3]}, {}, [("CUR", "N0", 3)]),
        ("%12[", {12: [N0, 3]}, {}, [("CUR", "N0", 3)]),
        ("%12[", {2: [N0, 3], 1: [N0, 3]}, {2: ("N0", 3), 1: ("N0", 3), 12: ("CUR", 1)}, []),
        ("2%12[", {12: [N0, 3]}, {2: ("CUR", 1)}, [("CUR", "N0", 3)]),
    ]
    bad = []
    n = 0
    for tail, before, want_tbl, want_close in scenarios:
        pattern = "[#A]" + tail
        table = {k: list(v) for k, v in before.items()}
        lists = {}

        def load(ev, e, env):
            if isinstance(e, ast.Name) and e.id not in env:
                if e.id == model.table:
                    return True, table
                if e.id in list_names:
                    return True, lists.setdefault(e.id, [])
                if e.id in consts:
                    return True, consts[e.id]
                return True, Tok(e.id)
            return False, None

        def hook(ev, call, env):
            f = call.func
            if isinstance(f, ast.Name) and f.id == "enumerate" and call.args:
                seq = ev.eval(call.args[0], env)
                if isinstance(seq, str):
                    return True, [(i, c) for i, c in enumerate(seq)]
            return False, None
        env = {pat_name: pattern, stop_name: 4}
        cur_names = set()
        ev = Evaluator(load_hook=load, call_hook=hook)
        n += 1
        try:
            ev.block(pre + [lp.ast] + post, env)
        except Raised as r:
            bad.append((tail, before, "raises " + r.exc_name))
            continue
        except Unsupported as err:
            raise AnalysisError("ring scanning loop outside the evaluator's language: %s" % err, fi.where(lp.ast))
        def norm(v):
            v = list(v)
            return (_nm(v[0]), v[1]) if len(v) == 2 else tuple(_nm(x) for x in v)
        got_tbl = {k: norm(v) for k, v in table.items()}
        closes = [tuple(_nm(x) for x in c) for lst in lists.values() for c in lst]
        if got_tbl != want_tbl or closes != want_close:
            bad.append((tail, before, "table %s closures %s (expected %s / %s)" % (got_tbl, closes, want_tbl, want_close)))
    if bad:
        return [ob_fail(oid, fi, lp.ast, construct="tail %r with open rings %s" % (b[0], sorted(b[1])), instance="marker-text",
                        reason="the scanner gives " + b[2] + ": a ring marker's text is not read as documented (bare digit = one ring; % + all following digits = one ring; "
                               "an order symbol applies to the next marker only)") for b in bad[:4]]
    return [ob_ok(oid, fi, lp.ast, construct="ring scanning loop on %d representative tails" % n, instance="marker-text",
                  reason="bare digits are one ring each, `%` takes all following digits, order symbols apply to the next marker, closing uses the stored node and order")]


def _nm(x):
    # which node variable is stored is judged by the ring protocol rule; here any node other than the stored opener is "CUR"
    if isinstance(x, Tok):
        return "N0" if str(x) == "N0" else "CUR"
    return x
