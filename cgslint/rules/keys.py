"""KEY - key-space typing (coarse node keys vs running counters, node keys vs RDKit indices);
NORM - normalisers of weighted sums and of the layout scale."""
import ast

from .. import AnalysisError
from ..flow import show, walk_term
from ..report import ob_ok, ob_fail, ob_undecided
from .common import (is_call, method_call, node_attr, edge_attr, elem_of, strip_wrappers, guards_of,
                     enclosing_loops, need, contains, aug_like)

SELF = ("param", "self")


def _no_exc(src, dst, label):
    return label != "exc"


def key_fragid(repo, tier="quick"):
    """K1: fine-node membership ('fragid') is written in the key space it is read in (coarse node
    keys).  Accepted: (a) 'fragid' set from the loop's coarse-node variable for every new fine node,
    inside the loop or after it from a map filled inside it; or (c) no path through the loop body
    avoids the instantiating call (the running counter then coincides with the node's position)."""
    fi = repo.function("resolve:MoleculeResolver.resolve_disconnected_molecule")
    cfg, fl = fi.cfg, fi.flow
    obs = []
    oid = "KEY.K1-fragid"
    merges = fl.calls_to("graph_utils:merge_graphs")
    need(len(merges) == 1, "expected exactly one merge_graphs call in resolve_disconnected_molecule, found %d" % len(merges), fi)
    mcall, mnode, _ = merges[0]
    M = fl.canon(mcall, mnode)
    loops = enclosing_loops(fi, mnode)
    need(loops and loops[-1].kind == "for", "merge_graphs is not inside the loop over coarse nodes", fi, mcall)
    outer = loops[-1]
    it = strip_wrappers(fl.canon(outer.ast.iter, outer.id))
    meta = ("attr", SELF, "meta_graph")
    need(it in (("attr", meta, "nodes"), meta) or (method_call(it, "nodes") and method_call(it, "nodes")[0] == meta) or
         (method_call(it, "items") and method_call(it, "items")[0] == ("attr", meta, "nodes")),
         "the outer loop does not range over self.meta_graph.nodes", fi, outer.ast)
    coarse = ("iter", (outer.ast.lineno, outer.ast.col_offset), fl.canon(outer.ast.iter, outer.id))
    mn_ = method_call(it, "nodes")
    if (mn_ and (mn_[2] or mn_[3])) or method_call(it, "items"):
        # for node, attrs in meta_graph.nodes(data=True) / .nodes.items(): the key is the first component
        coarse = ("sub", coarse, ("const", 0))
    tmpl = M[3][1] if len(M[3]) > 1 else dict(M[4]).get("target_graph")
    molecule = M[3][0] if M[3] else None

    def is_new_fine_node(k, depth=0):
        """k == correspondence[n] with n ranging over all nodes of the merged template"""
        # ... or a node of a fresh graph that was filled with exactly those nodes (the per-node copy of the fragment)
        e = elem_of(k)
        if e and e[0] == "elem" and depth == 0:
            coll = strip_wrappers(e[1])
            G = coll[1] if coll[0] == "attr" and coll[2] == "nodes" else coll
            gc = is_call(G, "networkx.Graph")
            if gc is not None and not gc[0] and not gc[1]:
                adds = [(c, n) for c, n in fl.calls() if isinstance(c.func, ast.Attribute) and c.func.attr in ("add_node", "add_edge", "add_nodes_from", "add_edges_from")
                        and fl.canon(c.func.value, n) == G]
                node_adds = [(c, n) for c, n in adds if c.func.attr == "add_node"]
                if node_adds and all(c.func.attr in ("add_node", "add_edge") for c, n in adds) and \
                        all(c.args and is_new_fine_node(fl.canon(c.args[0], n), 1) for c, n in node_adds) and \
                        all(len(c.args) >= 2 and all(fl.canon(a, n)[0] == "sub" and fl.canon(a, n)[1] == M for a in c.args[:2]) for c, n in adds if c.func.attr == "add_edge"):
                    return True
        if k[0] == "sub" and k[1] == M:
            e = elem_of(k[2])
            if e and e[0] in ("elem", "key") and strip_wrappers(e[1]) in (("attr", tmpl, "nodes"), tmpl, M):
                return True
            m = e and method_call(strip_wrappers(e[1]), "nodes")
            if m and m[0] == tmpl:
                return True
        e = elem_of(k)
        if e and e[0] == "value" and strip_wrappers(e[1]) == M:
            return True
        return False

    def is_coarse_list(v):
        return v == ("list", (coarse,))

    variant_a = None
    # inside the loop: self.molecule.nodes[new]['fragid'] = [meta_node]
    for n in cfg.nodes:
        if n.kind == "stmt" and isinstance(n.ast, ast.Assign) and isinstance(n.ast.targets[0], ast.Subscript):
            tt = fl.canon(n.ast.targets[0], n.id)
            na = node_attr(tt)
            v = fl.canon(n.ast.value, n.id)
            if na and na[0] == molecule and na[2] == ("const", "fragid") and is_new_fine_node(na[1]) and is_coarse_list(v):
                if cfg.dominates(mnode, n.id):
                    variant_a = ("inside", n)
    # after the loop from a map filled inside it
    for call, nid, _ in fl.calls_to("networkx.set_node_attributes"):
        ct = fl.canon(call, nid)
        a = list(ct[3]) + [None, None, None]
        kw = dict(ct[4])
        g, vals, name = a[0] or kw.get("G"), a[1] or kw.get("values"), a[2] or kw.get("name")
        if g != molecule or name != ("const", "fragid"):
            continue
        if enclosing_loops(fi, nid):
            continue
        varg = call.args[1] if len(call.args) > 1 else None
        if not isinstance(varg, ast.Name):
            continue
        stores = []
        for n in cfg.nodes:
            if n.kind == "stmt" and isinstance(n.ast, ast.Assign) and isinstance(n.ast.targets[0], ast.Subscript) and \
                    isinstance(n.ast.targets[0].value, ast.Name) and n.ast.targets[0].value.id == varg.id:
                k = fl.canon(n.ast.targets[0].slice, n.id)
                v = fl.canon(n.ast.value, n.id)
                stores.append((n, is_new_fine_node(k) and is_coarse_list(v) and cfg.dominates(mnode, n.id)))
        inits = [d for d in fl.reaching(varg.id, nid) if d.kind == "assign"]
        iv = fl.canon(inits[0].value, inits[0].node) if len(inits) == 1 else None
        fresh = iv is not None and (iv == ("dict", ()) or (iv[0] == "call" and iv[2] == ("builtin", "dict") and not iv[3] and not iv[4])) and \
            not enclosing_loops(fi, inits[0].node)
        after_loop = cfg.must_pass(outer.id, {cfg.exit}, {nid}, lambda s, d, l: not (s == outer.id and l == "iter") and l != "exc")
        if stores and all(ok for _, ok in stores) and fresh and after_loop:
            variant_a = ("after", cfg.nodes[nid])
    # (c) the counter coincides with the position: no path loop head -> loop head avoiding the merge
    starts = [d for d, lab in cfg.succ[outer.id] if lab == "iter"]
    skip_path = False
    for s in starts:
        if s == mnode:
            continue
        reach = {s} | cfg.reachable_from(s, avoid={mnode}, edge_filter=_no_exc)
        if outer.id in reach:
            skip_path = True
    if variant_a:
        obs.append(ob_ok(oid, fi, variant_a[1].ast, construct="fragid of every new fine node := [coarse node key] (%s the loop)" % variant_a[0],
                         instance="congruence", reason="membership is written in the key space annotate_fragments reads it in"))
    elif not skip_path:
        obs.append(ob_ok(oid, fi, mcall, construct="every iteration instantiates exactly one fragment", instance="congruence",
                         reason="the running fragment index equals the position of the coarse node (= its key for graphs read_cgsmiles produces)"))
    else:
        obs.append(ob_fail(oid, fi, mcall, construct="fragid is merge_graphs' running counter while some iterations skip the merge", instance="congruence",
                           reason="a skipped (virtual) coarse node shifts the fragment index of all later nodes, annotate_fragments looks fine nodes up by coarse node key"))
    return obs


def prov_annotate_lookup(repo, tier="quick"):
    """C02: annotate_fragments collects, for every coarse node key, exactly the fine nodes whose
    'fragid' list contains that key, and builds the per-node graph from them."""
    fi = repo.function("graph_utils:annotate_fragments")
    cfg, fl = fi.cfg, fi.flow
    meta, mol = ("param", fi.positional_params[0]), ("param", fi.positional_params[1])
    obs = []
    oid = "PROV.annotate-lookup"
    # insertion: X[f].append(node) for node, fragids in get_node_attributes(molecule, 'fragid').items() for f in fragids
    def as_lookup(t):
        """index.setdefault(k, []) and index.get(k, []) are index[k] as far as the members of k are concerned"""
        if isinstance(t, tuple) and t and t[0] == "call":
            for meth in ("setdefault", "get"):
                mm = method_call(t, meth)
                if mm and 1 <= len(mm[2]) <= 2 and (len(mm[2]) == 1 or mm[2][1] in (("list", ()), ("tuple", ())) or
                                                     (is_call(mm[2][1], "list") is not None and not is_call(mm[2][1], "list")[0])):
                    return ("sub", mm[0], mm[2][0])
        return t
    ins = None
    for call, nid in fl.calls():
        ct = fl.canon(call, nid)
        m = method_call(ct, "append")
        if m:
            m = (as_lookup(m[0]),) + tuple(m[1:])
        if not m or m[0][0] != "sub" or len(m[2]) != 1:
            continue
        key, val = m[0][2], m[2][0]
        ek = elem_of(key)
        if not ek or ek[0] != "elem":
            continue
        lst = ek[1]
        el = elem_of(lst)
        ev = elem_of(val)
        if el and el[0] == "value" and ev and ev[0] == "key" and el[1] == ev[1]:
            c = is_call(strip_wrappers(el[1]), "networkx.get_node_attributes")
            if c and c[0][:2] == (mol, ("const", "fragid")):
                ins = (call, nid, m[0][1])
    if ins is None:
        raise AnalysisError("annotate_fragments: cannot find the fragid -> fine nodes index construction", fi.where())
    obs.append(ob_ok(oid, fi, ins[0], construct="index[f].append(node) for node, fragids in fragid(molecule).items() for f in fragids", instance="index",
                     reason="a fine node is filed under every coarse node it records"))
    index = ins[2]
    # lookups: add_node for node in index[meta_node], meta_node over meta_graph.nodes
    adds = []
    for call, nid in fl.calls():
        ct = fl.canon(call, nid)
        m = method_call(ct, "add_node")
        if m and m[2]:
            adds.append((call, nid, ct, m))
    need(adds, "anchor vanished: annotate_fragments no longer builds per-node graphs with add_node", fi)
    for call, nid, ct, m in adds:
        node = m[2][0]
        e = elem_of(node)
        if e and e[0] == "elem":
            e = (e[0], as_lookup(strip_wrappers(e[1])))
        ok = False
        if e and e[0] == "elem" and e[1][0] == "sub" and e[1][1] == index:
            mk = elem_of(e[1][2])
            if mk and mk[0] == "elem" and strip_wrappers(mk[1]) in (("attr", meta, "nodes"), meta):
                ok = True
        (obs.append(ob_ok(oid, fi, call, construct="graph_frag.add_node(n) for n in index[meta_node] for meta_node in meta_graph.nodes", instance="lookup",
                          reason="each coarse node key gets exactly the fine nodes that record it")) if ok else
         obs.append(ob_fail(oid, fi, call, construct="add_node(%s)" % show(node), instance="lookup",
                            reason="the per-coarse-node graph is not filled from index[<key of that coarse node>]")))
        # attributes come from the fine graph's node
        splat = dict(ct[4]).get("**")
        ok2 = splat is not None and splat == ("sub", ("attr", mol, "nodes"), node)
        (obs.append(ob_ok(oid, fi, call, construct="**molecule.nodes[n]", instance="attributes", reason="fine node attributes are carried over")) if ok2 else
         obs.append(ob_fail(oid, fi, call, construct="attributes %s" % (show(splat) if splat else "<none>"), instance="attributes",
                            reason="the per-coarse-node graph's nodes do not carry the fine node's attributes")))
    # bonds: the per-node graph gets an edge for exactly those pairs of its own nodes that are bonded in the fine graph
    recvs = {a[3][0] for a in adds}
    edge_sites = []
    for call, nid in fl.calls():
        ct = fl.canon(call, nid)
        m = method_call(ct, "add_edge")
        if m and m[0] in recvs and len(m[2]) == 1 and m[2][0][0] == "star":
            # add_edge(*pair)
            pr = m[2][0][1]
            m = (m[0], m[1], (fl.subscript(pr, ("const", 0)), fl.subscript(pr, ("const", 1))), m[3])
        if m and m[0] in recvs and len(m[2]) >= 2:
            edge_sites.append((call, nid, m))
    # the same as one call: graph_frag.add_edges_from(pair for pair in combinations(members, 2) if molecule.has_edge(*pair))
    bulk_sites = 0
    for call, nid in fl.calls():
        ct = fl.canon(call, nid)
        m = method_call(ct, "add_edges_from")
        if not (m and m[0] in recvs and len(m[2]) == 1):
            continue
        bulk_sites += 1
        comp = m[2][0]
        verdict = None
        if comp[0] == "comp" and len(comp[4]) == 1:
            elem, conds = comp[4][0][1], comp[4][0][2]
            pair = comp[3]
            same = pair == elem or (pair[0] == "tuple" and pair[1] == (("sub", elem, ("const", 0)), ("sub", elem, ("const", 1))))
            comb = is_call(elem[2], "itertools.combinations") if elem[0] == "iter" else None
            src_ok = False
            if comb and comb[0]:
                src = as_lookup(strip_wrappers(comb[0][0]))
                r = comb[0][1] if len(comb[0]) > 1 else dict(elem[2][4]).get("r")
                if src[0] == "sub" and src[1] == index and r == ("const", 2):
                    mk = elem_of(src[2])
                    src_ok = bool(mk and strip_wrappers(mk[1]) in (("attr", meta, "nodes"), meta))
            bonded = False
            for cnd in conds:
                hm = method_call(cnd, "has_edge")
                if hm and hm[0] == mol and (hm[2] == (("star", elem),) or hm[2] == (("sub", elem, ("const", 0)), ("sub", elem, ("const", 1)))):
                    bonded = True
            if same and src_ok:
                verdict = bonded and len(conds) == 1
        if verdict is None:
            obs.append(ob_undecided(oid, fi, call, construct="add_edges_from(%s)" % show(comp)[:80], instance="bonds",
                                    reason="the edges are added in one call from a collection the rule cannot read"))
        elif verdict:
            obs.append(ob_ok(oid, fi, call, construct="graph_frag.add_edges_from(pairs of index[meta_node] that are bonded in the molecule)", instance="bonds",
                             reason="the per-node graph is the subgraph of the fine graph induced by the node's atoms"))
        else:
            obs.append(ob_fail(oid, fi, call, construct="add_edges_from(...) not filtered by molecule.has_edge", instance="bonds",
                               reason="the per-node graph gets edges between atoms that are not bonded in the fine graph (or misses the bonded ones)"))
    if not edge_sites and not bulk_sites:
        obs.append(ob_fail(oid, fi, construct="no add_edge on the per-node graph", instance="bonds",
                           reason="the graph stored on a coarse node has the fragment's atoms but none of its bonds"))
    for call, nid, m in edge_sites:
        a, b = m[2][0], m[2][1]
        pair_ok = False
        if a[0] == "sub" and b[0] == "sub" and a[1] == b[1] and {a[2], b[2]} == {("const", 0), ("const", 1)} and a[1][0] == "iter":
            comb = is_call(a[1][2], "itertools.combinations")
            if comb and comb[0]:
                comb = ((as_lookup(strip_wrappers(comb[0][0])),) + tuple(comb[0][1:]), comb[1])
            if comb and comb[0] and comb[0][0][0] == "sub" and comb[0][0][1] == index:
                mk = elem_of(comb[0][0][2])
                r = comb[0][1] if len(comb[0]) > 1 else dict(a[1][2][4]).get("r")
                pair_ok = bool(mk and strip_wrappers(mk[1]) in (("attr", meta, "nodes"), meta)) and r == ("const", 2)
        if not pair_ok and a[0] in ("iter", "sub") and b[0] in ("iter", "sub"):
            # the same pairs from two loops over the member list: all ordered pairs (an edge added twice is one edge), or
            # `for i, a in enumerate(L): for b in L[i + 1:]`
            def members(t):
                t = as_lookup(strip_wrappers(t, slices=False))
                if t[0] == "sub" and t[1] == index:
                    mk_ = elem_of(t[2])
                    return bool(mk_ and strip_wrappers(mk_[1]) in (("attr", meta, "nodes"), meta))
                return False
            ea_, eb_ = elem_of(a), elem_of(b)
            if ea_ and eb_ and ea_[0] == "elem" and eb_[0] == "elem":
                if members(ea_[1]) and members(eb_[1]) and a != b:
                    pair_ok = True
                elif members(ea_[1]) and a[0] == "sub" and b[0] == "iter":
                    rest = strip_wrappers(b[2], slices=False)
                    if rest[0] == "sub" and rest[2][0] == "slice" and members(rest[1]) and rest[2][2] is None and rest[2][3] is None and \
                            rest[2][1] == ("binop", "+", ("sub", a[1], ("const", 0)), ("const", 1)):
                        pair_ok = True
        guard_ok = False
        for test, pol, gid in guards_of(fi, nid):
            t = fl.canon(test, gid)
            hm = method_call(t, "has_edge")
            if hm and len(hm[2]) == 1 and hm[2][0][0] == "star":
                hm = (hm[0], hm[1], (fl.subscript(hm[2][0][1], ("const", 0)), fl.subscript(hm[2][0][1], ("const", 1))), hm[3])
            if hm and hm[0] == mol and len(hm[2]) == 2 and set(hm[2]) == {a, b}:
                guard_ok = pol
        if pair_ok and guard_ok:
            obs.append(ob_ok(oid, fi, call, construct="graph_frag.add_edge(a, b) iff molecule.has_edge(a, b), for all pairs of index[meta_node]", instance="bonds",
                             reason="the per-node graph is the subgraph of the fine graph induced by the node's atoms"))
        elif not pair_ok:
            obs.append(ob_undecided(oid, fi, call, construct="add_edge(%s, %s)" % (show(a)[:60], show(b)[:60]), instance="bonds",
                                    reason="the pairs are not drawn with itertools.combinations(index[meta_node], r=2); the rule cannot decide whether all and only the fragment's bonds are added"))
        else:
            obs.append(ob_fail(oid, fi, call, construct="add_edge(a, b) not under a positive molecule.has_edge(a, b)", instance="bonds",
                               reason="the per-node graph gets edges between atoms that are not bonded in the fine graph (or misses the bonded ones)"))
    # the graph is stored on the coarse node it was built for
    stored = False
    for n in cfg.nodes:
        if n.kind == "stmt" and isinstance(n.ast, ast.Assign) and isinstance(n.ast.targets[0], ast.Subscript):
            tt = fl.canon(n.ast.targets[0], n.id)
            na = node_attr(tt)
            if na and na[0] == meta and na[2] == ("const", "graph"):
                mk = elem_of(na[1])
                v = fl.canon(n.ast.value, n.id)
                recv = {a[3][0] for a in adds}
                if mk and strip_wrappers(mk[1]) in (("attr", meta, "nodes"), meta) and v in recv:
                    stored = True
    # ... for every coarse node, also one without atoms (it gets an empty graph; a stale one from an earlier resolution must not survive)
    for n in cfg.nodes:
        if n.kind == "stmt" and isinstance(n.ast, ast.Assign) and isinstance(n.ast.targets[0], ast.Subscript):
            na = node_attr(fl.canon(n.ast.targets[0], n.id))
            if na and na[0] == meta and na[2] == ("const", "graph"):
                lps = enclosing_loops(fi, n.id)
                if lps:
                    head = lps[-1].id
                    starts = [d for d, lab in cfg.succ[head] if lab in ("iter", "T")]
                    skipped = False
                    for s0 in starts:
                        if s0 == n.id:
                            continue
                        reach = {s0} | cfg.reachable_from(s0, avoid={n.id}, edge_filter=lambda a, b, l: l != "exc")
                        if head in reach:
                            skipped = True
                    (obs.append(ob_fail(oid, fi, n.ast, construct="an iteration over the coarse nodes can skip the store of 'graph'", instance="store:every-node",
                                        reason="a coarse node without atoms keeps whatever 'graph' it carried before (for example from an earlier resolution of the "
                                               "same base graph): it is then mapped to atoms of other nodes")) if skipped else
                     obs.append(ob_ok(oid, fi, n.ast, construct="every coarse node gets a (possibly empty) per-node graph", instance="store:every-node",
                                      reason="no stale mapping survives on virtual nodes")))
    (obs.append(ob_ok(oid, fi, construct="meta_graph.nodes[meta_node]['graph'] = graph_frag", instance="store", reason="stored on its own coarse node")) if stored else
     obs.append(ob_fail(oid, fi, construct="store of the per-node graph", instance="store", reason="the per-node graph is not stored under 'graph' on the coarse node it was built for")))
    return obs


# ---------------------------------------------------------------------------
# K2: RDKit index space vs node key space
# ---------------------------------------------------------------------------

def _inverse_of_atom_map(fl, call_t, graph):
    """list(D) where D is the local node -> atom index map: created empty, filled only by `D[node] = mol.AddAtom(..)` once per
    node in one unconditional loop over the nodes of `graph`: its keys are the nodes in the order of their atom indices."""
    fi = fl.fi
    site = call_t[1]
    call = next((x for x in ast.walk(fi.node) if isinstance(x, ast.Call) and (x.lineno, x.col_offset) == tuple(site)), None)
    if call is None or len(call.args) != 1 or not isinstance(call.args[0], ast.Name):
        return False
    name = call.args[0].id
    for _ in range(4):
        uses = [x for x in ast.walk(fi.node) if isinstance(x, ast.Name) and x.id == name]
        stores = [x for x in uses if isinstance(x.ctx, ast.Store)]
        if len(stores) != 1:
            return False
        # `name = other` or `.., name = .., other`: the same dict under another name
        alias = None
        for st in ast.walk(fi.node):
            if isinstance(st, ast.Assign) and len(st.targets) == 1:
                t, v = st.targets[0], st.value
                if t is stores[0] and isinstance(v, ast.Name):
                    alias = v.id
                if isinstance(t, ast.Tuple) and isinstance(v, ast.Tuple) and len(t.elts) == len(v.elts):
                    for a, b in zip(t.elts, v.elts):
                        if a is stores[0] and isinstance(b, ast.Name):
                            alias = b.id
        if alias is None:
            break
        name = alias
    init = None
    fills = []
    for n in fi.cfg.nodes:
        if n.kind != "stmt":
            continue
        st = n.ast
        if isinstance(st, ast.Assign) and len(st.targets) == 1 and st.targets[0] is stores[0]:
            init = st.value
        elif isinstance(st, ast.Assign) and len(st.targets) == 1 and isinstance(st.targets[0], ast.Subscript) and \
                isinstance(st.targets[0].value, ast.Name) and st.targets[0].value.id == name:
            fills.append(n)
        elif isinstance(st, (ast.Delete, ast.AugAssign)) and any(isinstance(x, ast.Name) and x.id == name for x in ast.walk(st)):
            return False
        elif isinstance(st, ast.Expr) and isinstance(st.value, ast.Call) and isinstance(st.value.func, ast.Attribute) and \
                isinstance(st.value.func.value, ast.Name) and st.value.func.value.id == name:
            return False        # D.pop / D.update / D.clear ...
    empty = isinstance(init, ast.Dict) and not init.keys or (isinstance(init, ast.Call) and isinstance(init.func, ast.Name) and init.func.id == "dict" and not init.args and not init.keywords)
    if not empty or len(fills) != 1:
        return False
    n = fills[0]
    v = method_call(fl.canon(n.ast.value, n.id), "AddAtom")
    if not v or _classify_key(fl, fl.canon(n.ast.targets[0].slice, n.id), graph) != "node":
        return False
    lps = enclosing_loops(fi, n.id)
    if len(lps) != 1 or lps[0].kind != "for" or [gd for gd in guards_of(fi, n.id) if gd[2] != lps[0].id]:
        return False
    if not fi.cfg.dominates(n.id, fi.cfg.owner.get(id(call), -1)) and not fi.cfg.dominates(lps[0].id, fi.cfg.owner.get(id(call), -1)):
        return False
    adds = [c2 for c2, _ in fl.calls() if isinstance(c2.func, ast.Attribute) and c2.func.attr == "AddAtom"]
    return len(adds) == 1


def _classify_key(fl, k, graph):
    """'node' (a key of `graph`), 'node-by-position' (list(graph.nodes)[rdkit index]),
    'rdkit' (an RDKit atom index / enumerate counter), 'other'."""
    e = elem_of(k)
    if e:
        role, coll = e
        coll = strip_wrappers(coll)
        if role in ("elem", "key"):
            if coll in (("attr", graph, "nodes"), graph):
                return "node"
            # the keys of a dict built over the nodes: {node: ... for ... node ... in <nodes>}
            if coll[0] == "comp" and coll[1] == "dict" and len(coll[4]) == 1 and not coll[4][0][2] and _classify_key(fl, coll[3][1][0], graph) == "node":
                return "node"
            m = method_call(coll, "nodes")
            if m and m[0] == graph:
                return "node"
            c = is_call(coll, "networkx.get_node_attributes")
            if c and c[0] and c[0][0] == graph:
                return "node"
        if role == "index":
            return "rdkit"
    if k[0] == "sub" and k[2][0] == "const" and k[2][1] in (0, 1):
        e2 = elem_of(k[1])
        if e2 and e2[0] == "elem":
            coll = strip_wrappers(e2[1])
            m = method_call(coll, "nodes") or method_call(coll, "edges")
            if m and m[0] == graph:
                return "node"
            if coll == ("attr", graph, "edges"):
                return "node"
    m = method_call(k)
    if m and m[1] in ("GetIdx", "GetBeginAtomIdx", "GetEndAtomIdx", "AddAtom"):
        return "rdkit"
    if k[0] == "sub":
        base = strip_wrappers(k[1]) if k[1][0] == "call" else k[1]
        c = is_call(k[1], "list", "tuple")
        position_list = bool(c and c[0] and strip_wrappers(c[0][0]) in (("attr", graph, "nodes"), graph))
        if k[1][0] == "comp" and k[1][1] == "list" and len(k[1][4]) == 1 and not k[1][4][0][2] and k[1][3] == k[1][4][0][1]:
            e3 = elem_of(k[1][3])
            position_list = bool(e3 and e3[0] == "elem" and strip_wrappers(e3[1]) in (("attr", graph, "nodes"), graph))
        if not position_list and c and len(c[0]) == 1 and not c[1]:
            position_list = _inverse_of_atom_map(fl, k[1], graph)
        if position_list:
            inner = _classify_key(fl, k[2], graph)
            if inner == "rdkit":
                return "node-by-position"
    return "other"


def key_rdkit(repo, tier="quick"):
    obs = []
    oid = "KEY.K2-rdkit"
    n_sites = 0
    # (1) embed_3d_via_rdkit / rdkit_to_networkx / forward_map_molecule: keys used on <graph param>.nodes[...]
    for fq in ("rdkit:embed_3d_via_rdkit", "rdkit:networkx_to_rdkit", "coordinates:forward_map_molecule"):
        fi = repo.function(fq)
        fl = fi.flow
        graphs = [("param", p) for p in fi.positional_params]
        for sub in ast.walk(fi.node):
            if isinstance(sub, ast.Subscript) and isinstance(sub.value, ast.Attribute) and sub.value.attr == "nodes" and id(sub) in fi.cfg.owner:
                nid = fi.cfg.owner[id(sub)]
                g = fl.canon(sub.value.value, nid)
                if g not in graphs:
                    continue
                k = fl.canon(sub.slice, nid)
                other_graphs = [x for x in graphs if x != g]
                cls = _classify_key(fl, k, g)
                if cls == "other" and fq.endswith("forward_map_molecule"):
                    # atoms of a bead: keys of the bead's own per-node graph
                    e = elem_of(k)
                    if e and e[0] in ("key", "elem"):
                        cont = strip_wrappers(e[1])
                        if cont[0] == "comp" and cont[1] == "dict" and cont[3][0] == "tuple" and len(cont[3][1]) == 2:
                            # {atom: ... for atom, ... in <bead graph>.nodes.items()}: the keys of the comprehension are the keys it iterates
                            e2 = elem_of(cont[3][1][0])
                            if e2 and e2[0] in ("key", "elem"):
                                cont = strip_wrappers(e2[1])
                        c = is_call(cont, "networkx.get_node_attributes")
                        src = c[0][0] if c and c[0] else cont
                        if src[0] == "attr" and src[2] == "nodes":
                            src = src[1]
                        na = node_attr(src)
                        if na and na[0] in graphs and na[2] == ("const", "graph"):
                            cls = "node"
                        elif src[0] == "sub" and src[2] == ("const", "graph"):
                            # the attribute dict of a bead taken from <cg>.nodes.values() / .nodes(data=True)
                            ev = elem_of(src[1])
                            if ev and ev[0] == "value":
                                holder = strip_wrappers(ev[1])
                                if holder[0] == "attr" and holder[2] == "nodes" and holder[1] in graphs:
                                    cls = "node"
                n_sites += 1
                if cls in ("node", "node-by-position"):
                    obs.append(ob_ok(oid, fi, sub, construct="%s.nodes[<%s>]" % (show(g), cls), instance=fi.name + ":" + cls,
                                     reason="the key is a node key of that graph" if cls == "node" else
                                     "the RDKit atom index is mapped to the node at that position of the graph's iteration order"))
                else:
                    obs.append(ob_fail(oid, fi, sub, construct="%s.nodes[%s]" % (show(g), show(k)), instance=fi.name + ":" + cls,
                                       reason="a %s is used as a node key; node keys and RDKit atom indices / counters are different index spaces"
                                       % ("RDKit atom index or enumerate counter" if cls == "rdkit" else "value of unknown index space")))
    # (2) AddBond arguments are RDKit indices obtained through the node -> index map
    fi = repo.function("rdkit:networkx_to_rdkit")
    fl = fi.flow
    graph = ("param", fi.positional_params[0])
    maps = set()
    for n in fi.cfg.nodes:
        if n.kind == "stmt" and isinstance(n.ast, ast.Assign) and isinstance(n.ast.targets[0], ast.Subscript):
            v = fl.canon(n.ast.value, n.id)
            m = method_call(v, "AddAtom")
            if m:
                k = fl.canon(n.ast.targets[0].slice, n.id)
                if _classify_key(fl, k, graph) == "node" and isinstance(n.ast.targets[0].value, ast.Name):
                    maps.add(n.ast.targets[0].value.id)
    # ... or built in one go:  node_to_idx = {node: mol.AddAtom(...) for node, ... in graph.nodes(...)}
    for n in fi.cfg.nodes:
        if n.kind == "stmt" and isinstance(n.ast, ast.Assign) and isinstance(n.ast.targets[0], ast.Name) and isinstance(n.ast.value, ast.DictComp) and \
                len(n.ast.value.generators) == 1 and not n.ast.value.generators[0].ifs:
            dc = n.ast.value
            g = dc.generators[0]
            is_add = isinstance(dc.value, ast.Call) and isinstance(dc.value.func, ast.Attribute) and dc.value.func.attr == "AddAtom"
            it = strip_wrappers(fl.canon(g.iter, n.id))
            mm = method_call(it, "nodes")
            over_nodes = it in (("attr", graph, "nodes"), graph) or (mm is not None and mm[0] == graph)
            key_is_node = (isinstance(g.target, ast.Name) and isinstance(dc.key, ast.Name) and dc.key.id == g.target.id and not (mm is not None and (mm[2] or mm[3]))) or \
                (isinstance(g.target, ast.Tuple) and g.target.elts and isinstance(g.target.elts[0], ast.Name) and isinstance(dc.key, ast.Name) and dc.key.id == g.target.elts[0].id)
            if is_add and over_nodes and key_is_node:
                maps.add(n.ast.targets[0].id)
            # ... or precomputed as positions, {node: i for i, node in enumerate(graph.nodes)}: right exactly when the atoms are
            # added one per node in that same order (AddAtom returns the number of atoms added before)
            en = is_call(it, "enumerate")
            if en and en[0] and len(en[0]) == 1 and not en[1] and strip_wrappers(en[0][0]) in (("attr", graph, "nodes"), graph) and \
                    isinstance(g.target, ast.Tuple) and len(g.target.elts) == 2 and all(isinstance(x, ast.Name) for x in g.target.elts) and \
                    isinstance(dc.key, ast.Name) and dc.key.id == g.target.elts[1].id and isinstance(dc.value, ast.Name) and dc.value.id == g.target.elts[0].id:
                name_ = n.ast.targets[0].id
                adds_ = [(c, cn) for c, cn in fl.calls() if isinstance(c.func, ast.Attribute) and c.func.attr == "AddAtom"]
                in_order = False
                if len(adds_) == 1:
                    lps_ = enclosing_loops(fi, adds_[0][1])
                    if len(lps_) == 1 and lps_[0].kind == "for" and not [gd for gd in guards_of(fi, adds_[0][1]) if gd[2] != lps_[0].id]:
                        lit = strip_wrappers(fl.canon(lps_[0].ast.iter, lps_[0].id))
                        mm2 = method_call(lit, "nodes")
                        same_dict = isinstance(lps_[0].ast.iter, ast.Name) and lps_[0].ast.iter.id == name_
                        in_order = same_dict or lit in (("attr", graph, "nodes"), graph) or (mm2 is not None and mm2[0] == graph)
                if in_order:
                    maps.add(name_)
    for call, nid in fl.calls():
        if isinstance(call.func, ast.Attribute) and call.func.attr == "AddBond":
            n_sites += 1
            good = True
            for a in call.args[:2]:
                ok = isinstance(a, ast.Subscript) and isinstance(a.value, ast.Name) and a.value.id in maps and \
                    _classify_key(fl, fl.canon(a.slice, nid), graph) == "node"
                good = good and ok
            (obs.append(ob_ok(oid, fi, call, construct="AddBond(node_to_idx[u], node_to_idx[v])", instance="AddBond",
                              reason="bond ends are converted from node keys to RDKit indices through the map filled while adding atoms")) if good else
             obs.append(ob_fail(oid, fi, call, construct=ast.unparse(call), instance="AddBond",
                                reason="AddBond receives node keys (or something else) where RDKit atom indices are required")))
    # (3) rdkit_to_networkx: conformer positions are looked up by RDKit index of the same atom
    fi = repo.function("rdkit:rdkit_to_networkx")
    fl = fi.flow
    for call, nid in fl.calls():
        if isinstance(call.func, ast.Attribute) and call.func.attr == "GetAtomPosition":
            n_sites += 1
            k = fl.canon(call.args[0], nid) if call.args else None
            m = method_call(k, "GetIdx") if k else None
            adds = [c for c, n2 in fl.calls() if isinstance(c.func, ast.Attribute) and c.func.attr == "add_node"]
            same_atom = False
            if m and adds:
                nk = fl.canon(adds[0].args[0], fi.cfg.owner[id(adds[0])])
                mk = method_call(nk, "GetIdx")
                same_atom = mk is not None and mk[0] == m[0]
            e = elem_of(k) if k else None
            if e and e[0] == "index":
                same_atom = True
            if e and e[0] == "elem" and adds and not same_atom:
                # a node key of the graph being built, whose node keys are all RDKit atom indices; the position goes to that node
                coll = strip_wrappers(e[1])
                Gt = coll[1] if coll[0] == "attr" and coll[2] == "nodes" else coll
                keys_idx = all(c.args and method_call(fl.canon(c.args[0], fi.cfg.owner[id(c)]), "GetIdx") is not None and
                               fl.canon(c.func.value, fi.cfg.owner[id(c)]) == Gt for c in adds)
                stores = [n for n in fi.cfg.nodes if n.kind == "stmt" and isinstance(n.ast, ast.Assign) and isinstance(n.ast.targets[0], ast.Subscript)
                          and node_attr(fl.canon(n.ast.targets[0], n.id)) and node_attr(fl.canon(n.ast.targets[0], n.id))[2] == ("const", "position")]
                same_atom = keys_idx and bool(stores) and all(node_attr(fl.canon(n.ast.targets[0], n.id))[1] == k and
                                                              node_attr(fl.canon(n.ast.targets[0], n.id))[0] == Gt for n in stores)
            (obs.append(ob_ok(oid, fi, call, construct="conf.GetAtomPosition(atom.GetIdx())", instance="conformer",
                              reason="each node gets the position of its own atom")) if same_atom else
             obs.append(ob_fail(oid, fi, call, construct="conf.GetAtomPosition(%s)" % (show(k) if k else ""), instance="conformer",
                                reason="the position is not looked up by the index of the atom the node is created for")))
    # (4) RDKit atom i is the i-th node in the iteration order of the graph: the atom loop of networkx_to_rdkit and the
    #     index -> node list of embed_3d_via_rdkit must both follow plain graph order (no sorted / reversed / set)
    fw = repo.function("rdkit:networkx_to_rdkit")
    wfl = fw.flow
    g = ("param", fw.positional_params[0])
    for nd in fw.cfg.nodes:
        if nd.kind == "for" and any(isinstance(x, ast.Call) and isinstance(x.func, ast.Attribute) and x.func.attr == "AddAtom" for st2 in nd.ast.body for x in ast.walk(st2)):
            it = wfl.canon(nd.ast.iter, nd.id)
            c = is_call(it, "list", "tuple", "iter", "enumerate")
            inner = c[0][0] if c and it[2][0] == "builtin" else it
            mm = method_call(inner, "nodes")
            plain = inner in (("attr", g, "nodes"), g) or (mm is not None and mm[0] == g)
            if not plain and inner[0] == "comp" and inner[1] == "dict" and len(inner[4]) == 1 and not inner[4][0][2]:
                # a dict filled in graph order iterates in graph order: {node: ... for ... in [enumerate(]graph.nodes[)]}
                src = strip_wrappers(inner[4][0][1][2]) if inner[4][0][1][0] == "iter" else None
                en_ = is_call(src, "enumerate") if src is not None else None
                if en_ and en_[0]:
                    src = strip_wrappers(en_[0][0])
                m3 = method_call(src, "nodes") if src is not None else None
                from_nodes = src in (("attr", g, "nodes"), g) or (m3 is not None and m3[0] == g)
                plain = bool(from_nodes and _classify_key(wfl, inner[3][1][0], g) == "node")
            n_sites += 1
            (obs.append(ob_ok(oid, fw, nd.ast, construct="atoms are added in the iteration order of graph.nodes", instance="atom-order",
                              reason="RDKit atom i is the i-th node of the graph, which is what embed_3d_via_rdkit relies on when writing positions back")) if plain else
             obs.append(ob_fail(oid, fw, nd.ast, construct="atoms are added in the order of %s" % show(it), instance="atom-order",
                                reason="RDKit atom indices no longer follow the iteration order of graph.nodes, but positions are written back by that order: "
                                       "coordinates land on the wrong atoms")))
    if n_sites < 5:
        raise AnalysisError("key-space scan matched only %d sites in rdkit.py / coordinates.py (floor 5)" % n_sites)
    return obs


def _subterms(t):
    if isinstance(t, tuple):
        yield t
        for x in t:
            yield from _subterms(x)


def norm_bead(repo, tier="quick"):
    """C18: bead position = sum(position * weight over the bead's own atoms) / sum(those weights)."""
    fi = repo.function("coordinates:forward_map_molecule")
    cfg, fl = fi.cfg, fi.flow
    cg, aa = ("param", fi.positional_params[0]), ("param", fi.positional_params[1])
    obs = []
    oid = "NORM.bead"
    acc = None
    scaled = None
    for n in cfg.nodes:
        al = aug_like(n.ast) if n.kind == "stmt" and isinstance(n.ast, (ast.AugAssign, ast.Assign)) else None
        if al and al[1] is ast.Add:
            v = fl.canon(al[2], n.id)
            if v[0] == "binop" and v[1] == "*":
                for p, w in ((v[2], v[3]), (v[3], v[2])):
                    na = node_attr(p)
                    if na is None and p[0] == "sub":
                        # nx.get_node_attributes(aa, 'position')[n] is aa.nodes[n]['position']
                        cga = is_call(strip_wrappers(p[1]), "networkx.get_node_attributes")
                        if cga and len(cga[0]) >= 2:
                            na = (cga[0][0], p[2], cga[0][1], None)
                    ew = elem_of(w)
                    if na and na[0] == aa and na[2] == ("const", "position") and ew and ew[0] == "value":
                        ek = elem_of(na[1])
                        if ek and ek[0] == "key" and ek[1] == ew[1]:
                            acc = (n, al[0], strip_wrappers(ew[1]))
                    # the weight of the pair, transformed before it enters the sum (weight / k, weight ** 2, ...)
                    if na and na[0] == aa and na[2] == ("const", "position") and not ew and w[0] in ("binop", "call", "unop"):
                        ek = elem_of(na[1])
                        for t in _subterms(w):
                            et = elem_of(t) if isinstance(t, tuple) and t and t[0] == "sub" else None
                            if et and et[0] == "value" and ek and ek[0] == "key" and ek[1] == et[1]:
                                scaled = (n, al[0], strip_wrappers(et[1]), w)
                    # parallel sequences of one dict: for i, atom in enumerate(list(W)): ... list(W.values())[i]
                    if na and na[0] == aa and na[2] == ("const", "position") and acc is None and w[0] == "sub":
                        mvw = method_call(strip_wrappers(w[1]), "values")
                        en_, ei_ = elem_of(na[1]), elem_of(w[2])
                        if mvw and not mvw[2] and en_ and ei_ and en_[0] == "elem" and ei_[0] == "index" and na[1][0] == "sub" and w[2][0] == "sub" and \
                                na[1][1] == w[2][1] and strip_wrappers(en_[1]) == strip_wrappers(mvw[0]) == strip_wrappers(ei_[1]):
                            acc = (n, al[0], strip_wrappers(mvw[0]))
                    # for atom, weight in fragment.nodes(data='weight'[, default=1]): the same pairs, read off the per-node graph directly
                    if na and na[0] == aa and na[2] == ("const", "position") and acc is None and w[0] == "sub" and w[2] == ("const", 1) and w[1][0] == "iter" \
                            and na[1] == ("sub", w[1], ("const", 0)):
                        ci = w[1][2]
                        if ci[0] == "call" and ci[2][0] == "attr" and ci[2][2] == "nodes" and \
                                dict(ci[4]).get("data", ci[3][0] if ci[3] else None) == ("const", "weight"):
                            acc = (n, al[0], ("call", None, ("ext", "networkx.get_node_attributes"), (ci[2][1], ("const", "weight")), ()))
                            nodesdata_elem = w
    if acc is None and scaled is not None:
        # numerator with transformed weights: the divisor has to be the sum of the same transformed weights
        n_s, var_s, W_s, w_s = scaled
        for m in cfg.nodes:
            st = m.ast
            if m.kind != "stmt":
                continue
            val = None
            if isinstance(st, ast.Assign) and isinstance(st.value, ast.BinOp) and isinstance(st.value.op, ast.Div) and isinstance(st.value.left, ast.Name) and st.value.left.id == var_s:
                val = st.value.right
            elif isinstance(st, ast.AugAssign) and isinstance(st.op, ast.Div) and isinstance(st.target, ast.Name) and st.target.id == var_s:
                val = st.value
            if val is None:
                continue
            d_s = fl.canon(val, m.id)
            s_s = is_call(d_s, "sum", "numpy.sum", "math.fsum")
            mv_s = method_call(strip_wrappers(s_s[0][0]), "values") if s_s and s_s[0] else None
            if mv_s and strip_wrappers(mv_s[0]) == W_s:
                return [ob_fail(oid, fi, n_s.ast, construct="sum of position * f(weight), divided by sum(weights)", instance="divisor",
                                reason="the weights that multiply the positions are not the weights that are summed in the divisor: the bead is not the "
                                       "weight-normalised average of its atoms and does not follow a translation of the atoms")]
    if acc is None:
        # the whole bead in one array expression: a plain mean divides by the number of atoms, not by the sum of the weights
        for q in cfg.nodes:
            if q.kind == "stmt" and isinstance(q.ast, ast.Assign) and isinstance(q.ast.targets[0], ast.Subscript):
                na_t = node_attr(fl.canon(q.ast.targets[0], q.id))
                if na_t and na_t[0] == cg and na_t[2] == ("const", "position"):
                    vq = fl.canon(q.ast.value, q.id)
                    mean = is_call(vq, "numpy.mean", "numpy.nanmean") or (method_call(vq, "mean") if method_call(vq, "mean") else None)
                    avg = is_call(vq, "numpy.average")
                    if mean is not None:
                        return [ob_fail(oid, fi, q.ast, construct="bead position = mean(...) of the weighted atom positions", instance="divisor",
                                        reason="a mean divides by the number of atoms, not by the sum of the weights: with any weight other than 1 the bead is "
                                               "not the weighted average and does not follow a translation of its atoms")]
                    if avg is not None and "weights" not in dict(avg[1]):
                        return [ob_fail(oid, fi, q.ast, construct="bead position = numpy.average(...) without weights", instance="divisor",
                                        reason="the atom weights do not enter the average")]
        raise AnalysisError("forward_map_molecule: cannot find `pos += aa.nodes[n]['position'] * weight` over weights.items()", fi.where())
    n, var, W = acc
    c = is_call(W, "networkx.get_node_attributes")
    own = False
    if c and len(c[0]) >= 2 and c[0][1] == ("const", "weight"):
        na = node_attr(c[0][0])
        if na and na[0] == cg and na[2] == ("const", "graph"):
            e = elem_of(na[1])
            if e and strip_wrappers(e[1]) in (("attr", cg, "nodes"), cg):
                own = (na[1], c)
    (obs.append(ob_ok(oid, fi, n.ast, construct="sum over weights of cg.nodes[bead]['graph']", instance="members",
                      reason="the weighted sum ranges over exactly this bead's own atoms")) if own else
     obs.append(ob_fail(oid, fi, n.ast, construct="weights = %s" % show(W), instance="members",
                        reason="the weights are not the 'weight' attributes of this bead's own per-node graph")))
    # divisor: `var = var / X`, `var /= X`, or the division written inside the store `cg.nodes[bead]['position'] = var / X`
    div = None
    for m in cfg.nodes:
        st = m.ast
        if m.kind != "stmt":
            continue
        val = None
        if isinstance(st, ast.Assign) and isinstance(st.value, ast.BinOp) and isinstance(st.value.op, ast.Div) and \
                isinstance(st.value.left, ast.Name) and st.value.left.id == var:
            val = st.value.right
        elif isinstance(st, ast.AugAssign) and isinstance(st.op, ast.Div) and isinstance(st.target, ast.Name) and st.target.id == var:
            val = st.value
        if val is not None and cfg.path_exists(n.id, m.id):
            div = (m, fl.canon(val, m.id))
    if div is None:
        obs.append(ob_fail(oid, fi, n.ast, construct="no normalisation of the weighted sum", instance="divisor",
                           reason="the weighted sum is never divided by the sum of the weights"))
        return obs
    m, d = div
    ok = False
    s = is_call(d, "sum", "numpy.sum", "math.fsum")
    if s and s[0]:
        x = strip_wrappers(s[0][0])
        c2 = is_call(x, "numpy.array", "numpy.fromiter")
        if c2 and c2[0]:
            x = strip_wrappers(c2[0][0])
        mv = method_call(x, "values")
        if mv and strip_wrappers(mv[0]) == W:
            ok = True
        if x[0] == "comp" and len(x[4]) == 1:
            ev = elem_of(x[3])
            if ev and ev[0] == "value" and strip_wrappers(ev[1]) == W:
                ok = True
    # the number of atoms instead of the sum of their weights
    cl = is_call(d, "len")
    count_bad = None
    if cl and cl[0]:
        count_bad = show(d)
    memo_bad = None
    if d[0] == "sub" and not ok:
        # a memo table D[key] = sum(weights.values()): sound only when the key identifies the bead
        D, key = d[1], d[2]
        for q in cfg.nodes:
            if q.kind == "stmt" and isinstance(q.ast, ast.Assign) and isinstance(q.ast.targets[0], ast.Subscript):
                tt = fl.canon(q.ast.targets[0], q.id)
                if tt[0] == "sub" and tt[1] == D:
                    vq = fl.canon(q.ast.value, q.id)
                    sq = is_call(vq, "sum", "numpy.sum", "math.fsum")
                    mvq = method_call(strip_wrappers(sq[0][0]), "values") if sq and sq[0] else None
                    if mvq and strip_wrappers(mvq[0]) == W and own:
                        if tt[2] == own[0] and key == own[0]:
                            ok = True
                        else:
                            memo_bad = show(key)
    if d[0] == "var":
        # accumulated total of the same weights
        for dd in fl.reaching(d[1], m.id):
            al2 = aug_like(dd.ast) if dd.ast is not None and isinstance(dd.ast, (ast.AugAssign, ast.Assign)) else None
            if al2 and al2[1] is ast.Add:
                tv = fl.canon(al2[2], dd.node)
                ev = elem_of(tv)
                if ev and ev[0] == "value" and strip_wrappers(ev[1]) == W:
                    ok = True
                # total += weight for (atom, weight) in fragment.nodes(data='weight')
                if tv[0] == "sub" and tv[2] == ("const", 1) and tv[1][0] == "iter":
                    ci = tv[1][2]
                    if ci[0] == "call" and ci[2][0] == "attr" and ci[2][2] == "nodes" and c and ci[2][1] == c[0][0] and \
                            dict(ci[4]).get("data", ci[3][0] if ci[3] else None) == ("const", "weight"):
                        ok = True
    (obs.append(ob_ok(oid, fi, m.ast, construct="weighted sum / sum(weights)", instance="divisor",
                      reason="weight-normalised average: translating the atoms translates the bead by the same vector")) if ok else
     obs.append(ob_fail(oid, fi, m.ast, construct="weighted sum / %s" % show(d), instance="divisor",
                        reason=("the weighted sum is divided by the number of atoms (%s), not by the sum of their weights" % count_bad) if count_bad else
                        ("the sum of weights is remembered under %s, which does not identify the bead: another bead with the same key but other "
                                "weights is normalised with the wrong total" % memo_bad) if memo_bad else
                        "the weighted sum is not divided by the sum of the same weights (the bead is not translation-equivariant unless all weights are 1)")))
    # stored on the bead
    stored = False
    for q in cfg.nodes:
        if q.kind == "stmt" and isinstance(q.ast, ast.Assign) and isinstance(q.ast.targets[0], ast.Subscript):
            tt = fl.canon(q.ast.targets[0], q.id)
            na = node_attr(tt)
            if na and na[0] == cg and na[2] == ("const", "position") and own and na[1] == own[0] and \
                    ((isinstance(q.ast.value, ast.Name) and q.ast.value.id == var and cfg.path_exists(m.id, q.id)) or q.id == m.id):
                stored = True
    (obs.append(ob_ok(oid, fi, construct="cg.nodes[bead]['position'] = normalised sum", instance="store", reason="stored on the bead it was computed for")) if stored else
     obs.append(ob_fail(oid, fi, construct="store of the bead position", instance="store", reason="the normalised average is not stored as 'position' of the bead it was computed for")))
    return obs


ISOMETRIES = ("linalg_functions:rotate_to_axis", "graph_layout_utils:check_and_fix_cis_trans", "linalg_functions:rotate",
              "linalg_functions:rotate_degrees", "graph_layout_utils:rotate_subgraph")


def norm_scale(repo, tier="quick"):
    """C19: mean bond length = sum of |pos[u]-pos[v]| over all edges / number of edges; every position is multiplied by
    default_bond / mean; nothing writes positions after that."""
    fi = repo.function("graph_layout:vespr_layout")
    cfg, fl = fi.cfg, fi.flow
    graph, dbond = ("param", fi.positional_params[0]), ("param", fi.positional_params[1])
    obs = []
    oid = "NORM.scale"
    # the scaling statement: pos[node] *= F  (or pos[node] = pos[node] * F) for node in pos
    scale = None
    for n in cfg.nodes:
        st = n.ast
        if n.kind == "stmt" and isinstance(st, ast.AugAssign) and isinstance(st.op, ast.Mult) and isinstance(st.target, ast.Subscript) \
                and isinstance(st.target.value, ast.Name):
            scale = (n, st.target.value.id, fl.canon(st.value, n.id), st.target)
        elif n.kind == "stmt" and isinstance(st, ast.Assign) and isinstance(st.targets[0], ast.Subscript) and isinstance(st.targets[0].value, ast.Name) \
                and isinstance(st.value, ast.BinOp) and isinstance(st.value.op, ast.Mult):
            l, r = st.value.left, st.value.right
            tsrc = ast.unparse(st.targets[0])
            if ast.unparse(l) == tsrc:
                scale = (n, st.targets[0].value.id, fl.canon(r, n.id), st.targets[0])
            elif ast.unparse(r) == tsrc:
                scale = (n, st.targets[0].value.id, fl.canon(l, n.id), st.targets[0])
    values_loop = None
    if scale is None:
        # for p in pos.values(): p *= F   (the positions are arrays: the in-place product changes the dict's own values)
        for n in cfg.nodes:
            st = n.ast
            if n.kind == "stmt" and isinstance(st, ast.AugAssign) and isinstance(st.op, ast.Mult) and isinstance(st.target, ast.Name):
                e = elem_of(fl.canon(ast.Name(id=st.target.id, ctx=ast.Load()), n.id))
                lps = enclosing_loops(fi, n.id)
                if e and e[0] == "value" and lps and lps[0].kind == "for" and isinstance(lps[0].ast.iter, ast.Call) and \
                        isinstance(lps[0].ast.iter.func, ast.Attribute) and isinstance(lps[0].ast.iter.func.value, ast.Name):
                    scale = (n, lps[0].ast.iter.func.value.id, fl.canon(st.value, n.id), None)
                    values_loop = lps[0]
    if scale is None:
        # a whole-array rescaling `A *= F`: it reaches the returned dict only through rows that were handed out as views
        # (`pos[node] = A[idx]`) after the last binding of A, on every path
        rets = [n for n in cfg.nodes if n.kind == "stmt" and isinstance(n.ast, ast.Return) and isinstance(n.ast.value, ast.Name)]
        for n in cfg.nodes:
            st = n.ast
            if n.kind == "stmt" and isinstance(st, ast.AugAssign) and isinstance(st.op, ast.Mult) and isinstance(st.target, ast.Name) and rets:
                A = st.target.id
                D = rets[0].ast.value.id
                if not _positional_array(fl.canon(ast.Name(id=A, ctx=ast.Load(), lineno=st.lineno, col_offset=0), n.id), fl=fl):
                    continue
                views = set()
                for v in cfg.nodes:
                    if v.kind == "stmt" and isinstance(v.ast, ast.Assign) and isinstance(v.ast.targets[0], ast.Subscript) and \
                            isinstance(v.ast.targets[0].value, ast.Name) and v.ast.targets[0].value.id == D and \
                            isinstance(v.ast.value, ast.Subscript) and isinstance(v.ast.value.value, ast.Name) and v.ast.value.value.id == A:
                        lps = enclosing_loops(fi, v.id)
                        if lps:
                            views.add(lps[0].id)
                leaks = []
                for d in fl.reaching(A, n.id):
                    if d.kind not in ("assign", "aug"):
                        continue
                    reach = cfg.reachable_from(d.node, avoid=views, edge_filter=lambda a_, b_, l: l != "exc")
                    if n.id in reach:
                        leaks.append(d)
                if leaks:
                    return [ob_fail(oid, fi, st, construct="%s *= factor, but %s (line %d) is a fresh array whose rows are not the values of %s on every path"
                                    % (A, A, cfg.nodes[leaks[0].node].lineno, D), instance="all-nodes",
                                    reason="the rescaling is applied to a copy of the positions: on a path where the rows were not handed back to the dict the "
                                           "returned positions keep the raw layout scale")]
        raise AnalysisError("vespr_layout: no `pos[node] *= factor` rescaling found (a vectorised rewrite is outside this rule)", fi.where())
    sn, posname, F, tgt = scale
    loops = enclosing_loops(fi, sn.id)
    ok_all = False
    if values_loop is not None:
        # every value of the dict is visited; the dict must be the one that is returned
        rets = [n for n in cfg.nodes if n.kind == "stmt" and isinstance(n.ast, ast.Return)]
        ok_all = bool(rets) and all(isinstance(r.ast.value, ast.Name) and r.ast.value.id == posname for r in rets) and \
            not [g for g in guards_of(fi, sn.id) if g[2] != values_loop.id]
    elif loops and loops[0].kind == "for":
        it = loops[0].ast.iter
        k = fl.canon(tgt.slice, sn.id)
        e = elem_of(k)
        if isinstance(it, ast.Name) and it.id == posname and e and e[0] in ("elem", "key"):
            ok_all = True
        elif e and e[0] in ("elem", "key") and strip_wrappers(e[1]) in (("attr", graph, "nodes"), graph):
            ok_all = True
    (obs.append(ob_ok(oid, fi, sn.ast, construct="for node in pos: pos[node] *= factor", instance="all-nodes", reason="every position is rescaled by the same factor")) if ok_all else
     obs.append(ob_fail(oid, fi, sn.ast, construct="rescaling loop", instance="all-nodes", reason="not every node's position is multiplied by the factor")))
    # F = default_bond / MEAN
    ok_f = F[0] == "binop" and F[1] == "/" and F[2] == dbond
    mean = F[3] if ok_f else None
    if not ok_f:
        obs.append(ob_fail(oid, fi, sn.ast, construct="factor = %s" % show(F), instance="factor", reason="the factor is not default_bond / mean bond length"))
        return obs
    # MEAN = ACC / len(graph.edges), ACC accumulates norm(pos[e0] - pos[e1]) over graph.edges
    ok_mean = False
    why = "mean = %s" % show(mean)
    nedges = ("call", None, ("builtin", "len"), (("attr", graph, "edges"),), ())

    def is_len_edges(t):
        c = is_call(t, "len")
        if c and c[0] and strip_wrappers(c[0][0]) == ("attr", graph, "edges"):
            return True
        # the length of an unfiltered list comprehension over the edges
        x = strip_wrappers(c[0][0]) if c and c[0] else None
        if x and x[0] == "comp" and x[1] == "list" and len(x[4]) == 1 and not x[4][0][2]:
            e = elem_of(x[4][0][1])
            if e and e[0] == "elem" and strip_wrappers(e[1]) == ("attr", graph, "edges"):
                return True
        m = method_call(t, "number_of_edges")
        return bool(m and m[0] == graph)

    def is_edge_len(t, edges_elem_ok):
        c = is_call(t, "numpy.linalg.norm")
        if not c or not c[0]:
            return False
        d = c[0][0]
        if d[0] != "binop" or d[1] != "-":
            return False
        a, b = d[2], d[3]
        if a[0] != "sub" or b[0] != "sub" or a[1] != b[1]:
            return False
        ea, eb = a[2], b[2]
        if ea[0] == "sub" and eb[0] == "sub" and ea[1] == eb[1] and {ea[2], eb[2]} == {("const", 0), ("const", 1)}:
            e = elem_of(ea[1])
            return bool(e and e[0] == "elem" and strip_wrappers(e[1]) == ("attr", graph, "edges"))
        return False
    mean_node = None
    if mean[0] == "binop" and mean[1] == "/" and is_len_edges(mean[3]):
        acc = mean[2]
        if acc[0] == "var":
            good = True
            n_aug = 0
            for d in fl.defs:
                if d.var != acc[1] or d.kind in ("unbound",):
                    continue
                if d.id not in acc[2]:
                    continue
                al3 = aug_like(d.ast) if d.ast is not None and isinstance(d.ast, (ast.AugAssign, ast.Assign)) else None
                if al3 and al3[0] == acc[1]:
                    n_aug += 1
                    if not (al3[1] is ast.Add and is_edge_len(fl.canon(al3[2], d.node), True)):
                        good = False
                elif d.kind == "assign":
                    v = fl.canon(d.value, d.node)
                    if v not in (("const", 0), ("const", 0.0)):
                        good = False
                else:
                    good = False
            ok_mean = good and n_aug >= 1
        else:
            s = is_call(acc, "sum", "numpy.sum")
            if s and s[0] and s[0][0][0] == "comp" and is_edge_len(s[0][0][3], True):
                ok_mean = True
    else:
        c = is_call(mean, "numpy.mean")
        if c and c[0] and c[0][0][0] == "comp" and is_edge_len(c[0][0][3], True):
            ok_mean = True
    (obs.append(ob_ok(oid, fi, sn.ast, construct="mean = sum(|pos[u]-pos[v]| for (u, v) in graph.edges) / len(graph.edges)", instance="mean",
                      reason="the mean bond length after rescaling is default_bond")) if ok_mean else
     obs.append(ob_fail(oid, fi, sn.ast, construct=why, instance="mean", reason="the divisor of the rescaling is not the mean over all edges of the distance between the edge's end points")))
    # nothing writes positions after the rescaling; the returned dict is the rescaled one
    later = []
    loop_id = loops[0].id if loops else sn.id
    after = cfg.reachable_from(loop_id, edge_filter=lambda s, d, l: not (s == loop_id and l == "iter")) - (cfg.loops.get(loop_id, set()) | {loop_id})
    for n in cfg.nodes:
        if n.id in after and n.kind == "stmt":
            # rotations preserve every bond length: transparent to the rule
            if isinstance(n.ast, ast.Assign):
                v = fl.canon(n.ast.value, n.id)
                src = v[1] if v[0] == "sub" else v
                if is_call(src, *ISOMETRIES) is not None:
                    continue
            for sub in ast.walk(n.ast):
                if isinstance(sub, ast.Subscript) and isinstance(sub.ctx, ast.Store) and isinstance(sub.value, ast.Name) and sub.value.id == posname:
                    later.append(n)
                if isinstance(sub, ast.Name) and isinstance(sub.ctx, ast.Store) and sub.id == posname:
                    later.append(n)
    (obs.append(ob_fail("ORD.scale-last", fi, later[0].ast, construct=ast.unparse(later[0].ast), instance="after-scale",
                        reason="positions are written again after the rescaling to the requested bond length")) if later else
     obs.append(ob_ok("ORD.scale-last", fi, construct="no write to positions after the rescaling", instance="after-scale", reason="the scale is the last word")))
    rets = [n for n in cfg.nodes if n.kind == "stmt" and isinstance(n.ast, ast.Return)]
    ok_ret = bool(rets) and all(isinstance(r.ast.value, ast.Name) and r.ast.value.id == posname for r in rets)
    (obs.append(ob_ok("ORD.scale-last", fi, rets[0].ast if rets else None, construct="return pos", instance="return", reason="the rescaled positions are returned")) if ok_ret else
     obs.append(ob_fail("ORD.scale-last", fi, rets[0].ast if rets else None, construct="return", instance="return", reason="the function does not return the rescaled position dict")))
    # between the mean and the scaling no write to positions
    return obs


def _layout_space(t, graph, depth=0):
    """Index space of a canonical term inside the layout code: 'node' (a node key of the graph),
    'index' (a position in an enumeration: enumerate counter, range element, integer literal) or None."""
    if depth > 12 or not isinstance(t, tuple) or not t:
        return None
    if t[0] == "const":
        return "index" if isinstance(t[1], int) and not isinstance(t[1], bool) else None
    if t[0] == "attr" and t[2] in ("edges", "nodes") and t[1] == graph:
        return "node"
    if t == graph:
        return "node"
    if t[0] == "call":
        c = is_call(t, "numpy.array", "numpy.asarray", "list", "tuple", "sorted", "reversed", "iter")
        if c and c[0]:
            return _layout_space(c[0][0], graph, depth + 1)
        m = method_call(t, "nodes") or method_call(t, "edges") or method_call(t, "keys")
        if m:
            return _layout_space(m[0], graph, depth + 1) if m[1] == "keys" else ("node" if m[0] == graph else None)
        if is_call(t, "range"):
            return "index"
        # a node-keyed dict (layout result) iterates over node keys
        f = t[2]
        if f[0] == "ext" and f[1].startswith("networkx.") and f[1].endswith("_layout"):
            return "node"
        if f[0] == "fn" and f[1].endswith(":check_and_fix_cis_trans"):
            return "node"
        return None
    if t[0] == "iter":
        coll = t[2]
        if is_call(coll, "enumerate"):
            return None     # a (counter, element) pair: only its components have a space
        return _layout_space(coll, graph, depth + 1)
    if t[0] == "sub":
        base, k = t[1], t[2]
        if base[0] == "iter" and is_call(base[2], "enumerate") and k[0] == "const":
            c = is_call(base[2], "enumerate")
            if k[1] == 0:
                return "index"
            if k[1] == 1 and c[0]:
                return _layout_space(c[0][0], graph, depth + 1)
        # a component / column / slice of something made of node keys is made of node keys
        inner = _layout_space(base, graph, depth + 1)
        if inner == "node" and (k[0] in ("const", "slice", "tuple")):
            return "node"
        return None
    if t[0] == "binop":
        sp = {_layout_space(x, graph, depth + 1) for x in t[2:4]}
        return "index" if sp == {"index"} else None
    return None


def _positional_array(t, depth=0, fl=None):
    """numpy.array(list(D.values())) and what the rotation helper / arithmetic make of it: rows in enumeration order"""
    if depth > 8 or not isinstance(t, tuple) or not t:
        return False
    if t[0] == "sub" and t[2][0] not in ("const",) and False:
        pass
    if t[0] == "var" and fl is not None and t[2]:
        # several reaching definitions: positional when every one of them is
        vals = []
        for i in t[2]:
            d = fl.defs[i]
            if d.kind not in ("assign", "aug") or d.path or d.value is None:
                return False
            vals.append(fl.canon(d.value, d.node))
        return bool(vals) and all(_positional_array(v, depth + 1, fl) for v in vals)
    c = is_call(t, "numpy.array", "numpy.asarray", "list", "tuple")
    if c and c[0]:
        inner = c[0][0]
        m = method_call(inner, "values")
        if m:
            return True
        return _positional_array(inner, depth + 1, fl)
    if t[0] == "call" and t[2][0] == "fn" and t[2][1].endswith(":rotate_to_axis") and t[3]:
        return _positional_array(t[3][0], depth + 1, fl)
    # matrices networkx builds from a graph have one row / column per node in iteration order
    if t[0] == "call" and t[2][0] == "ext" and t[2][1] in ("networkx.floyd_warshall_numpy", "networkx.to_numpy_array", "networkx.adjacency_matrix",
                                                         "networkx.to_numpy_matrix", "networkx.laplacian_matrix"):
        return True
    # quotient / remainder arrays: numpy.divmod(A, k)[i]
    if t[0] == "sub" and t[2][0] == "const" and is_call(t[1], "numpy.divmod") and is_call(t[1], "numpy.divmod")[0]:
        return _positional_array(is_call(t[1], "numpy.divmod")[0][0], depth + 1, fl)
    cw = is_call(t, "numpy.where", "numpy.sqrt", "numpy.abs", "numpy.square", "numpy.asarray", "numpy.triu", "numpy.tril", "numpy.floor_divide", "numpy.mod",
                 "numpy.remainder", "numpy.floor", "numpy.ceil", "numpy.power", "numpy.multiply", "numpy.add")
    if cw and cw[0]:
        return any(_positional_array(x, depth + 1, fl) for x in cw[0])
    if t[0] == "cmp":
        return any(_positional_array(x, depth + 1, fl) for x in t[2])
    if t[0] == "binop":
        return any(_positional_array(x, depth + 1, fl) for x in t[2:4])
    return False


def _node_keyed_positions(fl, base, depth=0):
    """the position dict keyed by node: the result of a networkx layout / of the cis-trans correction, a dict built over its
    keys (dict(zip(pos, rows))), or a name that holds one of these on every path"""
    if not isinstance(base, tuple) or not base:
        return False
    if base[0] == "call" and ((base[2][0] == "ext" and base[2][1].startswith("networkx.") and base[2][1].endswith("_layout")) or
                              (base[2][0] == "fn" and base[2][1].endswith(":check_and_fix_cis_trans"))):
        return True
    if depth > 2:
        return False
    dc = is_call(base, "dict")
    if dc and base[2] == ("builtin", "dict") and len(dc[0]) == 1:
        zc = is_call(dc[0][0], "zip")
        if zc and zc[0] and _node_keyed_positions(fl, zc[0][0], depth + 1):
            return True
    if base[0] in ("var", "ifexp"):
        alts = fl.alternatives(base)
        return bool(alts) and all(_node_keyed_positions(fl, a, depth + 1) for a in alts)
    return False


def key_layout(repo, tier="quick"):
    """C19 (independence from the node labels, one position per node): inside vespr_layout a position *array*
    (rows in enumeration order of the position dict) is subscripted by enumeration counters only, and the node-keyed
    position *dict* by node keys only.  Node keys are arbitrary hashables; using them as row numbers works only for
    graphs labelled 0..n-1 in order."""
    fi = repo.function("graph_layout:vespr_layout")
    fl = fi.flow
    graph = ("param", fi.positional_params[0])
    oid = "KEY.K3-layout"
    obs = []
    for sub in ast.walk(fi.node):
        if not (isinstance(sub, ast.Subscript) and id(sub) in fi.cfg.owner):
            continue
        nid = fi.cfg.owner[id(sub)]
        base = fl.canon(sub.value, nid)
        k = fl.canon(sub.slice, nid)
        def comp_space(x):
            """space of a name bound by an enclosing comprehension: that of the elements it ranges over"""
            if x[0] != "unresolved":
                return _layout_space(x, graph)
            for comp in ast.walk(fi.node):
                if isinstance(comp, (ast.ListComp, ast.SetComp, ast.DictComp, ast.GeneratorExp)) and any(y is sub for y in ast.walk(comp)):
                    for g in comp.generators:
                        if isinstance(g.target, ast.Name) and g.target.id == x[1]:
                            try:
                                it = fl.canon(g.iter, nid)
                            except Exception:
                                return None
                            if is_call(it, "enumerate"):
                                return None
                            return _layout_space(("iter", None, it), graph)
            return None
        if _positional_array(base, fl=fl):
            sp = _layout_space(k, graph) if k[0] != "unresolved" else comp_space(k)
            if sp is None and k[0] == "tuple":
                comps = [comp_space(x) for x in k[1]]
                sp = "node" if "node" in comps else ("index" if comps and all(c == "index" for c in comps) else None)
            if sp == "node":
                obs.append(ob_fail(oid, fi, sub, construct="%s  (rows in enumeration order, subscript made of node keys)" % ast.unparse(sub), instance="array-by-node-key",
                                   reason="a position array is indexed with node keys of the graph; node keys are arbitrary labels, not row numbers: "
                                          "relabelling the graph changes or breaks the layout"))
            else:
                obs.append(ob_ok(oid, fi, sub, construct="%s" % ast.unparse(sub), instance="array-by-" + (sp or "other"),
                                 reason="the position array is not indexed with node keys"))
        elif _node_keyed_positions(fl, base):
            sp = _layout_space(k, graph)
            if sp == "index":
                obs.append(ob_fail(oid, fi, sub, construct="%s  (node-keyed positions, subscript is a counter)" % ast.unparse(sub), instance="dict-by-counter",
                                   reason="the node-keyed position dict is indexed with an enumeration counter instead of a node key"))
            else:
                obs.append(ob_ok(oid, fi, sub, construct="%s" % ast.unparse(sub), instance="dict-by-" + (sp or "other"),
                                 reason="the node-keyed position dict is indexed with %s" % ("a node key" if sp == "node" else "a value that is not a counter")))
    return obs


def null_guard_layout(repo, tier="quick"):
    """C19 (a position for every node with the default arguments): a parameter of vespr_layout whose default is None is handed
    to a callee that subscripts it unconditionally only where a guard has established that it is not None."""
    from .common import call_arg
    fi = repo.function("graph_layout:vespr_layout")
    fl, cfg = fi.flow, fi.cfg
    oid = "NULL.optional-param"
    obs = []
    defaults = fi.defaults()
    optional = [p for p, d in defaults.items() if isinstance(d, ast.Constant) and d.value is None]
    for call, nid in fl.calls():
        t = repo.resolve_call(fi, call)
        if t.kind != "repo" or t.fi is None:
            continue
        callee = t.fi
        for i, pname in enumerate(callee.positional_params):
            a = call_arg(call, i, pname)
            if a is None:
                continue
            ct = fl.canon(a, nid)
            if not (ct[0] == "param" and ct[1] in optional):
                continue
            # does the callee dereference that parameter on every path (subscript / attribute on the bare parameter)?
            deref = [s for s in ast.walk(callee.node) if isinstance(s, (ast.Subscript, ast.Attribute)) and isinstance(s.value, ast.Name) and s.value.id == pname
                     and id(s) in callee.cfg.owner]
            if not deref:
                continue
            always = any(callee.cfg.must_pass(callee.cfg.entry, {callee.cfg.exit}, {callee.cfg.owner[id(s)]}, edge_filter=lambda a_, b_, l: l != "exc") for s in deref)
            if not always:
                continue
            established = False
            for test, pol, gid in guards_of(fi, nid):
                tt = fl.canon(test, gid)
                if tt == ct and pol:
                    established = True
                if tt[0] == "cmp" and tt[1] in (("is not",), ("!=",)) and tt[2][0] == ct and tt[2][1] == ("const", None) and pol:
                    established = True
                if tt[0] == "cmp" and tt[1] in (("is",), ("==",)) and tt[2][0] == ct and tt[2][1] == ("const", None) and not pol:
                    established = True
            (obs.append(ob_ok(oid, fi, call, construct="%s(..., %s) under `%s is not None`" % (callee.name, ct[1], ct[1]), instance=callee.name + ":" + ct[1],
                              reason="the optional argument is only dereferenced where it was given")) if established else
             obs.append(ob_fail(oid, fi, call, construct="%s(..., %s) reachable with %s = None" % (callee.name, ct[1], ct[1]), instance=callee.name + ":" + ct[1],
                                reason="%s subscripts its parameter %s unconditionally; with the default %s=None the layout raises TypeError instead of returning positions"
                                       % (callee.name, pname, ct[1]))))
    if not obs:
        obs.append(ob_ok(oid, fi, construct="no optional parameter of vespr_layout reaches an unconditional dereference", instance="none",
                         reason="%d optional parameters scanned" % len(optional)))
    return obs
