"""Further provenance rules added after the first round of seeded changes was planned:
atom naming (C12), open-bond index and fragment index of the sampler (C16), RDKit attribute
round trip (C18), ring-edge bookkeeping of the graph reader (C04)."""
import ast

from .. import AnalysisError
from ..flow import show, walk_term, iter_scope
from ..report import ob_ok, ob_fail, ob_undecided
from .common import (is_call, method_call, node_attr, edge_attr, elem_of, strip_wrappers, guards_of, enclosing_loops, need, carried_by)

SELF = ("param", "self")


def prov_atom_names(repo, tier="quick"):
    """C12: atom name = element + running index within the coarse node, over all nodes of that coarse node."""
    fi = repo.function("graph_utils:set_atom_names_atomistic")
    fl, cfg = fi.flow, fi.cfg
    mol = ("param", fi.positional_params[0])
    obs = []
    oid = "PROV.atom-names"
    stores = []
    for n in cfg.nodes:
        if n.kind == "stmt" and isinstance(n.ast, ast.Assign) and isinstance(n.ast.targets[0], ast.Subscript):
            tt = fl.canon(n.ast.targets[0], n.id)
            na = node_attr(tt)
            if na and na[0] == mol and na[2] == ("const", "atomname"):
                stores.append((n, na, fl.canon(n.ast.value, n.id)))
    if not stores:
        return [ob_fail(oid, fi, construct="no store of 'atomname' on the molecule", instance="name",
                        reason="atom names are never written: all-atom results keep the fragment-level names, which repeat in every copy")]
    for n, na, v in stores:
        node = na[1]
        ok = False
        why = "name = %s" % show(v)
        if v[0] == "binop" and v[1] == "+":
            el, ix = v[2], v[3]
            nel = node_attr(el)
            c = is_call(ix, "str")
            if nel and nel[0] == mol and nel[1] == node and nel[2] == ("const", "element") and c and len(c[0]) == 1:
                e_idx = elem_of(c[0][0])
                e_node = elem_of(node)
                if e_idx and e_idx[0] == "index" and e_node and e_node[0] == "elem" and e_idx[1] == e_node[1]:
                    ok = True
                else:
                    why = "the index %s is not the position of the atom in its coarse node's atom list" % show(c[0][0])
        (obs.append(ob_ok(oid, fi, n.ast, construct="atomname = element + str(position within the coarse node)", instance="name",
                          reason="names are element plus a running index, hence unique within each coarse node")) if ok else
         obs.append(ob_fail(oid, fi, n.ast, construct=why, instance="name", reason="atom names are not `element + running index within the coarse node`")))
    # the lists being enumerated: all nodes of the coarse node's graph (meta graph given) or all nodes with that fragid
    meta = ("param", fi.positional_params[1]) if len(fi.positional_params) > 1 else None
    n_lists = 0
    for n in cfg.nodes:
        if n.kind == "stmt" and isinstance(n.ast, ast.AugAssign) and isinstance(n.ast.op, ast.Add) and isinstance(n.ast.target, ast.Subscript):
            v = fl.canon(n.ast.value, n.id)
            src = strip_wrappers(v)
            if not (src[0] == "attr" and src[2] == "nodes"):
                continue
            n_lists += 1
            G = src[1]
            key = fl.canon(n.ast.target.slice, n.id)
            na = node_attr(G)
            ek = elem_of(key)
            own = bool(na and meta and na[0] == meta and na[1] == key and na[2] == ("const", "graph") and ek and ek[0] == "elem" and
                       strip_wrappers(ek[1]) in (("attr", meta, "nodes"), meta))
            pols = []
            for test, pol, gid in guards_of(fi, n.id):
                t = fl.canon(test, gid)
                if t in (G, meta) or (t[0] == "cmp" and t[1] in (("is not",), ("!=",)) and t[2][0] in (G, meta) and t[2][1] == ("const", None)):
                    pols.append(pol)
                elif t[0] == "cmp" and t[1] in (("is",), ("==",)) and t[2][0] in (G, meta) and t[2][1] == ("const", None):
                    pols.append(not pol)
                else:
                    pols.append(None)
            if own and pols and all(p is True for p in pols):
                obs.append(ob_ok(oid, fi, n.ast, construct="atoms[meta_node] += list(meta_graph.nodes[meta_node]['graph'].nodes) when that graph exists", instance="lists:meta",
                                 reason="with the coarse graph given, every atom of every coarse node that has atoms is named"))
            elif any(p is None for p in pols):
                obs.append(ob_undecided(oid, fi, n.ast, construct="atom list filled under a condition the rule cannot read", instance="lists:meta",
                                        reason="cannot decide whether every coarse node's atoms are listed"))
            else:
                obs.append(ob_fail(oid, fi, n.ast, construct="atoms[%s] += list(%s.nodes) under guards %s" % (show(key), show(G), pols), instance="lists:meta",
                                   reason="the atom list of a coarse node is not filled from that node's own per-node graph whenever it exists: atoms stay unnamed"))
    for call, nid in fl.calls():
        ct = fl.canon(call, nid)
        m = method_call(ct, "append")
        if m and len(m[2]) == 1 and m[0][0] == "sub":
            e = elem_of(m[2][0])
            key = m[0][2]
            if not (e and e[0] == "key"):
                continue
            n_lists += 1
            okk = key[0] == "sub" and key[2] in (("const", 0), ("const", -1))
            ev = elem_of(key[1]) if okk else None
            okk = bool(okk and ev and ev[0] == "value" and ev[1] == e[1])
            c = is_call(strip_wrappers(e[1]), "networkx.get_node_attributes")
            okk = okk and bool(c and c[0][:2] == (mol, ("const", "fragid")))
            neg = [pol for test, pol, gid in guards_of(fi, nid) if meta and fl.canon(test, gid) == meta]
            okk = okk and (not neg or all(p is False for p in neg))
            (obs.append(ob_ok(oid, fi, call, construct="atoms[fragid(node)[0]].append(node) for every node of the molecule (no coarse graph given)", instance="lists:fragid",
                              reason="without the coarse graph every atom is filed under its coarse node")) if okk else
             obs.append(ob_fail(oid, fi, call, construct="atoms[%s].append(%s)" % (show(key), show(m[2][0])), instance="lists:fragid",
                                reason="atoms are not filed under their own coarse node id")))
    if n_lists < 2:
        obs.append(ob_fail(oid, fi, construct="construction of the per-coarse-node atom lists", instance="lists", reason="the atom lists are not built from all atoms of each coarse node"))
    return obs


def prov_open_bonds(repo, tier="quick"):
    """C16: the open-descriptor index is rebuilt from the molecule before every growth step and
    files every atom under each descriptor it still carries; the fragment index files
    (fragment name, atom) under each descriptor that atom carries in that fragment."""
    obs = []
    oid = "PROV.open-bonds"
    fi = repo.function("sample:MoleculeSampler.sample")
    fl, cfg = fi.flow, fi.cfg
    grows = fl.calls_to("sample:MoleculeSampler.add_fragment")
    need(len(grows) == 1, "expected one add_fragment call in sample()", fi)
    gcall, gnode, _ = grows[0]
    G = fl.canon(gcall, gnode)
    a0 = G[3][0] if G[3] else None
    a1 = G[3][1] if len(G[3]) > 1 else dict(G[4]).get("open_bonds")
    c = is_call(a1, "find_open_bonds") if a1 else None
    loops = enclosing_loops(fi, gnode)
    ok = False
    why = "the open-descriptor index passed to add_fragment is %s" % (show(a1) if a1 else "<none>")
    if c and loops:
        # the call site of find_open_bonds lies inside the growth loop and works on the molecule being grown
        site = a1[1]
        in_loop = any(n.id in cfg.loops.get(loops[0].id, set()) and n.lineno == site[0] for n in cfg.nodes)
        # written as an argument of the growth call itself: evaluated where that call is, i.e. in the loop
        if not in_loop and any(isinstance(x, ast.Call) and (x.lineno, x.col_offset) == tuple(site) for x in ast.walk(gcall) if x is not gcall):
            in_loop = gnode in cfg.loops.get(loops[0].id, set())
        same_mol = c[0] and c[0][0] == a0 and not c[0][1:] and not c[1]
        ok = in_loop and same_mol
        if not in_loop:
            why = "find_open_bonds is evaluated outside the growth loop: consumed descriptors stay in the index"
        elif not same_mol:
            why = "find_open_bonds is not applied to the whole molecule being grown"
    if not ok and a1 and a0 and a1[0] == "var" and a0[0] == "var" and len(a1) == 3 and loops:
        # the index kept in a variable: every definition that reaches the growth step is find_open_bonds(molecule), and
        # nothing touches the molecule between such a definition and the growth step (built in front of the loop and
        # rebuilt behind the step is the same sequence of calls as rebuilt in front of every step)
        ds = [fl.defs[i] for i in a1[2]]
        fine = bool(ds)
        for d in ds:
            v = fl.canon(d.value, d.node) if d.kind == "assign" and d.value is not None and not d.path else None
            cc = is_call(v, "find_open_bonds") if v else None
            fine = fine and bool(cc and len(cc[0]) == 1 and not cc[1] and isinstance(d.value, ast.Call) and len(d.value.args) == 1 and
                                 isinstance(d.value.args[0], ast.Name) and d.value.args[0].id == a0[1])
        if fine:
            D = {d.node for d in ds}
            touching = set()
            for n in cfg.nodes:
                if n.id in D or n.ast is None or n.kind not in ("stmt", "if", "while", "for", "return"):
                    continue
                parts = [n.ast] if n.kind in ("stmt", "return") else [n.ast.test if hasattr(n.ast, "test") else n.ast.iter]
                for part in parts:
                    for sub in iter_scope(part):
                        if isinstance(sub, ast.Name) and sub.id == a0[1] and isinstance(sub.ctx, ast.Store):
                            touching.add(n.id)
                        if isinstance(sub, ast.Call) and any(isinstance(x, ast.Name) and x.id == a0[1] for x in
                                                             list(sub.args) + [k.value for k in sub.keywords] +
                                                             ([sub.func.value] if isinstance(sub.func, ast.Attribute) else [])):
                            touching.add(n.id)
            stale = [m for m in sorted(touching) if not cfg.must_pass(m, {gnode}, D)]
            ok = not stale
            if stale:
                why = "the molecule is changed at line %d and the open-descriptor index is not rebuilt before the next growth step" % cfg.nodes[stale[0]].lineno
    (obs.append(ob_ok(oid, fi, gcall, construct="open_bonds = find_open_bonds(molecule) inside the growth loop", instance="fresh-index",
                      reason="every growth step sees exactly the descriptors that are still open")) if ok else
     obs.append(ob_fail(oid, fi, gcall, construct=why, instance="fresh-index", reason="a growth step can pick a descriptor that was already consumed")))
    for k, want in ((2, ("attr", SELF, "fragments_by_bonding")), (3, ("attr", SELF, "polymer_reactivities")), (4, ("attr", SELF, "fragment_reactivities"))):
        got = G[3][k] if len(G[3]) > k else None
        (obs.append(ob_ok(oid, fi, gcall, construct="add_fragment argument %d = %s" % (k, show(want)), instance="arg%d" % k, reason="the sampler's own tables are used")) if got == want else
         obs.append(ob_fail(oid, fi, gcall, construct="add_fragment argument %d = %s" % (k, show(got) if got else "<none>"), instance="arg%d" % k,
                            reason="add_fragment does not receive %s" % show(want))))
    # find_open_bonds itself
    fo = repo.function("cgsmiles_utils:find_open_bonds")
    ffl = fo.flow
    mol = ("param", fo.positional_params[0])
    good = False
    for call, nid in ffl.calls():
        ct = ffl.canon(call, nid)
        m = method_call(ct, "append")
        if not m or m[0][0] != "sub" or len(m[2]) != 1:
            continue
        key, val = m[0][2], m[2][0]
        ek = elem_of(key)
        ev = elem_of(val)
        if ek and ek[0] == "elem" and carried_by(ek[1], val, "bonding", ffl) == mol:
            good = True
    (obs.append(ob_ok(oid, fo, construct="index[d].append(node) for node, ds in bonding(molecule).items() for d in ds", instance="index",
                      reason="an atom is offered under every descriptor it carries")) if good else
     obs.append(ob_fail(oid, fo, construct="construction of the open-descriptor index", instance="index",
                        reason="the index does not file each atom under each of its own descriptors")))
    # the fragment index in __init__
    ini = repo.function("sample:MoleculeSampler.__init__")
    ifl = ini.flow
    good = False
    for call, nid in ifl.calls():
        ct = ifl.canon(call, nid)
        m = method_call(ct, "append")
        if not m or m[0][0] != "sub" or len(m[2]) != 1:
            continue
        recv_src = ast.unparse(call.func.value.value) if isinstance(call.func, ast.Attribute) and isinstance(call.func.value, ast.Subscript) else ""
        if recv_src != "self.fragments_by_bonding" and m[0][1] != ("attr", SELF, "fragments_by_bonding"):
            continue
        key, val = m[0][2], m[2][0]
        ek = elem_of(key)
        if not (ek and ek[0] == "elem" and val[0] == "tuple" and len(val[1]) == 2):
            continue
        name_t, node_t = val[1]
        fg = carried_by(ek[1], node_t, "bonding", ifl)    # the descriptors of node_t in the fragment graph fg
        if fg is not None:
            efg, ename = elem_of(fg), elem_of(name_t)
            if efg and ename and efg[0] == "value" and ename[0] == "key" and efg[1] == ename[1] and \
                    strip_wrappers(efg[1]) in (("attr", SELF, "fragment_dict"), ("param", "fragment_dict")):
                good = True
    (obs.append(ob_ok(oid, ini, construct="fragments_by_bonding[d].append((name, node)) for name, g in fragment_dict.items() for node, ds in bonding(g).items() for d in ds",
                      instance="fragment-index", reason="a partner entry names the fragment and the atom that really carry the descriptor")) if good else
     obs.append(ob_fail(oid, ini, construct="construction of fragments_by_bonding", instance="fragment-index",
                        reason="the fragment index does not map a descriptor to (fragment name, atom of that fragment carrying it)")))
    return obs


def prov_rdkit_attrs(repo, tier="quick"):
    """C18: element, formal charge, hydrogen count and bond order are carried across both conversions."""
    obs = []
    oid = "PROV.rdkit-attrs"
    fi = repo.function("rdkit:rdkit_to_networkx")
    fl, cfg = fi.flow, fi.cfg
    adds = [(c, n) for c, n in fl.calls() if isinstance(c.func, ast.Attribute) and c.func.attr == "add_node"]
    need(adds, "anchor vanished: no add_node in rdkit_to_networkx", fi)
    # props[...] stores
    want = {"element": ("GetSymbol", False), "charge": ("GetFormalCharge", True), "hcount": ("GetTotalNumHs", False)}
    found = {}
    for n in cfg.nodes:
        if n.kind == "stmt" and isinstance(n.ast, ast.Assign) and isinstance(n.ast.targets[0], ast.Subscript) and \
                isinstance(n.ast.targets[0].slice, ast.Constant) and n.ast.targets[0].slice.value in want:
            found[n.ast.targets[0].slice.value] = (n, fl.canon(n.ast.value, n.id))
    # ... or a dict literal / keyword arguments handed to add_node
    for call_, nid_ in adds:
        ct_ = fl.canon(call_, nid_)
        kw_ = dict(ct_[4])
        splat_ = kw_.get("**")
        pairs_ = list(splat_[1]) if splat_ is not None and splat_[0] == "dict" else []
        pairs_ += [(("const", k_), v_) for k_, v_ in kw_.items() if k_ != "**"]
        for k_, v_ in pairs_:
            if k_[0] == "const" and k_[1] in want and k_[1] not in found:
                found[k_[1]] = (cfg.nodes[nid_], v_)
    for key, (meth, intwrap) in want.items():
        ok = False
        if key in found:
            v = found[key][1]
            c = is_call(v, "int")
            inner = c[0][0] if c and c[0] else v
            if inner[0] == "sub" and inner[2][0] == "const" and inner[2][1] in ("symbol",):
                # props['element'] = props['symbol']
                sym = found.get("symbol")
                inner = ("call", None, ("attr", ("x",), "GetSymbol"), (), ()) if True else inner
                ok = key == "element"
            m = method_call(inner)
            if m and m[1] == meth:
                ok = True
                if key == "hcount" and (m[2] or m[3]):
                    # GetTotalNumHs(includeNeighbors=True) also counts hydrogens that are atoms of their own
                    flag = m[3].get("includeNeighbors", m[2][0] if m[2] else ("const", False))
                    ok = flag == ("const", False)
            if key == "element" and m and m[1] == "GetSymbol":
                ok = True
        (obs.append(ob_ok(oid, fi, found[key][0].ast if key in found else None, construct="%s <- atom.%s()" % (key, meth), instance="from-rdkit:" + key,
                          reason="carried over from the RDKit atom")) if ok else
         obs.append(ob_fail(oid, fi, found[key][0].ast if key in found else None, construct="%s = %s" % (key, show(found[key][1]) if key in found else "<missing>"),
                            instance="from-rdkit:" + key, reason="node attribute '%s' is not taken from atom.%s()" % (key, meth))))
    # positions: whenever the molecule has a conformer, each node gets (x, y, z) of the conformer position of its atom
    def xyz_of(v):
        """np.array([p.x, p.y, p.z]) -> p (canonical term) or None"""
        c = is_call(v, "numpy.array", "numpy.asarray")
        inner = c[0][0] if c and c[0] else v
        if inner[0] in ("list", "tuple") and len(inner[1]) == 3:
            comps = inner[1]
            if all(x[0] == "attr" for x in comps) and [x[2] for x in comps] == ["x", "y", "z"] and len({x[1] for x in comps}) == 1:
                return comps[0][1]
        return None
    for fq, target in (("rdkit:rdkit_to_networkx", "props"), ("rdkit:embed_3d_via_rdkit", "node")):
        f2 = repo.function(fq)
        l2, c2 = f2.flow, f2.cfg
        stores = []
        for n in c2.nodes:
            if n.kind == "stmt" and isinstance(n.ast, ast.Assign) and isinstance(n.ast.targets[0], ast.Subscript) and \
                    isinstance(n.ast.targets[0].slice, ast.Constant) and n.ast.targets[0].slice.value == "position":
                stores.append(n)
        if not stores:
            obs.append(ob_fail(oid, f2, construct="no store of 'position' in %s" % f2.name, instance="position:" + f2.name,
                               reason="coordinates of the conformer never reach the graph"))
            continue
        for n in stores:
            v = l2.canon(n.ast.value, n.id)
            src = xyz_of(v)
            m = method_call(src) if src is not None else None
            okp = bool(m and m[1] == "GetAtomPosition")
            if not okp:
                # one row of conformer.GetPositions(): the (x, y, z) of one atom, rows in atom index order
                c_ = is_call(v, "numpy.array", "numpy.asarray")
                row = c_[0][0] if c_ and c_[0] else v

                def positions_call(t):
                    mm = method_call(strip_wrappers(t))
                    return bool(mm and mm[1] == "GetPositions" and not mm[2])
                if row[0] == "sub" and row[1][0] == "iter" and row[2] == ("const", 1):
                    en = is_call(row[1][2], "enumerate")
                    okp = bool(en and en[0] and positions_call(en[0][0]))
                elif row[0] == "iter":
                    okp = positions_call(row[2])
                elif row[0] == "sub":
                    okp = positions_call(row[1])
            (obs.append(ob_ok(oid, f2, n.ast, construct="position = array([p.x, p.y, p.z]) with p = conf.GetAtomPosition(...)", instance="position:" + f2.name,
                              reason="the three components of the conformer position, in x, y, z order")) if okp else
             obs.append(ob_fail(oid, f2, n.ast, construct="position = %s" % show(v)[:100], instance="position:" + f2.name,
                                reason="the stored position is not (x, y, z) of the atom's conformer position")))
    # add_node(atom.GetIdx(), **props) with props the dict filled above; bonds: order = bond type as double, int unless 1.5
    eadds = [(c, n) for c, n in fl.calls() if isinstance(c.func, ast.Attribute) and c.func.attr == "add_edge"]
    need(eadds, "anchor vanished: no add_edge in rdkit_to_networkx", fi)
    for call, nid in eadds:
        ct = fl.canon(call, nid)
        o = dict(ct[4]).get("order")
        ok = False
        why = "order = %s" % (show(o) if o else "<missing>")
        if o is not None and o[0] == "var":
            ds = [d for d in fl.reaching(o[1], nid) if d.kind == "assign"]
            vals = [fl.canon(d.value, d.node) for d in ds]
            raw = [v for v in vals if method_call(v) and method_call(v)[1] == "GetBondTypeAsDouble"]
            ints = [v for v in vals if is_call(v, "int") and is_call(v, "int")[0] and is_call(v, "int")[0][0] in raw or
                    (is_call(v, "int") and is_call(v, "int")[0] and is_call(v, "int")[0][0][0] == "var")]
            guarded = True
            for d in ds:
                v = fl.canon(d.value, d.node)
                if is_call(v, "int"):
                    gs = guards_of(fi, d.node)
                    guarded = any(isinstance(t, ast.Compare) and ((pol and isinstance(t.ops[0], ast.NotEq)) or ((not pol) and isinstance(t.ops[0], ast.Eq))) and
                                  isinstance(t.comparators[0], ast.Constant) and t.comparators[0].value == 1.5 for t, pol, g in gs)
            ok = bool(raw) and guarded and len(vals) == len(raw) + len(ints)
        m = method_call(o) if o else None
        if m and m[1] == "GetBondTypeAsDouble":
            ok = True
        if o is not None and o[0] == "ifexp":
            # bt if bt == 1.5 else int(bt)   /   int(bt) if bt != 1.5 else bt
            raw_ = lambda v: bool(method_call(v) and method_call(v)[1] == "GetBondTypeAsDouble")
            int_ = lambda v: bool(is_call(v, "int") and is_call(v, "int")[0] and raw_(is_call(v, "int")[0][0]))
            t_ = o[1]
            is_15 = t_[0] == "cmp" and len(t_[1]) == 1 and t_[1][0] in ("==", "!=") and ("const", 1.5) in t_[2] and any(raw_(x) for x in t_[2])
            if is_15:
                keep, cast = (o[2], o[3]) if t_[1][0] == "==" else (o[3], o[2])
                ok = raw_(keep) and int_(cast)
        (obs.append(ob_ok(oid, fi, call, construct="order = GetBondTypeAsDouble(), int() unless 1.5", instance="from-rdkit:order",
                          reason="bond orders come back as 1.5 for aromatic bonds and as integers otherwise")) if ok else
         obs.append(ob_fail(oid, fi, call, construct=why, instance="from-rdkit:order", reason="the bond order is not the RDKit bond type (int unless 1.5)")))
        ends = ct[3][:2]
        ok_e = len(ends) == 2 and all(method_call(e) and method_call(e)[1] in ("GetBeginAtomIdx", "GetEndAtomIdx") for e in ends) and \
            {method_call(e)[1] for e in ends} == {"GetBeginAtomIdx", "GetEndAtomIdx"}
        (obs.append(ob_ok(oid, fi, call, construct="add_edge(begin idx, end idx)", instance="from-rdkit:ends", reason="bond ends")) if ok_e else
         obs.append(ob_fail(oid, fi, call, construct="add_edge(%s)" % ", ".join(show(e) for e in ends), instance="from-rdkit:ends", reason="the edge does not join the bond's begin and end atoms")))
    # forward direction
    fw = repo.function("rdkit:networkx_to_rdkit")
    wfl = fw.flow
    g = ("param", fw.positional_params[0])
    from .common import scope_functions
    scope = scope_functions(repo, fw)
    atoms = [(c, n, f.flow.canon(c, n)) for f in scope for c, n in f.flow.calls() if repo.resolve_call(f, c).name.endswith("Chem.Atom")]
    need(atoms, "anchor vanished: networkx_to_rdkit no longer creates Chem.Atom", fw)
    for call, nid, ct in atoms:
        a = ct[3][0] if ct[3] else None
        m = method_call(a, "get") if a else None
        ok = bool(m and m[2] and m[2][0] == ("const", "element"))
        if a is not None and a[0] == "sub" and a[2] == ("const", "element"):
            ok = True
        (obs.append(ob_ok(oid, fw, call, construct="Chem.Atom(props['element'])", instance="to-rdkit:element", reason="element carried over")) if ok else
         obs.append(ob_fail(oid, fw, call, construct="Chem.Atom(%s)" % (show(a) if a else ""), instance="to-rdkit:element", reason="the RDKit atom is not created from the node's element")))
    charges = [(c, n, f.flow.canon(c, n)) for f in scope for c, n in f.flow.calls() if isinstance(c.func, ast.Attribute) and c.func.attr == "SetFormalCharge"]
    okc = False
    for call, nid, ct in charges:
        a = ct[3][0] if ct[3] else None
        m = method_call(a, "get") if a else None
        if m and m[2] and m[2][0] == ("const", "charge") and (len(m[2]) < 2 or m[2][1] == ("const", 0)):
            okc = True
        if a is not None and a[0] == "sub" and a[2] == ("const", "charge"):
            okc = True
    (obs.append(ob_ok(oid, fw, charges[0][0] if charges else None, construct="atom.SetFormalCharge(props.get('charge', 0))", instance="to-rdkit:charge", reason="formal charge carried over")) if okc else
     obs.append(ob_fail(oid, fw, charges[0][0] if charges else None, construct="SetFormalCharge", instance="to-rdkit:charge", reason="the node's formal charge does not reach the RDKit atom")))
    bonds = [(c, n, wfl.canon(c, n)) for c, n in wfl.calls() if isinstance(c.func, ast.Attribute) and c.func.attr == "AddBond"]
    for call, nid, ct in bonds:
        bt = ct[3][2] if len(ct[3]) > 2 else None
        m = method_call(bt, "get") if bt else None
        ok = False
        if m and m[0] == ("modconst", "rdkit:BOND_TYPE_MAP") and m[2]:
            k = m[2][0]
            mk = method_call(k, "get")
            if mk and mk[2] and mk[2][0] == ("const", "order") and (len(mk[2]) < 2 or mk[2][1] == ("const", 1)):
                e = elem_of(mk[0])
                ok = True
            if k[0] == "sub" and k[2] == ("const", "order"):
                ok = True
            # for u, v, order in graph.edges(data='order'[, default=1])
            if k[0] == "sub" and k[2] == ("const", 2) and k[1][0] == "iter":
                ce = k[1][2]
                if ce[0] == "call" and ce[2] == ("attr", g, "edges") and dict(ce[4]).get("data", ce[3][0] if ce[3] else None) == ("const", "order") and \
                        dict(ce[4]).get("default", ("const", 1)) == ("const", 1):
                    ok = True
        if bt is not None and bt[0] == "sub" and bt[1] == ("modconst", "rdkit:BOND_TYPE_MAP"):
            ok = True
        (obs.append(ob_ok(oid, fw, call, construct="AddBond(..., BOND_TYPE_MAP[edge order])", instance="to-rdkit:order", reason="bond order carried over")) if ok else
         obs.append(ob_fail(oid, fw, call, construct="bond type %s" % (show(bt) if bt else "<none>"), instance="to-rdkit:order", reason="the RDKit bond type is not looked up from the edge's order")))
    return obs


def prov_ring_edges(repo, tier="quick"):
    """C04: a ring bond joins the node that opened the marker with the node that closed it and carries the order
    written at the opening marker; marker text and pending ring order are reset after every marker."""
    from .exc import ring_table
    fi = repo.function("read_cgsmiles:read_cgsmiles")
    fl, cfg = fi.flow, fi.cfg
    name, sites = ring_table(fi)
    obs = []
    oid = "PROV.ring-edges"
    # opening: V[m] = [current, ORDER]; closing: E.append((current, V[m][0], V[m][1]))
    order_var = None
    for n in sites["set"]:
        v = n.ast.value
        ok = isinstance(v, (ast.List, ast.Tuple)) and len(v.elts) == 2 and all(isinstance(e, ast.Name) for e in v.elts)
        if ok:
            order_var = v.elts[1].id
            cur_var = v.elts[0].id
        (obs.append(ob_ok(oid, fi, n.ast, construct="open: table[marker] = [current node, pending ring order]", instance="open", reason="the opening node and the order written there are remembered")) if ok else
         obs.append(ob_fail(oid, fi, n.ast, construct=ast.unparse(n.ast), instance="open", reason="opening a ring does not record (current node, pending ring order)")))
    need(order_var is not None, "cannot identify the pending ring order variable", fi)
    appends = [s for st in ast.walk(fi.node) for s in [st] if isinstance(s, ast.Call) and isinstance(s.func, ast.Attribute) and s.func.attr == "append"
               and len(s.args) == 1 and isinstance(s.args[0], ast.Tuple) and len(s.args[0].elts) == 3 and name in ast.unparse(s.args[0])]
    edge_list = None
    for s in appends:
        e = s.args[0].elts
        src = [ast.unparse(x) for x in e]
        m = ast.unparse(e[1]).split("[")[1].rstrip("]") if "[" in ast.unparse(e[1]) else None
        ok = isinstance(e[0], ast.Name) and e[0].id == cur_var and src[1].startswith(name + "[") and src[1].endswith("][0]") and \
            src[2].startswith(name + "[") and src[2].endswith("][1]") and src[1][:-3] == src[2][:-3]
        if isinstance(s.func.value, ast.Name):
            edge_list = s.func.value.id
        (obs.append(ob_ok(oid, fi, s, construct="close: edges.append((current node, table[marker][0], table[marker][1]))", instance="close",
                          reason="the ring bond joins closing and opening node with the remembered order")) if ok else
         obs.append(ob_fail(oid, fi, s, construct=ast.unparse(s), instance="close", reason="closing a ring does not record (current node, opening node, remembered order)")))
    need(appends, "anchor vanished: closing a ring no longer appends an edge record", fi)
    # the symbol branch sets the pending ring order from the symbol table
    sets = [d for d in fl.defs if d.var == order_var and d.kind == "assign"]
    from_table = [d for d in sets if isinstance(d.value, ast.Subscript) and isinstance(d.value.slice, ast.Name)]
    resets = [d for d in sets if d not in from_table]
    (obs.append(ob_ok(oid, fi, from_table[0].ast, construct="symbol: pending ring order = table[token]", instance="symbol", reason="a symbol in front of a marker is that ring bond's order")) if from_table else
     obs.append(ob_fail(oid, fi, construct="no `pending ring order = table[token]`", instance="symbol", reason="ring bond order symbols are not read")))
    # after each handler the pending order is reset to the default
    from .exc import sib_ring_handlers
    from .exc import ring_handlers
    handlers = ring_handlers(fi, name)
    loop = enclosing_loops(fi, handlers[0].id)[0] if handlers else None
    default_defs = {d.node for d in resets if enclosing_loops(fi, d.node) and enclosing_loops(fi, d.node)[0].id == (loop.id if loop else -1)}
    for h in handlers:
        # every path from the handler to the next iteration of the scan loop passes a reset
        after = [d for d, lab in cfg.succ[h.id]]
        ok = bool(default_defs) and loop is not None
        if ok:
            reach = cfg.reachable_from(h.id, avoid=default_defs, edge_filter=lambda a, b, l: l != "exc")
            ok = loop.id not in reach
        (obs.append(ob_ok(oid, fi, h.ast, construct="after a marker: pending ring order = default", instance="reset", reason="the next marker does not inherit this one's order")) if ok else
         obs.append(ob_fail(oid, fi, h.ast, construct="pending ring order not reset after a marker", instance="reset",
                            reason="a second ring marker on the same node inherits the order written for the first")))
    # at the start of every node's ring scan the pending ring order is the default
    if loop is not None:
        outer = enclosing_loops(fi, loop.id)
        if outer:
            head = outer[0].id
            per_node = {d.node for d in resets if [l.id for l in enclosing_loops(fi, d.node)][:1] == [head]}
            starts = [d for d, lab in cfg.succ[head] if lab in ("iter", "T")]
            ok = bool(per_node)
            for s0 in starts:
                if s0 in per_node:
                    continue
                reach = {s0} | cfg.reachable_from(s0, avoid=per_node | {head}, edge_filter=lambda a, b, l: l != "exc")
                if loop.id in reach:
                    ok = False
            (obs.append(ob_ok(oid, fi, loop.ast, construct="per node: pending ring order = default before the marker scan", instance="reset-per-node",
                              reason="a symbol scanned after one node (for example the chain bond's) cannot become the order of a ring opened on a later node")) if ok else
             obs.append(ob_fail(oid, fi, loop.ast, construct="marker scan entered without resetting the pending ring order", instance="reset-per-node",
                                reason="a bond order symbol scanned at an earlier node leaks into the next ring marker that is written without its own symbol")))
    # add_edge for ring edges uses the record's fields
    for call, nid in fl.calls():
        if isinstance(call.func, ast.Attribute) and call.func.attr == "add_edge":
            ct = fl.canon(call, nid)
            m = method_call(ct)
            if len(m[2]) >= 2 and m[2][0][0] == "sub" and elem_of(m[2][0][1]) and elem_of(m[2][0][1])[0] == "elem":
                rec = m[2][0][1]
                ok = m[2][0] == ("sub", rec, ("const", 0)) and m[2][1] == ("sub", rec, ("const", 1)) and dict(ct[4]).get("order") == ("sub", rec, ("const", 2))
                (obs.append(ob_ok(oid, fi, call, construct="add_edge(rec[0], rec[1], order=rec[2])", instance="add", reason="the recorded ring bond is added as recorded")) if ok else
                 obs.append(ob_fail(oid, fi, call, construct=show(ct)[:120], instance="add", reason="the ring bond added differs from the recorded (closing node, opening node, order)")))
    return obs


# ---------------------------------------------------------------------------
# SENT.order-zero: a bond order is never tested for truth (0 is a legitimate order)
# ---------------------------------------------------------------------------
ORDER_MODULES = ("resolve", "read_cgsmiles", "read_fragments", "sample", "graph_utils", "write_cgsmiles", "cgsmiles_utils", "pysmiles_utils")


def _is_order_value(t):
    if not isinstance(t, tuple):
        return False
    # for u, v, order in G.edges(data='order')
    if t[0] == "sub" and t[2] == ("const", 2) and t[1][0] == "iter":
        coll = strip_wrappers(t[1][2])
        me = method_call(coll, "edges")
        if me and (dict(coll[4]).get("data") == ("const", "order") or (me[2] and me[2][-1] == ("const", "order"))):
            return True
    ev = elem_of(t)
    if ev and ev[0] == "value":
        c = is_call(strip_wrappers(ev[1]), "networkx.get_edge_attributes")
        if c and len(c[0]) > 1 and c[0][1] == ("const", "order"):
            return True
    if t[0] == "sub" and t[2] == ("const", "order"):
        return True
    m = method_call(t, "get")
    if m and m[2] and m[2][0] == ("const", "order"):
        return True
    if t[0] == "sub" and t[1][0] == "dict":
        vals = [v for k, v in t[1][1]]
        if vals and all(v[0] == "const" and isinstance(v[1], (int, float)) for v in vals) and any(v[1] == 0 for v in vals):
            return True
    if m and m[0][0] == "dict":
        vals = [v for k, v in m[0][1]]
        if vals and all(v[0] == "const" and isinstance(v[1], (int, float)) for v in vals) and any(v[1] == 0 for v in vals):
            return True
    return False


def _truth_tested(expr):
    """Sub-expressions of `expr` whose truth value is taken when expr is used as a condition."""
    if isinstance(expr, ast.BoolOp):
        out = []
        for v in expr.values:
            out += _truth_tested(v)
        return out
    if isinstance(expr, ast.UnaryOp) and isinstance(expr.op, ast.Not):
        return _truth_tested(expr.operand)
    if isinstance(expr, (ast.Compare, ast.Constant)):
        return []
    return [expr]


def sent_order_zero(repo, tier="quick"):
    obs = []
    oid = "SENT.order-zero"
    n_tests = 0
    for mname in ORDER_MODULES:
        m = repo.module(mname)
        for fi in m.functions.values():
            fl, cfg = fi.flow, fi.cfg
            bad_here = []
            for sub in ast.walk(fi.node):
                tested = []
                if isinstance(sub, (ast.If, ast.While, ast.IfExp)):
                    tested = _truth_tested(sub.test)
                elif isinstance(sub, ast.Assert):
                    tested = _truth_tested(sub.test)
                elif isinstance(sub, ast.BoolOp):
                    # value context: every operand but the last is truth-tested
                    for v in sub.values[:-1]:
                        tested += _truth_tested(v)
                elif isinstance(sub, ast.UnaryOp) and isinstance(sub.op, ast.Not):
                    tested = _truth_tested(sub.operand)
                elif isinstance(sub, ast.comprehension):
                    for c in sub.ifs:
                        tested += _truth_tested(c)
                for e in tested:
                    if id(e) not in cfg.owner:
                        continue
                    n_tests += 1
                    try:
                        t = fl.canon(e, cfg.owner[id(e)])
                    except Exception:
                        continue
                    cands = [t]
                    if t[0] == "var":
                        cands = []
                        for d in [fl.defs[i] for i in t[2]]:
                            if d.kind == "assign":
                                cands.append(fl._apply_path(fl.canon(d.value, d.node), d.path))
                    if any(_is_order_value(c) for c in cands) and not any(e is b for b in bad_here):
                        bad_here.append(e)
            for e in bad_here:
                obs.append(ob_fail(oid, fi, e, construct="truth test on %s" % ast.unparse(e), instance=fi.qualname,
                                   reason="a bond order is tested for truth: order 0 (a legitimate order: virtual edge / '.') is treated like a missing value"))
            if not bad_here:
                obs.append(ob_ok(oid, fi, construct="no truth test on a bond order value", instance=fi.qualname,
                                 reason="order 0 is never confused with 'no order'"))
    if n_tests < 30:
        raise AnalysisError("truth-test scan saw only %d tested expressions (floor 30)" % n_tests)
    return obs


# ---------------------------------------------------------------------------
# DET.shared-state: results depend on the input alone, not on the history of the process
# ---------------------------------------------------------------------------
MUTATING_METHODS = {"append", "extend", "insert", "remove", "pop", "clear", "update", "setdefault", "add", "discard", "popitem", "sort", "reverse"}


def det_shared_state(repo, roots, oid="DET.shared-state", tier="quick", floor=8):
    """No function reachable from `roots` keeps state that outlives a call or an instance:
    class-level mutable attributes that are mutated, module-level containers that are mutated,
    `global` rebinding, memoising decorators."""
    obs = []
    reach = sorted(repo.reachable(roots))
    # class-level mutable attributes
    class_attrs = {}
    for mname, m in repo.modules.items():
        for cname, cnode in m.classes.items():
            for st in cnode.body:
                if isinstance(st, ast.Assign) and isinstance(st.targets[0], ast.Name):
                    v = st.value
                    mutable = isinstance(v, (ast.Dict, ast.List, ast.Set, ast.DictComp, ast.ListComp, ast.SetComp)) or \
                        (isinstance(v, ast.Call) and isinstance(v.func, ast.Name) and v.func.id in ("dict", "list", "set", "defaultdict", "OrderedDict"))
                    if mutable:
                        class_attrs[(mname, cname, st.targets[0].id)] = st
    n_funcs = 0
    for fq in reach:
        fi = repo.function(fq)
        fl, cfg = fi.flow, fi.cfg
        n_funcs += 1
        problems = []
        for sub in ast.walk(fi.node):
            if isinstance(sub, ast.Global):
                problems.append((sub, "rebinds module-level name(s) %s" % ", ".join(sub.names)))
        for dec in fi.node.decorator_list:
            d = ast.unparse(dec)
            if "lru_cache" in d or d.endswith("cache") or "cached" in d:
                problems.append((dec, "memoises its results (@%s): a later call gets the object an earlier call may have modified" % d))
        # mutation sites whose receiver is a module constant or a class attribute
        sites = []
        for call, nid in fl.calls():
            if isinstance(call.func, ast.Attribute) and call.func.attr in MUTATING_METHODS:
                sites.append((call, call.func.value, nid))
        for n in cfg.nodes:
            if n.kind == "stmt" and isinstance(n.ast, (ast.Assign, ast.AugAssign, ast.Delete)):
                tg = n.ast.targets if isinstance(n.ast, (ast.Assign, ast.Delete)) else [n.ast.target]
                for t in tg:
                    if isinstance(t, ast.Subscript):
                        sites.append((n.ast, t.value, n.id))
        for where, recv, nid in sites:
            try:
                t = fl.canon(recv, nid)
            except Exception:
                continue
            base = t
            while base[0] in ("sub", "attr") and not (base[0] == "attr" and base[1][0] == "param"):
                base = base[1]
            if base[0] == "modconst":
                problems.append((where, "mutates the module-level container %s" % base[1]))
            if base[0] == "attr" and base[1][0] == "param" and base[1][1] in ("self", "cls") and fi.cls:
                key = (fi.module.name, fi.cls, base[2])
                if key in class_attrs:
                    # a class-level container reached through self: shared by all instances unless __init__ rebinds it
                    init = fi.module.functions.get(fi.cls + ".__init__")
                    rebound = init is not None and any(d.var == "self." + base[2] and d.kind == "assign" for d in init.flow.defs)
                    if not rebound:
                        problems.append((where, "mutates the class-level container %s.%s, which is shared by all instances" % (fi.cls, base[2])))
            if base[0] == "cls" or (base[0] == "attr" and base[1][0] == "cls"):
                problems.append((where, "mutates an attribute of the class object"))
        for where, why in problems:
            obs.append(ob_fail(oid, fi, where, construct=why, instance=fi.qualname,
                               reason="state that outlives the call: the same input can give different results depending on what was done before in this process"))
        if not problems:
            obs.append(ob_ok(oid, fi, construct="no state outliving the call", instance=fi.qualname,
                             reason="no class-level or module-level container is mutated, no global is rebound, nothing is memoised"))
    # module-level names bound to a memoising wrapper, e.g. parser = lru_cache(None)(partial(...))
    for mname in sorted({fq.split(":")[0] for fq in reach}):
        m = repo.module(mname)
        for st in m.tree.body:
            if isinstance(st, ast.Assign) and isinstance(st.value, ast.Call):
                inner = st.value.func
                txt = ast.unparse(inner.func if isinstance(inner, ast.Call) else inner)
                if "lru_cache" in txt or txt.split(".")[-1] in ("cache", "memoize", "memoized", "cached"):
                    obs.append(ob_fail(oid, where="%s:%d" % (m.relpath, st.lineno), construct="%s = %s(...)" % (ast.unparse(st.targets[0]), txt), instance=mname + ":" + ast.unparse(st.targets[0]),
                                       reason="a module-level callable memoises its results: a later call gets the object an earlier call (or its caller) may have modified"))
                    obs[-1].function = mname
    if n_funcs < floor:
        raise AnalysisError("shared-state scan reached only %d functions (floor %d)" % (n_funcs, floor))
    return obs


# ---------------------------------------------------------------------------
# SENT.numeric-attribute: numeric annotations are never tested for truth
# ---------------------------------------------------------------------------
NUMERIC_KEYS = {"weight", "charge", "w", "q", "order", "hcount", "mass"}
SENT_MODULES = ("resolve", "read_cgsmiles", "read_fragments", "sample", "graph_utils", "write_cgsmiles", "cgsmiles_utils", "pysmiles_utils",
                "dialects", "coordinates", "rdkit")


def sent_numeric_attrs(repo, tier="quick"):
    """A value read from a graph under a numeric annotation key (weight, charge, order, hcount ...) is never
    used as a condition: 0 / 0.0 are legitimate values and must not be treated as 'missing'."""
    obs = []
    oid = "SENT.numeric-attribute"
    n_tests = 0
    for mname in SENT_MODULES:
        m = repo.module(mname)
        for fi in m.functions.values():
            fl, cfg = fi.flow, fi.cfg
            bad = []
            for sub in ast.walk(fi.node):
                tested = []
                if isinstance(sub, (ast.If, ast.While, ast.IfExp, ast.Assert)):
                    tested = _truth_tested(sub.test)
                elif isinstance(sub, ast.BoolOp):
                    for v in sub.values[:-1]:
                        tested += _truth_tested(v)
                elif isinstance(sub, ast.UnaryOp) and isinstance(sub.op, ast.Not):
                    tested = _truth_tested(sub.operand)
                elif isinstance(sub, ast.comprehension):
                    for c in sub.ifs:
                        tested += _truth_tested(c)
                for e in tested:
                    if id(e) not in cfg.owner or any(e is b for b in bad):
                        continue
                    n_tests += 1
                    try:
                        t = fl.canon(e, cfg.owner[id(e)])
                    except Exception:
                        continue
                    cands = [t]
                    if t[0] == "var":
                        cands = [fl._apply_path(fl.canon(d.value, d.node), d.path) for d in [fl.defs[i] for i in t[2]] if d.kind == "assign"]
                    for c in cands:
                        key = None
                        if c[0] == "sub" and c[2][0] == "const":
                            key = c[2][1]
                        mg = method_call(c, "get")
                        if mg and mg[2] and mg[2][0][0] == "const":
                            key = mg[2][0][1]
                        # for n, w in G.nodes(data='weight') / for u, v, o in G.edges(data='order'): the last component is the attribute
                        if c[0] == "sub" and c[2][0] == "const" and isinstance(c[2][1], int) and c[1][0] == "iter":
                            ci = c[1][2]
                            if ci[0] == "call" and ci[2][0] == "attr" and ci[2][2] in ("nodes", "edges"):
                                dk = dict(ci[4]).get("data", ci[3][0] if ci[3] else None)
                                if dk is not None and dk[0] == "const" and isinstance(dk[1], str) and c[2][1] == (1 if ci[2][2] == "nodes" else 2):
                                    key = dk[1]
                        cga = is_call(c[1], "networkx.get_node_attributes", "networkx.get_edge_attributes") if c[0] == "sub" else None
                        if cga and len(cga[0]) >= 2 and cga[0][1][0] == "const":
                            key = cga[0][1][1]
                        ev_ = elem_of(c)
                        if ev_ and ev_[0] == "value":
                            cgv = is_call(strip_wrappers(ev_[1]), "networkx.get_node_attributes", "networkx.get_edge_attributes")
                            if cgv and len(cgv[0]) >= 2 and cgv[0][1][0] == "const":
                                key = cgv[0][1][1]
                        if key is None:
                            # the key is a variable ranging over a list of attribute names (a literal, or a parameter's default)
                            kt = c[2] if c[0] == "sub" else (mg[2][0] if mg and mg[2] else None)
                            ek_ = elem_of(kt) if kt is not None else None
                            names_ = ()
                            if ek_ and ek_[0] == "elem":
                                coll_ = strip_wrappers(ek_[1])
                                if coll_[0] in ("tuple", "list", "set"):
                                    names_ = [x[1] for x in coll_[1] if x[0] == "const"]
                                elif coll_[0] == "param":
                                    dflt = fi.defaults().get(coll_[1])
                                    try:
                                        from ..model import fold_const as _fc
                                        names_ = list(_fc(dflt, fi.module)) if dflt is not None else ()
                                    except (ValueError, TypeError):
                                        names_ = ()
                            hit_ = [k_ for k_ in names_ if k_ in NUMERIC_KEYS]
                            if hit_ and (node_attr(c) is not None or (mg and (node_attr(("sub", mg[0], kt)) is not None or elem_of(mg[0]) is not None or mg[0][0] == "sub"))):
                                key = hit_[0]
                        if key in NUMERIC_KEYS:
                            bad.append(e)
                            break
            for e in bad:
                obs.append(ob_fail(oid, fi, e, construct="truth test on %s" % ast.unparse(e), instance=fi.qualname,
                                   reason="a numeric annotation is tested for truth: the legitimate value 0 is treated like a missing one"))
            if not bad:
                obs.append(ob_ok(oid, fi, construct="no truth test on a numeric annotation", instance=fi.qualname, reason="0 / 0.0 are handled as values"))
    if n_tests < 40:
        raise AnalysisError("truth-test scan saw only %d tested expressions (floor 40)" % n_tests)
    return obs


def early_exit(loop_ast):
    """break / return statements lexically inside the loop (not inside a nested loop for break)."""
    out = []

    def walk(stmts, depth):
        for st in stmts:
            if isinstance(st, ast.Return):
                out.append(st)
            elif isinstance(st, ast.Break) and depth == 0:
                out.append(st)
            elif isinstance(st, (ast.For, ast.While)):
                walk(st.body, depth + 1)
                walk(st.orelse, depth)
            elif isinstance(st, ast.If):
                walk(st.body, depth)
                walk(st.orelse, depth)
            elif isinstance(st, ast.Try):
                walk(st.body, depth)
                for h in st.handlers:
                    walk(h.body, depth)
                walk(st.orelse, depth)
                walk(st.finalbody, depth)
            elif isinstance(st, ast.With):
                walk(st.body, depth)
    walk(loop_ast.body, 0)
    return out


COMPLETE_LOOPS = [
    # (function, description of the loop's iterable as substring of show(canon(iter)), what must be complete)
    ("graph_utils:merge_graphs", "target_graph.nodes", "every template node is copied"),
    ("graph_utils:merge_graphs", "target_graph.edges", "every template bond is copied"),
    ("resolve:MoleculeResolver.resolve_disconnected_molecule", "self.meta_graph.nodes", "every coarse node is instantiated"),
    ("resolve:MoleculeResolver.edges_from_bonding_descrpt", "self.meta_graph.edges", "every base-graph edge is served"),
    ("resolve:MoleculeResolver.squash_atoms", "get_edge_attributes", "every '!' bond is contracted"),
    ("graph_utils:annotate_fragments", "meta_graph.nodes", "every coarse node gets its per-node graph"),
    ("graph_utils:annotate_fragments", "get_node_attributes(molecule, 'fragid')", "every fine node is filed"),
    ("pysmiles_utils:rebuild_h_atoms", "mol_graph.nodes", "every hydrogen inherits its attributes"),
    ("resolve:MoleculeResolver.read_fragment_strings", "fragment_strings", "every fragment level is read"),
    ("read_fragments:read_fragments", "fragment_iter", "every fragment definition is read"),
    ("cgsmiles_utils:find_open_bonds", ("get_node_attributes(molecule, 'bonding')", r"re:^molecule(\.nodes(\.items\(\)|\(data=True\))?)?$"), "every open descriptor is indexed"),
    ("graph_utils:annotate_fragments", ("itertools.combinations", "@enclosing:add_edge"), "every pair of a coarse node's atoms is tested for a bond"),
    ("graph_utils:annotate_fragments", "[each(meta_graph.nodes)]", "every atom of the coarse node enters its per-node graph"),
    ("graph_utils:sort_nodes_by_attr", "relative_attr", "every node-referencing attribute is translated"),
    ("graph_utils:sort_nodes_by_attr", ("networkx.get_node_attributes(networkx.relabel_nodes", r"re:^networkx\.relabel_nodes\(.*\)\.nodes(\.items\(\)|\(data=True\))?$"),
     "every entry of the attribute is translated"),
    ("graph_utils:set_atom_names_atomistic", "enumerate(", "every atom of the coarse node is named"),
    ("graph_utils:set_atom_names_atomistic", "meta_graph.nodes", "the atoms of every coarse node are listed"),
    ("pysmiles_utils:rebuild_h_atoms", "copy_attrs", "every listed attribute is inherited by the hydrogen"),
    ("pysmiles_utils:rebuild_h_atoms", "get_node_attributes(mol_graph, 'bonding')", "the hydrogen count of every atom with open descriptors is reduced"),
]

COMPLETE_LOOPS_MASS = [
    ("pysmiles_utils:compute_mass", ".nodes", "every atom contributes its mass"),
]

COMPLETE_LOOPS_RDKIT = [
    ("rdkit:networkx_to_rdkit", "mol_graph.nodes", "every atom is added to the RDKit molecule"),
    ("rdkit:networkx_to_rdkit", "mol_graph.edges", "every bond is added to the RDKit molecule"),
    ("rdkit:rdkit_to_networkx", "GetAtoms()", "every RDKit atom becomes a node"),
    ("rdkit:rdkit_to_networkx", "GetBonds()", "every RDKit bond becomes an edge"),
    ("rdkit:embed_3d_via_rdkit", ("GetAtoms()", "GetPositions()"), "every atom gets its position"),
    ("coordinates:forward_map_molecule", "cg_mol.nodes", "every bead gets a position"),
    ("coordinates:forward_map_molecule", ("'weight').items()", "'weight')"), "every atom of the bead contributes"),
]


def ord_complete_loops(repo, tier="quick", table=None):
    """Loops that have to visit every element of their collection contain no break / return."""
    obs = []
    oid = "ORD.complete-loops"
    import re as _re
    for fq, needles, what in (table or COMPLETE_LOOPS):
        fi = repo.function(fq)
        fl, cfg = fi.flow, fi.cfg
        found = False
        # alternatives: other ways of walking the same collection ("re:" marks a regular expression)
        needles = (needles,) if isinstance(needles, str) else needles
        needle = needles[0]

        class _Hit:
            def __contains__(self, it, needles=needles):
                return any((_re.search(nd[3:], it) is not None) if nd.startswith("re:") else (nd in it) for nd in needles)
        hit = _Hit()
        # "@enclosing:<method>": the loops around the calls of that method, however they are written
        around = set()
        for nd in needles:
            if nd.startswith("@enclosing:"):
                for c_, n_ in fl.calls():
                    if isinstance(c_.func, ast.Attribute) and c_.func.attr == nd.split(":", 1)[1]:
                        around |= {l.id for l in enclosing_loops(fi, n_) if l.kind == "for"}
        for n in cfg.nodes:
            if n.kind != "for":
                continue
            it = show(fl.canon(n.ast.iter, n.id))
            if n.id in around:
                it = needle
            # index.get(key, []) reads like index[key]
            it = it.replace(".get(each(", "[each(").replace("), [])", ")]") if ".get(each(" in it else it
            if it in hit:
                found = True
                ex = early_exit(n.ast)
                (obs.append(ob_fail(oid, fi, ex[0], construct="%s inside `for ... in %s`" % (type(ex[0]).__name__.lower(), needle), instance=fi.qualname + ":" + needle,
                                    reason="the loop can stop before all elements were visited, but %s" % what)) if ex else
                 obs.append(ob_ok(oid, fi, n.ast, construct="for ... in %s: no break / return" % needle, instance=fi.qualname + ":" + needle, reason=what)))
        if not found:
            # a comprehension over the same collection cannot stop early
            for sub in ast.walk(fi.node):
                if isinstance(sub, (ast.ListComp, ast.SetComp, ast.DictComp, ast.GeneratorExp)) and id(sub) in cfg.owner:
                    for g in sub.generators:
                        try:
                            it = show(fl.canon(g.iter, cfg.owner[id(sub)]))
                        except Exception:
                            continue
                        if it in hit and not found:
                            found = True
                            obs.append(ob_ok(oid, fi, sub, construct="comprehension over %s" % needle, instance=fi.qualname + ":" + needle,
                                             reason=what + " (a comprehension visits every element)"))
        if not found:
            obs.append(ob_undecided(oid, fi, construct="loop over %s" % needle, instance=fi.qualname + ":" + needle, reason="loop not found (rewritten?)"))
    return obs


def sent_anchor_key(repo, tier="quick"):
    """C05: a variable that holds either None or a node key (the anchor of the previous branch recipe) is
    compared with `is None` / `is not None`; node key 0 (the first node of the string) is falsy."""
    fi = repo.function("read_cgsmiles:read_cgsmiles")
    fl, cfg = fi.flow, fi.cfg
    obs = []
    oid = "SENT.anchor-key"
    # variables assigned from the key of `for key, value in <recipes>.items()` that also have a None definition
    cands = {}
    for d in fl.defs:
        if d.kind != "assign" or d.path:
            continue
        v = fl.canon(d.value, d.node)
        e = elem_of(v)
        if e and e[0] == "key":
            cands.setdefault(d.var, []).append(d)
    found = 0
    for var, ds in cands.items():
        nones = [d for d in fl.defs if d.var == var and d.kind == "assign" and isinstance(d.value, ast.Constant) and d.value.value is None]
        if not nones:
            continue
        for sub in ast.walk(fi.node):
            tests = []
            if isinstance(sub, (ast.If, ast.While, ast.IfExp)):
                tests = _truth_tested(sub.test)
            elif isinstance(sub, ast.UnaryOp) and isinstance(sub.op, ast.Not):
                tests = _truth_tested(sub.operand)
            elif isinstance(sub, ast.BoolOp):
                for vv in sub.values[:-1]:
                    tests += _truth_tested(vv)
            for t in tests:
                if isinstance(t, ast.Name) and t.id == var:
                    found += 1
                    obs.append(ob_fail(oid, fi, t, construct="truth test on %s (None or a node key)" % var, instance=var,
                                       reason="node key 0 is falsy: a branch anchored at the first node of the string is treated as 'no previous anchor'"))
        # is None / is not None uses
        n_is = 0
        for sub in ast.walk(fi.node):
            if isinstance(sub, ast.Compare) and isinstance(sub.left, ast.Name) and sub.left.id == var and isinstance(sub.ops[0], (ast.Is, ast.IsNot)):
                n_is += 1
        if not any((not o.ok) and o.instance == var for o in obs):
            obs.append(ob_ok(oid, fi, ds[0].ast, construct="%s is tested with `is None` / `is not None` (%d tests)" % (var, n_is), instance=var,
                             reason="anchor key 0 is handled like every other key"))
    if not obs:
        raise AnalysisError("anchor-key scan found no variable holding (None | recipe anchor key) in read_cgsmiles", fi.where())
    return obs


# ---------------------------------------------------------------------------
# PROV.option-forwarding
# ---------------------------------------------------------------------------
OPTIONS = ("legacy", "last_all_atom", "all_atom", "smiles_format")


def prov_option_forwarding(repo, tier="quick"):
    """A function that has one of the behavioural options (legacy, all_atom, last_all_atom, smiles_format) as its own
    parameter (or as self.<option>) does not call a repository function that takes the same option while leaving it at
    the callee's default: the caller's choice has to reach the callee."""
    obs = []
    oid = "PROV.option-forwarding"
    n_sites = 0
    for fi in repo.all_functions():
        if fi.module.name in ("drawing", "drawing_utils", "graph_layout", "graph_layout_utils", "linalg_functions"):
            continue
        fl = fi.flow
        own = {o for o in OPTIONS if o in fi.params}
        self_opts = set()
        if fi.cls:
            init = fi.module.functions.get(fi.cls + ".__init__")
            if init is not None and not fi.is_staticmethod and not fi.is_classmethod:
                self_opts = {o for o in OPTIONS if any(d.var == "self." + o for d in init.flow.defs if d.kind == "assign")}
        if not own and not self_opts:
            continue
        for call, nid in fl.calls():
            t = repo.resolve_call(fi, call)
            if t.kind not in ("repo", "class") or t.fi is None:
                continue
            callee = t.fi
            cparams = callee.positional_params
            if callee.cls and not callee.is_staticmethod:
                cparams = cparams[1:]
            bound = set(t.bound)
            for opt in OPTIONS:
                if opt not in callee.params or opt in bound:
                    continue
                if opt not in own and opt not in self_opts:
                    continue
                n_sites += 1
                given = None
                for kw in call.keywords:
                    if kw.arg == opt:
                        given = kw.value
                if given is None and opt in cparams and len(call.args) > cparams.index(opt):
                    given = call.args[cparams.index(opt)]
                has_splat = any(kw.arg is None for kw in call.keywords)
                if given is None and not has_splat:
                    obs.append(ob_fail(oid, fi, call, construct="%s(...) without %s=" % (callee.name, opt), instance="%s->%s:%s" % (fi.qualname, callee.name, opt),
                                       reason="%s has the option %s but calls %s with that option left at its default: the caller's choice is lost" % (fi.qualname, opt, callee.name)))
                else:
                    obs.append(ob_ok(oid, fi, call, construct="%s(..., %s=%s)" % (callee.name, opt, ast.unparse(given) if given is not None else "**kwargs"),
                                     instance="%s->%s:%s" % (fi.qualname, callee.name, opt), reason="the option is passed on explicitly"))
    if n_sites < 8:
        raise AnalysisError("option-forwarding scan matched only %d call sites (floor 8)" % n_sites)
    return obs


# ---------------------------------------------------------------------------
# PROV.hcount-bookkeeping (C01): hydrogen count of both ends when a bond is made
# ---------------------------------------------------------------------------

def prov_hcount_bookkeeping_sampler(repo, tier="quick"):
    """The sampler's growth step creates bonds between fragments like the resolver does and owes the same bookkeeping
    (sibling implementations of one step must agree): without it a descriptor on an aromatic atom leaves the ring
    over-hydrogenated (C8H12 for p-xylene) or not kekulisable."""
    return prov_hcount_bookkeeping(repo, tier, fq="sample:MoleculeSampler.add_fragment")


def prov_hcount_bookkeeping(repo, tier="quick", fq="resolve:MoleculeResolver.edges_from_bonding_descrpt"):
    """At bond creation each non-hydrogen end loses 1.5 hydrogens if it is aromatic and 1 otherwise (never below 0).
    The count is discarded for ordinary atoms later, but pysmiles' aromatic correction reads it: an aromatic atom that is a
    fragment of its own must not look saturated."""
    fi = repo.function(fq)
    fl, cfg = fi.flow, fi.cfg
    obs = []
    oid = "PROV.hcount-bookkeeping"
    stores = []
    for n in cfg.nodes:
        if n.kind == "stmt" and isinstance(n.ast, ast.Assign) and isinstance(n.ast.targets[0], ast.Subscript) and \
                isinstance(n.ast.targets[0].slice, ast.Constant) and n.ast.targets[0].slice.value == "hcount":
            stores.append(n)
    if not stores:
        return [ob_fail(oid, fi, construct="no hcount update at bond creation", instance="update",
                        reason="the ends of a new bond keep their fragment-level hydrogen counts: pysmiles' aromatic correction sees them as saturated")]
    # the two ends of the new bond (arguments of molecule.add_edge) and the atoms whose count is written
    bond_ends, ends_written = None, set()
    for call, nid in fl.calls():
        m = method_call(fl.canon(call, nid), "add_edge")
        if m and len(m[2]) >= 2 and (m[0] == ("attr", ("param", fi.params[0]), "molecule") or "bonding" in m[3]):
            bond_ends = {m[2][0], m[2][1]}
    for n in stores:
        na = node_attr(fl.canon(n.ast.targets[0], n.id))
        if na is None:
            ends_written = None
            break
        ends_written.add(na[1])
    for n in stores:
        v = fl.canon(n.ast.value, n.id)
        defs = []
        if v[0] == "var":
            for d in [fl.defs[i] for i in v[2]]:
                if d.kind == "assign":
                    defs.append((d, fl.canon(d.value, d.node)))
        else:
            defs.append((None, v))
        decs = {}
        for d, t in defs:
            c = is_call(t, "max")
            inner = None
            if c and len(c[0]) == 2 and ("const", 0) in c[0]:
                inner = [a for a in c[0] if a != ("const", 0)][0]
            if inner is not None and inner[0] == "binop" and inner[1] == "-" and inner[3][0] == "const":
                gs = guards_of(fi, d.node) if d is not None else []
                arom = [pol for tst, pol, g in gs if "aromatic" in ast.unparse(tst)]
                decs[(arom[0] if arom else None)] = inner[3][1]
            elif inner is not None and inner[0] == "binop" and inner[1] == "-" and inner[3][0] == "ifexp" and "aromatic" in show(inner[3][1]) \
                    and inner[3][2][0] == "const" and inner[3][3][0] == "const":
                # hcount - (1.5 if <aromatic> else 1)
                decs[True] = inner[3][2][1]
                decs[False] = inner[3][3][1]
        ok = decs.get(True) == 1.5 and decs.get(False) == 1
        (obs.append(ob_ok(oid, fi, n.ast, construct="hcount = max(0, hcount - (1.5 if aromatic else 1))", instance="update",
                          reason="aromatic ends lose 1.5 (their share of the ring bond), other ends 1")) if ok else
         obs.append(ob_fail(oid, fi, n.ast, construct="hcount decrements by aromaticity: %s" % {str(k): v for k, v in decs.items()}, instance="update",
                            reason="the hydrogen count of a new bond's ends is not lowered by 1.5 for aromatic and 1 for other atoms "
                                   "(an aromatic atom that forms a fragment of its own then looks saturated to the aromatic correction)")))
        # applies to both ends of the bond, skipping hydrogens only
        loops = enclosing_loops(fi, n.id)
        inner_loop = loops[0] if loops else None
        both = False
        if inner_loop is not None and inner_loop.kind == "for":
            it = fl.canon(inner_loop.ast.iter, inner_loop.id)
            both = it[0] == "sub" and it[2] == ("const", 0) and is_call(it[1], "match_bonding_descriptors") is not None
            if it[0] == "tuple" and len(it[1]) == 2:
                both = True
        if not both and ends_written is not None and bond_ends is not None and bond_ends <= ends_written:
            # written out once per end instead of as a loop over the two ends
            both = node_attr(fl.canon(n.ast.targets[0], n.id)) is not None and node_attr(fl.canon(n.ast.targets[0], n.id))[1] in bond_ends
        (obs.append(ob_ok(oid, fi, n.ast, construct="for end in (both ends of the new bond)", instance="both-ends", reason="both atoms are updated")) if both else
         obs.append(ob_fail(oid, fi, n.ast, construct="hcount update loop", instance="both-ends", reason="the hydrogen count is not updated on both ends of the new bond")))
    # every bond gets its bookkeeping: no way from the creation of the bond to a return that passes no update (a branch that
    # returns early - the terminal branch of the sampler - would leave the ends of that bond with their fragment-level counts)
    adds = []
    for call, nid in fl.calls():
        m = method_call(fl.canon(call, nid), "add_edge")
        if m and len(m[2]) >= 2 and (m[0] == ("attr", ("param", fi.params[0]), "molecule") or "bonding" in m[3]):
            adds.append(nid)
    rets = [p_ for p_, lab in cfg.pred[cfg.exit] if lab != "exc" and not (cfg.nodes[p_].kind == "stmt" and isinstance(cfg.nodes[p_].ast, ast.Raise))]
    store_ids = {n.id for n in stores}
    # stores sit under guards (hydrogen ends are skipped, a missing count is skipped): the gate is the innermost statement that
    # every path to a store passes unconditionally, i.e. the loop / if that contains it; take the outermost enclosing compound
    gates = set(store_ids)
    for n in stores:
        for g_test, g_pol, g_id in guards_of(fi, n.id):
            # only the tests on the atom itself (hydrogen ends and atoms without a count are skipped); a test on anything else
            # that decides whether the update runs at all is exactly what this obligation is about
            txt = ast.unparse(g_test)
            if "hcount" in txt or "element" in txt:
                gates.add(g_id)
        for l in enclosing_loops(fi, n.id):
            gates.add(l.id)
    skipped = None
    for a in adds:
        for r in rets:
            if cfg.path_exists(a, r) and not cfg.must_pass(a, {r}, gates, edge_filter=lambda a_, b_, l_: l_ != "exc"):
                skipped = (a, r)
    if adds:
        (obs.append(ob_fail(oid, fi, cfg.nodes[skipped[1]].ast if cfg.nodes[skipped[1]].ast is not None else None,
                            construct="a path from the new bond to a return passes no hcount update", instance="every-path",
                            reason="a bond is created and the function returns without lowering the hydrogen counts of its ends")) if skipped else
         obs.append(ob_ok(oid, fi, construct="every path from the new bond to a return passes the hcount update", instance="every-path",
                          reason="no bond is left without its bookkeeping")))
    return obs


# ---------------------------------------------------------------------------
# SENT.annotation-value (C14): annotation values are not tested for truth in the dialect parser
# ---------------------------------------------------------------------------

def sent_annotation_value(repo, tier="quick"):
    obs = []
    oid = "SENT.annotation-value"
    n = 0
    for fq in ("dialects:_parse_dialect_string", "dialects:check_and_cast_types"):
        fi = repo.function(fq)
        fl, cfg = fi.flow, fi.cfg
        bad = []
        for sub in ast.walk(fi.node):
            tested = []
            if isinstance(sub, (ast.If, ast.While, ast.IfExp)):
                tested = _truth_tested(sub.test)
            elif isinstance(sub, ast.BoolOp):
                for v in sub.values[:-1]:
                    tested += _truth_tested(v)
            elif isinstance(sub, ast.UnaryOp) and isinstance(sub.op, ast.Not):
                tested = _truth_tested(sub.operand)
            elif isinstance(sub, ast.comprehension):
                for c in sub.ifs:
                    tested += _truth_tested(c)
            for e in tested:
                owner = cfg.owner.get(id(e))
                if owner is None:
                    continue
                n += 1
                try:
                    t = fl.canon(e, owner)
                except Exception:
                    continue
                ev = elem_of(t)
                is_value = False
                if ev and ev[0] == "value":
                    src = show(ev[1])
                    if "arguments" in src or "kwargs" in src:
                        is_value = True
                # comprehension variables: canon may need the comprehension env; fall back on the source shape
                if isinstance(e, ast.Name):
                    for comp in ast.walk(fi.node):
                        if isinstance(comp, ast.comprehension) and any(e is x for c in comp.ifs for x in ast.walk(c)):
                            if isinstance(comp.target, ast.Tuple) and len(comp.target.elts) == 2 and isinstance(comp.target.elts[1], ast.Name) and \
                                    comp.target.elts[1].id == e.id and "items" in ast.unparse(comp.iter):
                                is_value = True
                if t[0] == "sub" and t[2] == ("const", 1) and method_call(t[1], "split"):
                    is_value = True
                # a local that holds the value after the cast (`casted = annotation(value)` on one path, None on others)
                if not is_value and t[0] == "var":
                    for alt in fl.alternatives(t) or []:
                        if alt and alt[0] == "call":
                            for a in alt[3]:
                                ea = elem_of(a)
                                if ea and ea[0] == "value" and ("arguments" in show(ea[1]) or "kwargs" in show(ea[1])):
                                    is_value = True
                if is_value and not any(e is b for b in bad):
                    bad.append(e)
        for e in bad:
            obs.append(ob_fail(oid, fi, e, construct="truth test on the annotation value %s" % ast.unparse(e), instance=fi.qualname,
                               reason="an annotation value is tested for truth: a weight or charge written as 0 is treated as 'not given' and replaced by the default"))
        if not bad:
            obs.append(ob_ok(oid, fi, construct="annotation values are only compared with `is None`", instance=fi.qualname, reason="0 / 0.0 are values"))
    if n < 2:
        raise AnalysisError("annotation-value scan saw only %d tested expressions (floor 2)" % n)
    return obs


# ---------------------------------------------------------------------------
# PROV.fragment-attrs (C14): per-atom annotations are applied after the defaults, so they win
# ---------------------------------------------------------------------------

def _fragment_attrs_per_node(fi, P, oid, pname):
    """the same annotation step written as one loop over the nodes; None if there is no such loop"""
    fl, cfg = fi.flow, fi.cfg
    users = []
    for call, nid in fl.calls():
        ct = fl.canon(call, nid)
        m = method_call(ct, "update")
        if not m or len(m[2]) != 1:
            continue
        src, recv = m[2][0], m[0]
        if src[0] == "sub" and src[1] == P and recv[0] == "sub" and recv[1][0] == "attr" and recv[1][2] == "nodes" and recv[2] == src[2]:
            e = elem_of(src[2])
            if e and e[0] in ("elem", "key") and strip_wrappers(e[1]) in (("attr", recv[1][1], "nodes"), recv[1][1]):
                users.append((call, nid, recv[1][1], src[2]))
    if not users:
        return None
    call, unid, G, node = users[0]
    lps = enclosing_loops(fi, unid)
    if not lps:
        return None
    head = lps[0].id
    # guards of the update: only `node in P`
    extra_guards = []
    for test, pol, gid in guards_of(fi, unid):
        if gid == head:
            continue
        t = fl.canon(test, gid)
        if not (pol and t[0] == "cmp" and t[1] == ("in",) and t[2] == (node, P)):
            extra_guards.append(ast.unparse(test))
    # default stores on the same node's attribute dict with a constant value
    late = []
    for n in cfg.nodes:
        if n.kind == "stmt" and isinstance(n.ast, ast.Assign) and isinstance(n.ast.targets[0], ast.Subscript) and n.id in cfg.loops.get(head, set()):
            na = node_attr(fl.canon(n.ast.targets[0], n.id))
            if na and na[0] == G and na[1] == node and na[2][0] == "const":
                after = n.id in cfg.reachable_from(unid, avoid={head}, edge_filter=lambda a_, b_, l_: l_ != "exc")
                if after:
                    late.append(na[2][1])
    ok = not late and not extra_guards
    if ok:
        return [ob_ok(oid, fi, call, construct="per node: defaults, then attrs.update(%s[node]) for every node in %s" % (pname, pname), instance=fi.name + ":applied",
                      reason="annotations written on a fragment atom override the defaults (weight 1, fragname ...)")]
    return [ob_fail(oid, fi, call, construct="per node: attrs.update(%s[node])" % pname, instance=fi.name + ":applied",
                    reason=("a default is written after the per-atom annotations (%s)" % late[0]) if late else
                    ("the per-atom annotations are applied only under %s" % extra_guards[0]))]


def _fragment_attrs_table(fi, P, sets, oid, pname):
    """the same step through one table: T[node] collects the defaults and then the per-atom annotations, and one
    set_node_attributes(graph, T) applies it; None if the function is not written like that"""
    fl, cfg = fi.flow, fi.cfg
    tcalls = [(c, n) for c, n, _ in sets if len(c.args) == 2 and not c.keywords and isinstance(c.args[1], ast.Name) and c.args[1].id in fl.locals]
    if len(tcalls) != 1 or len(sets) != 1:
        return None
    call, snid = tcalls[0]
    T = call.args[1].id
    # locals that are stored as an entry of T: T[k] = e
    entry_locals = {}
    for n in cfg.nodes:
        if n.kind == "stmt" and isinstance(n.ast, ast.Assign) and len(n.ast.targets) == 1:
            t = n.ast.targets[0]
            if isinstance(t, ast.Subscript) and isinstance(t.value, ast.Name) and t.value.id == T and isinstance(n.ast.value, ast.Name):
                entry_locals[n.ast.value.id] = n

    def is_entry(e):
        if isinstance(e, ast.Subscript) and isinstance(e.value, ast.Name) and e.value.id == T:
            return "table"
        if isinstance(e, ast.Name) and e.id in entry_locals:
            return e.id
        return None
    ann, dflt = [], []
    for n in cfg.nodes:
        if n.kind != "stmt":
            continue
        st = n.ast
        if isinstance(st, ast.Assign) and len(st.targets) == 1 and isinstance(st.targets[0], ast.Subscript) and is_entry(st.targets[0].value):
            dflt.append((n, is_entry(st.targets[0].value)))
        elif isinstance(st, ast.Expr) and isinstance(st.value, ast.Call) and isinstance(st.value.func, ast.Attribute) and st.value.func.attr == "update" and \
                is_entry(st.value.func.value) and len(st.value.args) == 1 and not st.value.keywords:
            a = fl.canon(st.value.args[0], n.id)
            e = elem_of(a)
            from_p = (a[0] == "sub" and a[1] == P) or (e is not None and e[0] == "value" and strip_wrappers(e[1]) == P)
            (ann if from_p else dflt).append((n, is_entry(st.value.func.value)))
    if len(ann) != 1 or not dflt:
        return None
    an, akind = ann[0]
    late = []
    for d, dkind in dflt:
        avoid = set()
        if akind != "table" and dkind == akind:
            # one entry per iteration, built in a fresh local: only the order inside an iteration counts
            lps = enclosing_loops(fi, an.id)
            fresh = [x for x in cfg.nodes if x.kind == "stmt" and isinstance(x.ast, ast.Assign) and len(x.ast.targets) == 1 and
                     isinstance(x.ast.targets[0], ast.Name) and x.ast.targets[0].id == akind and isinstance(x.ast.value, ast.Dict) and not x.ast.value.keys]
            if lps and fresh and all(x.id in cfg.loops.get(lps[0].id, set()) and cfg.dominates(x.id, an.id) for x in fresh):
                avoid = {lps[0].id}
        if d.id in cfg.reachable_from(an.id, avoid=avoid):
            late.append(d)
    applied = cfg.must_pass(cfg.entry, {cfg.exit}, {snid}) and not cfg.path_exists(snid, an.id)
    # the annotation step is skipped for no atom that has annotations: its only guards are membership tests of the node in P
    extra = []
    for test, pol, gid in guards_of(fi, an.id):
        if cfg.nodes[gid].kind == "if":
            t = fl.canon(test, gid)
            if not (pol and t[0] == "cmp" and t[1] == ("in",) and t[2][1] == P):
                extra.append(ast.unparse(test))
    ok = not late and applied and not extra
    return [ob_ok(oid, fi, an.ast, construct="table[node].update(%s[node]) after the defaults; set_node_attributes(graph, table) on every path" % pname,
                  instance=fi.name + ":applied", reason="annotations written on a fragment atom override the defaults (weight 1, fragname ...)")] if ok else \
        [ob_fail(oid, fi, an.ast, construct="table[node].update(%s[node])" % pname, instance=fi.name + ":applied",
                 reason=("a default is written into the entry after the per-atom annotations (line %d)" % late[0].lineno if late else
                         "the annotations are applied under the extra condition %s" % extra[0] if extra else
                         "a path returns the fragment without applying the table"))]


def prov_fragment_attrs(repo, tier="quick"):
    obs = []
    oid = "PROV.fragment-attrs"
    for fq, pname in (("pysmiles_utils:read_fragment_smiles", "attributes"), ("cgsmiles_utils:read_fragment_cgsmiles", "attributes")):
        fi = repo.function(fq)
        fl, cfg = fi.flow, fi.cfg
        need(pname in fi.params, "anchor vanished: %s has no parameter %s" % (fq, pname), fi)
        P = ("param", pname)
        sets = fl.calls_to("networkx.set_node_attributes")
        if not sets:
            # one pass over the nodes instead: attrs[name] = default ...; attrs.update(P[node]) for node in P
            per_node = _fragment_attrs_per_node(fi, P, oid, pname)
            if per_node is not None:
                obs += per_node
                continue
        need(sets, "anchor vanished: %s no longer uses nx.set_node_attributes" % fq, fi)
        user = []
        defaults = []
        for call, nid, _ in sets:
            ct = fl.canon(call, nid)
            a = list(ct[3]) + [None] * 3
            if a[1] == P and a[2] is None and "name" not in dict(ct[4]):
                user.append((call, nid))
            elif a[1] is not None and a[1][0] == "const":
                defaults.append((call, nid, a[2]))
        if not user:
            tab = _fragment_attrs_table(fi, P, sets, oid, pname)
            if tab is not None:
                obs += tab
                continue
        if not user:
            obs.append(ob_fail(oid, fi, construct="no set_node_attributes(graph, %s)" % pname, instance=fi.name + ":applied",
                               reason="the per-atom annotation dict is not written onto the fragment graph with overriding semantics "
                                      "(annotations written on a fragment atom do not replace the defaults)"))
            continue
        ucall, unid = user[0]
        late = [d for d in defaults if not cfg.path_exists(d[1], unid) or cfg.path_exists(unid, d[1])]
        every = cfg.must_pass(cfg.entry, {cfg.exit}, {unid}) or all(
            cfg.nodes[p].kind == "stmt" and isinstance(cfg.nodes[p].ast, ast.Return) and not cfg.path_exists(unid, p) and len(guards_of(fi, p)) > 0
            for p, lab in cfg.pred[cfg.exit] if not cfg.must_pass(cfg.entry, {p}, {unid}))
        okk = not late and cfg.must_pass(cfg.entry, {cfg.exit}, {unid})
        (obs.append(ob_ok(oid, fi, ucall, construct="set_node_attributes(graph, %s) after the defaults, on every path" % pname, instance=fi.name + ":applied",
                          reason="annotations written on a fragment atom override the defaults (weight 1, fragname ...)")) if okk else
         obs.append(ob_fail(oid, fi, ucall, construct="set_node_attributes(graph, %s)" % pname, instance=fi.name + ":applied",
                            reason=("a default is written after the per-atom annotations (%s)" % show(late[0][2]) if late else
                                    "a path returns the fragment without applying the per-atom annotations"))))
    return obs


# ---------------------------------------------------------------------------
# OWN.layout-input (C19) and OWN.fresh-fragment (C06, C12)
# ---------------------------------------------------------------------------

def own_layout_input(repo, tier="quick"):
    """vespr_layout does not modify the graph it lays out (structure or attributes)."""
    from .own import effects
    E = effects(repo)
    fi = repo.function("graph_layout:vespr_layout")
    root = ("param", fi.positional_params[0])
    items = E.effects_on(fi, root)
    oid = "OWN.layout-input"
    if items:
        return [ob_fail(oid, fi, construct="graph mutated at distance %d via %s" % (d, o.split(" ", 1)[1] if " " in o else o), instance="graph",
                        reason="the layout changes the molecule it is given: %s" % o) for d, o in items[:3]]
    return [ob_ok(oid, fi, construct="graph argument is read-only in vespr_layout and its callees", instance="graph",
                  reason="laying a molecule out does not change it (a second layout sees the same bonds)")]


def own_fresh_fragment(repo, tier="quick"):
    """A fragment graph handed out by the fragment readers is a fresh object: it is not (part of) a container passed in, and it
    is not stored into one (two definitions with the same text must not share one graph)."""
    from .own import effects
    E = effects(repo)
    obs = []
    oid = "OWN.fresh-fragment"
    for fq in ("pysmiles_utils:read_fragment_smiles", "cgsmiles_utils:read_fragment_cgsmiles"):
        fi = repo.function(fq)
        fl, cfg = fi.flow, fi.cfg
        S = E.sharing(fi)
        problems = []
        rets = [n for n in cfg.nodes if n.kind == "stmt" and isinstance(n.ast, ast.Return) and n.ast.value is not None]
        ret_terms = []
        for r in rets:
            t = fl.canon(r.ast.value, r.id)
            cands = [t]
            if t[0] == "var":
                cands = [fl.canon(d.value, d.node) for d in [fl.defs[i] for i in t[2]] if d.kind == "assign" and not d.path]
            for c in cands:
                ret_terms.append(c)
                for root, (dist, fresh) in S.share(c).items():
                    if root[0] == "param" and fresh == 0:
                        problems.append((r.ast, "returns an object taken from its argument %s" % root[1]))
        # stored into a parameter-rooted container and returned
        for n in cfg.nodes:
            if n.kind == "stmt" and isinstance(n.ast, ast.Assign) and isinstance(n.ast.targets[0], ast.Subscript):
                base = fl.canon(n.ast.targets[0].value, n.id)
                roots = [r0 for r0 in S.share(base) if r0[0] == "param"]
                v = fl.canon(n.ast.value, n.id)
                vc = [v] if v[0] != "var" else [fl.canon(d.value, d.node) for d in [fl.defs[i] for i in v[2]] if d.kind == "assign" and not d.path]
                if roots and any(x in ret_terms for x in vc):
                    problems.append((n.ast, "stores the graph it returns into its argument %s" % roots[0][1]))
        for where, why in problems:
            obs.append(ob_fail(oid, fi, where, construct=why, instance=fi.name,
                               reason="the fragment graph is shared with a container that outlives the call: annotating one definition changes another with the same text"))
        if not problems:
            obs.append(ob_ok(oid, fi, construct="returned fragment graph is freshly built", instance=fi.name, reason="every definition gets a graph of its own"))
    return obs


# ---------------------------------------------------------------------------
# PROV.after-branch-order (C04, C05)
# ---------------------------------------------------------------------------

def prov_after_branch_order(repo, tier="quick"):
    """The order of the bond to whatever follows a closed branch is the symbol written directly after the closing brace
    (after the multiplier number, if there is one), read with a membership test.  The symbol in front of a branch
    multiplier is the order between the copies of the unit: it goes into the recipe, never into the pending chain order."""
    from . import tables
    fi = repo.function("read_cgsmiles:read_cgsmiles")
    fl, cfg = fi.flow, fi.cfg
    _, (tname, table, _) = tables.reader_symbol_table(repo)
    obs = []
    oid = "PROV.after-branch-order"
    pattern = ("param", fi.positional_params[0])
    # the chain order variable: order= of the add_edge(prev, current) in the node copy loop
    ovar = None
    for call, nid in fl.calls():
        if isinstance(call.func, ast.Attribute) and call.func.attr == "add_edge":
            kw = [k for k in call.keywords if k.arg == "order"]
            a0 = fl.canon(call.args[0], nid) if call.args else None
            if kw and isinstance(kw[0].value, ast.Name) and a0 is not None and a0[0] != "sub":
                ovar = kw[0].value.id
    need(ovar is not None, "cannot identify the pending chain order variable in read_cgsmiles", fi)
    # the block handling a closed branch: the if whose body pops the branch anchor stack
    block = None
    for n in cfg.nodes:
        if n.kind == "if" and any(isinstance(x, ast.Call) and isinstance(x.func, ast.Attribute) and x.func.attr == "pop" for st in n.ast.body[:3] for x in ast.walk(st)):
            block = n
    need(block is not None, "cannot find the branch-closing block in read_cgsmiles", fi)
    inside = _arm_nodes_of(cfg, block)
    defs = [d for d in fl.defs if d.var == ovar and d.kind in ("assign", "aug") and d.node in inside]
    if not defs:
        return [ob_fail(oid, fi, block.ast, construct="no assignment of %s after a closed branch" % ovar, instance="present",
                        reason="a bond order symbol written after a branch brace is never read")]
    for d in defs:
        v = fl.canon(d.value, d.node) if d.kind == "assign" else None
        ok = False
        why = "%s = %s" % (ovar, show(v) if v is not None else "<augmented>")
        idx = None
        # table.get(pattern[i], <current value>) is the membership test and the lookup in one
        mg = method_call(v, "get") if v is not None else None
        via_get = False
        if mg and mg[0][0] == "dict" and len(mg[2]) == 2 and mg[2][0][0] == "sub" and mg[2][0][1] == pattern and \
                mg[2][1][0] == "var" and mg[2][1][1] == ovar:
            v = ("sub", mg[0], mg[2][0])
            via_get = True
        if v is not None and v[0] == "sub" and v[1][0] == "dict" and v[2][0] == "sub" and v[2][1] == pattern:
            idx = v[2][2]
            # a positive membership guard on the same character
            gs = guards_of(fi, d.node)
            member = via_get
            for test, pol, gid in gs:
                conj = test.values if isinstance(test, ast.BoolOp) and isinstance(test.op, ast.And) and pol else [test]
                for cj in conj:
                    t = fl.canon(cj, gid)
                    if pol and t[0] == "cmp" and t[1] == ("in",) and t[2][0] == ("sub", pattern, idx) and t[2][1][0] == "dict":
                        member = True
            if not member:
                why = "the symbol at %s is looked up without the membership test `pattern[i] in <symbol table>` on the same position" % show(idx)
            else:
                # the character must not be the one in front of a multiplier bar
                nxt = ("binop", "+", idx, ("const", 1))
                bar_pos = False
                bar_neg = False
                for test, pol, gid in gs:
                    for sub in ast.walk(test):
                        if isinstance(sub, ast.Compare) and len(sub.ops) == 1 and isinstance(sub.ops[0], (ast.Eq, ast.NotEq)) and \
                                isinstance(sub.comparators[0], ast.Constant) and sub.comparators[0].value == "|" and id(sub) in cfg.owner:
                            lt = fl.canon(sub.left, gid)
                            if lt[0] == "sub" and lt[1] == pattern and _same_index(lt[2], idx, 1):
                                positive = pol if isinstance(sub.ops[0], ast.Eq) else not pol
                                # inside an `or` with pol False every disjunct is false; inside a plain test polarity applies
                                if positive and not (isinstance(test, ast.BoolOp) and isinstance(test.op, ast.Or)):
                                    bar_pos = True
                                if not pol:
                                    bar_neg = True
                # the same exclusion written over a window: `"|" in pattern[a:b]` / `any(pattern[p] == "|" for p in (p1, p2))`, negated
                def _offset_from(t_, base_):
                    """c with t_ == base_ + c for linear index terms, else None"""
                    for c_ in range(-3, 4):
                        if _same_index(t_, base_, c_):
                            return c_
                    return None
                for test, pol, gid in gs:
                    if pol:
                        continue
                    tt_ = fl.canon(test, gid)
                    disj = tt_[2] if tt_[0] == "boolop" and tt_[1] == "or" else (tt_,)
                    for dj in disj:
                        if dj[0] == "cmp" and dj[1] == ("in",) and dj[2][0] == ("const", "|") and dj[2][1][0] == "sub" and dj[2][1][1] == pattern and \
                                dj[2][1][2][0] == "slice" and dj[2][1][2][3] is None and dj[2][1][2][1] is not None and dj[2][1][2][2] is not None:
                            lo_, hi_ = _offset_from(dj[2][1][2][1], idx), _offset_from(dj[2][1][2][2], idx)
                            if lo_ is not None and hi_ is not None and lo_ <= 1 < hi_:
                                bar_neg = True
                        ac = is_call(dj, "any")
                        if ac and ac[0] and ac[0][0][0] == "comp" and len(ac[0][0][4]) == 1:
                            comp_ = ac[0][0]
                            var_elem = comp_[4][0][1]
                            coll_ = var_elem[2] if var_elem[0] == "iter" else None
                            parts_ = comp_[3][2] if comp_[3][0] == "boolop" and comp_[3][1] == "and" else (comp_[3],)
                            tests_bar = any(p_[0] == "cmp" and p_[1] == ("==",) and p_[2] == (("sub", pattern, var_elem), ("const", "|")) for p_ in parts_)
                            if tests_bar and coll_ is not None and coll_[0] in ("tuple", "list") and any(_offset_from(x_, idx) == 1 for x_ in coll_[1]):
                                bar_neg = True
                # is the position "directly after the closing brace"?  (index = position of ')' + 1)
                after_brace = False
                base = idx
                if base[0] == "binop" and base[1] == "+" and base[3] == ("const", 1):
                    c = is_call(base[2], "_find_next_character")
                    if c and len(c[0]) >= 2 and c[0][1] in (("list", (("const", ")"),)), ("const", ")"), ("tuple", (("const", ")"),))):
                        after_brace = True
                # ... or "directly after the multiplier number": the scan for the end of the number, which stops at the symbols too
                after_number = False
                cnum = is_call(idx, "_find_next_character")
                if cnum and len(cnum[0]) >= 3:
                    stops = {x[1] for x in walk_term(cnum[0][1]) if isinstance(x, tuple) and len(x) == 2 and x[0] == "const" and isinstance(x[1], str)}
                    from_brace = any(isinstance(x, tuple) and x and ((x[0] == "call" and is_call(x, "_find_next_character") and x is not idx) or x[0] == "var")
                                     for x in walk_term(cnum[0][2]))
                    after_number = set(table) <= stops | {k for k in table} and from_brace and (set(table) & stops == set(table) or "keys" in show(cnum[0][1]))
                if bar_pos:
                    why = "the symbol at %s stands in front of a branch multiplier: it is the order between the copies, not of the following bond" % show(idx)
                elif after_brace and not bar_neg:
                    why = ("the symbol directly after the brace is taken as the order of the following bond without excluding that a multiplier follows it "
                           "(`)=|n`: then it is the order between the copies)")
                elif after_brace or after_number:
                    ok = True
                elif not any(isinstance(x, tuple) and x and x[0] == "call" and is_call(x, "_find_next_character") and len(is_call(x, "_find_next_character")[0]) >= 2 and
                             any(isinstance(y, tuple) and y == ("const", ")") for y in walk_term(is_call(x, "_find_next_character")[0][1]))
                             for x in walk_term(idx)) and \
                        not any(isinstance(x, tuple) and x and x[0] == "call" and method_call(x) and method_call(x)[1] in ("find", "index", "rfind") and
                                any(isinstance(y, tuple) and y == ("const", ")") for y in walk_term(x)) for x in walk_term(idx)) and \
                        not any(isinstance(x, tuple) and x and x[0] == "var" for x in walk_term(idx)):
                    # the position is computed from something else than the closing brace (the end of the node, the start of the next
                    # node): ring markers, a multiplier or another brace can stand in between
                    obs.append(ob_fail(oid, fi, d.ast, construct="%s = table[pattern[%s]]" % (ovar, show(idx)[:80]), instance="source",
                                       reason="the position of the symbol behind a branch is not computed from the position of the closing brace: with ring markers on "
                                              "the last node of the branch, or a second brace behind it, another character is read and the order written behind the "
                                              "branch is lost or taken from a ring marker"))
                else:
                    obs.append(ob_undecided(oid, fi, d.ast, construct="%s = table[pattern[%s]]" % (ovar, show(idx)[:80]), instance="source",
                                            reason="the symbol is read at a position that is neither directly behind the closing brace nor directly behind the "
                                                   "multiplier number; the rule cannot decide whether that is the symbol of the following bond "
                                                   "(`)=(`: another brace can stand between the symbol and the next node)"))
                    continue
        (obs.append(ob_ok(oid, fi, d.ast, construct="%s = table[pattern[i]] if pattern[i] in table, i right after the brace / the multiplier" % ovar, instance="source",
                          reason="the symbol after the branch is the order of the next bond")) if ok else
         obs.append(ob_fail(oid, fi, d.ast, construct=why, instance="source",
                            reason="the order of the bond that follows a closed branch is not read from the symbol directly after the brace (or after the multiplier) with a membership test")))
    return obs


def _same_index(t, base, offset):
    """t == base + offset for linear index terms (base may itself be x + c)."""
    def lin(x):
        if x[0] == "binop" and x[1] == "+" and x[3][0] == "const" and isinstance(x[3][1], int):
            b, c = lin(x[2])
            return b, c + x[3][1]
        if x[0] == "binop" and x[1] == "-" and x[3][0] == "const" and isinstance(x[3][1], int):
            b, c = lin(x[2])
            return b, c - x[3][1]
        return x, 0
    b1, c1 = lin(t)
    b2, c2 = lin(base)
    return b1 == b2 and c1 == c2 + offset


def _arm_nodes_of(cfg, ifnode):
    out = set()
    for st in ifnode.ast.body + ifnode.ast.orelse:
        for sub in ast.walk(st):
            x = cfg.node_of_stmt.get(id(sub))
            if x is not None:
                out.add(x)
    return out


# ---------------------------------------------------------------------------
# PROV.slash-marks (C15): tokenizer -> fragment reader -> node attribute -> stereo annotation
# ---------------------------------------------------------------------------

def prov_slash_marks(repo, tier="quick"):
    """The '/' and '\\' marks recorded by the fragment tokenizer are handed to the SMILES fragment reader, written as node
    attribute on every path that returns a fragment of more than one atom, and read back under the same attribute name by
    the stereo annotation that runs on the connected molecule."""
    from .common import call_arg
    obs = []
    oid = "PROV.slash-marks"
    # (a) hand-over from the tokenizer
    callee = repo.function("pysmiles_utils:read_fragment_smiles")
    fr = None
    for cand in repo.module("read_fragments").functions.values():
        if cand.flow.calls_to("pysmiles_utils:read_fragment_smiles", "read_fragment_smiles"):
            fr = cand
    need(fr is not None, "anchor vanished: nothing in read_fragments.py calls read_fragment_smiles", callee)
    fl = fr.flow
    need("ez_isomers" in callee.params, "anchor vanished: read_fragment_smiles has no parameter ez_isomers", callee)
    pidx = callee.positional_params.index("ez_isomers")
    sites = fl.calls_to("pysmiles_utils:read_fragment_smiles", "read_fragment_smiles")
    need(sites, "anchor vanished: read_fragments does not call read_fragment_smiles", fr)
    for call, nid, _ in sites:
        a = call_arg(call, pidx, "ez_isomers")
        t = fl.canon(a, nid) if a is not None else None
        good = False
        if t is not None and t[0] == "sub" and t[2] == ("const", 2):
            c = t[1]
            good = c[0] == "call" and c[2] == ("fn", "read_fragments:strip_bonding_descriptors")
        (obs.append(ob_ok(oid, fr, call, construct="read_fragment_smiles(..., ez_isomers=strip_bonding_descriptors(..)[2])", instance="handover",
                          reason="the marks found by the tokenizer reach the fragment reader")) if good else
         obs.append(ob_fail(oid, fr, call, construct="read_fragment_smiles(..., ez_isomers=%s)" % (show(t) if t else "<default>"), instance="handover",
                            reason="the slash marks of the fragment string are not handed to the fragment reader: cis/trans information is dropped")))
    # (b)+(c) written on every multi-atom path
    fi = callee
    fl, cfg = fi.flow, fi.cfg
    P = ("param", "ez_isomers")
    writes = []
    for call, nid, _ in fl.calls_to("networkx.set_node_attributes"):
        ct = fl.canon(call, nid)
        a = list(ct[3]) + [None] * 3
        kw = dict(ct[4])
        name = a[2] if a[2] is not None else kw.get("name")
        vals = a[1] if a[1] is not None else kw.get("values")
        if vals is not None and any(x == P for x in walk_term(vals)):
            writes.append((call, nid, a[0], vals, name))
    if not writes:
        return obs + [ob_fail(oid, fi, construct="no set_node_attributes(graph, <from ez_isomers>, name)", instance="written",
                              reason="the marks recorded by the tokenizer are not written on the fragment atoms")]
    call, wnid, g, vals, wname = writes[0]
    obs.append(ob_ok(oid, fi, call, construct="set_node_attributes(graph, {idx: mark}, %s) from ez_isomers" % (show(wname) if wname else "?"), instance="written",
                     reason="the class marks are the ones recorded by the tokenizer"))
    # every exit passes the write: a fragment of one atom carries a mark too (`[O-]/[$]` in front of `[$]/C=C/F`); the single-atom
    # shortcut used to return before the marks were written (repaired in /repo: "fix: slash marks of single-atom fragments")
    bad = []
    for p, lab in cfg.pred[cfg.exit]:
        if cfg.must_pass(cfg.entry, {p}, {wnid}) or p == wnid:
            continue
        n = cfg.nodes[p]
        single = any("len(" in ast.unparse(test) and "1" in ast.unparse(test) for test, pol, gid in guards_of(fi, p))
        bad.append((n, "the single-atom shortcut returns before the marks are written" if single else "return before the class marks are written"))
    if bad:
        for n, why in bad[:3]:
            obs.append(ob_fail(oid, fi, n.ast, construct="return before the class marks are written (%s)" % why, instance="every-path",
                               reason="a fragment can be returned without its slash marks; the mark of an atom describes the bond to the neighbouring fragment "
                                      "too, so cis/trans annotations silently disappear ({#A=[O-]/[$],#B=[$]/C=C/F} resolves without any)"))
    else:
        obs.append(ob_ok(oid, fi, call, construct="every return passes the class-mark write", instance="every-path",
                         reason="single-atom fragments keep their marks as well"))
    # (d) the reader of the attribute uses the same name
    fa = repo.function("pysmiles_utils:annotate_ez_isomers_cgsmiles")

    def attr_name(fi_, t, depth=0):
        """the string an attribute-name term stands for: a literal, a module-level constant, or a parameter whose default and
        whose argument at every call site in the package stand for one and the same string"""
        if t is None or depth > 3:
            return None
        if t[0] == "const":
            return t if isinstance(t[1], str) else None
        if t[0] == "modconst":
            mname, cname = t[1].split(":", 1)
            try:
                v = repo.module(mname).constants.get(cname)
            except AnalysisError:
                return None
            return ("const", v.value) if isinstance(v, ast.Constant) and isinstance(v.value, str) else None
        if t[0] == "param" and t[1] in fi_.params:
            d = fi_.defaults().get(t[1])
            if d is None:
                return None
            got = {attr_name(fi_, fi_.flow.canon(d, fi_.cfg.entry) if not isinstance(d, ast.Constant) else ("const", d.value), depth + 1)}
            pos = list(fi_.positional_params).index(t[1]) if t[1] in fi_.positional_params else None
            for other in repo.all_functions():
                for c3, n3, _ in other.flow.calls_to(fi_.fq):
                    ct3 = other.flow.canon(c3, n3)
                    a3 = dict(ct3[4]).get(t[1])
                    if a3 is None and pos is not None:
                        off = 1 if fi_.cls and ct3[2][0] == "attr" else 0
                        a3 = ct3[3][pos - off] if 0 <= pos - off < len(ct3[3]) else None
                    if a3 is not None:
                        got.add(attr_name(other, a3, depth + 1))
            return got.pop() if len(got) == 1 else None
        return None
    if wname is not None and wname[0] != "const":
        wname = attr_name(callee, wname) or wname
    names = []
    for c2, n2, _ in fa.flow.calls_to("networkx.get_node_attributes"):
        ct = fa.flow.canon(c2, n2)
        a = list(ct[3]) + [None] * 2
        name = a[1] if a[1] is not None else dict(ct[4]).get("name")
        if a[0] == ("param", fa.positional_params[0]):
            names.append((attr_name(fa, name) or name, c2))
    if not names:
        # no get_node_attributes: the attribute may be read from the node dictionaries directly (attrs[name], name in attrs, .get(name))
        consts = [x for x in ast.walk(fa.node) if isinstance(x, ast.Constant) and isinstance(x.value, str)]
        docstring = ast.get_docstring(fa.node) or ""
        used = [x for x in consts if x.value != docstring]
        if wname is not None and wname[0] == "const" and any(x.value == wname[1] for x in used):
            obs.append(ob_ok(oid, fa, construct="node attribute %s read in annotate_ez_isomers_cgsmiles" % show(wname), instance="read-back",
                             reason="writer and reader of the class marks agree on the attribute name"))
        else:
            obs.append(ob_fail(oid, fa, construct="marks written as %s, not read in annotate_ez_isomers_cgsmiles" % (show(wname) if wname else "?"),
                               instance="read-back", reason="the stereo annotation does not read the attribute the fragment reader writes"))
        return obs
    hit = [c2 for name, c2 in names if name == wname and wname is not None and wname[0] == "const"]
    if hit:
        obs.append(ob_ok(oid, fa, hit[0], construct="get_node_attributes(molecule, %s)" % show(wname), instance="read-back",
                         reason="writer and reader of the class marks agree on the attribute name"))
    else:
        obs.append(ob_fail(oid, fa, names[0][1], construct="marks written as %s, read as %s" % (show(wname) if wname else "?", ", ".join(show(n) for n, _ in names if n)),
                           instance="read-back", reason="the stereo annotation does not read the attribute the fragment reader writes"))
    return obs


# ---------------------------------------------------------------------------
# TT.layer-format (C08): which fragment layer is written as atomistic SMILES
# ---------------------------------------------------------------------------

def tt_layer_format(repo, tier="quick"):
    """write_cgsmiles executed abstractly for three fragment layers and both values of last_all_atom: every layer is written
    once, in order, and only the last one is written in the atomistic format, and only when last_all_atom is set."""
    from ..absint import Evaluator, Unsupported, Raised
    fi = repo.function("write_cgsmiles:write_cgsmiles")
    oid = "TT.layer-format"
    params = fi.positional_params
    need(len(params) >= 3 and "last_all_atom" in params, "anchor vanished: write_cgsmiles(molecule_graph, fragments, last_all_atom)", fi)
    layers = ["layer0", "layer1", "layer2"]
    bad = []
    for laa in (True, False):
        rec = []

        def hook(ev, call, env):
            f = call.func
            name = f.id if isinstance(f, ast.Name) else (f.attr if isinstance(f, ast.Attribute) else None)
            if name == "enumerate" and len(call.args) >= 1:
                seq = ev.eval(call.args[0], env)
                start = 0
                for kw in call.keywords:
                    if kw.arg == "start":
                        start = ev.eval(kw.value, env)
                if len(call.args) > 1:
                    start = ev.eval(call.args[1], env)
                return True, [(i + start, x) for i, x in enumerate(seq)]
            if name == "write_cgsmiles_fragments":
                frag = ev.eval(call.args[0], env) if call.args else None
                fmt = True      # the callee's default
                if len(call.args) > 1:
                    fmt = ev.eval(call.args[1], env)
                for kw in call.keywords:
                    if kw.arg == "smiles_format":
                        fmt = ev.eval(kw.value, env)
                    elif kw.arg == "fragment_dict":
                        frag = ev.eval(kw.value, env)
                rec.append((frag, bool(ev.truth(fmt))))
                return True, "{F}"
            if name == "write_cgsmiles_graph":
                return True, "{G}"
            return False, None
        ev = Evaluator(call_hook=hook)
        try:
            ev.run_function(fi.node, {params[0]: "G", params[1]: list(layers), "last_all_atom": laa})
        except Unsupported as err:
            raise AnalysisError("write_cgsmiles outside the evaluator's language: %s" % err, fi.where())
        want = [("layer0", False), ("layer1", False), ("layer2", laa)]
        if rec != want:
            bad.append((laa, rec))
    if bad:
        return [ob_fail(oid, fi, construct="last_all_atom=%s: layers written as %s" % (laa, rec), instance="layers",
                        reason="every fragment layer has to be written once, in order, in the coarse format except the last one when last_all_atom is set; "
                               "the reader interprets the layers by that rule") for laa, rec in bad]
    return [ob_ok(oid, fi, construct="3 layers x last_all_atom in {True, False}: only the last layer is atomistic, only if last_all_atom", instance="layers",
                  reason="abstract execution of write_cgsmiles: the format per layer is the one the reader assumes")]


def prov_kept_hydrogens(repo, tier="quick"):
    """C15 / C09: a hydrogen written as a bracket atom of its own ([H], [H;0.1], /[H]) stays a node of the fragment whatever its
    annotations are: the set of hydrogens hidden from pysmiles' hydrogen removal is taken from the *keys* of the annotation
    table (every bracket atom has an entry), never filtered by the annotation values.  A slash mark, a weight or a class label
    is attached to that node by index afterwards; removing the node silently drops it."""
    fi = repo.function("pysmiles_utils:read_fragment_smiles")
    fl, cfg = fi.flow, fi.cfg
    oid = "PROV.kept-hydrogens"
    need("attributes" in fi.params, "anchor vanished: read_fragment_smiles has no `attributes` parameter", fi)
    attrs = ("param", "attributes")
    removes = [(c, n) for c, n in fl.calls() if isinstance(c.func, ast.Attribute) and c.func.attr == "remove_explicit_hydrogens"]
    need(removes, "anchor vanished: read_fragment_smiles no longer calls pysmiles.remove_explicit_hydrogens", fi)
    rcall, rnode = removes[0]
    hides = []
    for call, nid, _ in fl.calls_to("networkx.set_node_attributes"):
        ct = fl.canon(call, nid)
        a = list(ct[3]) + [None] * 3
        kw = dict(ct[4])
        name = a[2] if a[2] is not None else kw.get("name")
        vals = a[1] if a[1] is not None else kw.get("values")
        if name == ("const", "element") and vals is not None and cfg.dominates(nid, rnode) and nid != rnode:
            hides.append((call, nid, vals))
    if not hides:
        return [ob_fail(oid, fi, rcall, construct="remove_explicit_hydrogens without hiding the annotated hydrogens first", instance="hidden-set",
                        reason="every explicit hydrogen is folded into its neighbour's hydrogen count: hydrogens written as atoms of their own lose "
                               "their node, and with it weight, slash mark and other annotations")]
    obs = []
    for call, nid, vals in hides:
        uses_keys = False
        by_value = None
        for x in walk_term(vals):
            if not isinstance(x, tuple) or not x:
                continue
            if x == attrs:
                uses_keys = True
            m = method_call(x)
            if m and m[0] == attrs and m[1] in ("items", "values", "get", "pop"):
                by_value = "attributes.%s()" % m[1]
            if x[0] == "sub" and x[1] == attrs:
                by_value = "attributes[...]"
        if by_value:
            obs.append(ob_fail(oid, fi, call, construct="hydrogens to keep are selected through %s" % by_value, instance="hidden-set",
                               reason="whether a bracket hydrogen stays a node depends on the values of its annotations: a hydrogen that carries only "
                                      "a slash mark (or default annotations) is removed and the mark written for its index is lost"))
        elif uses_keys:
            obs.append(ob_ok(oid, fi, call, construct="hydrogens to keep = keys of the annotation table that are hydrogens", instance="hidden-set",
                             reason="every hydrogen written as a bracket atom stays a node"))
        else:
            obs.append(ob_undecided(oid, fi, call, construct="hidden hydrogens = %s" % show(vals)[:80], instance="hidden-set",
                                    reason="the set of hydrogens hidden from the removal is not derived from the annotation table in a form the rule knows"))
    return obs
