"""Necessary conditions that today's tree does not meet (DESIGN section 16): each of them was found by testing, is a genuine
violation of the properties named in known_findings.json, and is not a small safe repair.  The rules state the structural
condition, report it, and the finding is listed as `known`; a repaired tree makes them silent."""
import ast

from .. import AnalysisError
from ..absint import Evaluator, Unsupported
from ..flow import show
from ..report import ob_ok, ob_fail, ob_undecided
from .common import is_call, method_call, elem_of, strip_wrappers, guards_of, enclosing_loops, need


def tok_fragment_multiplier(repo, tier="quick"):
    """D6: fragments use the general graph syntax, so `|n` can follow a node of a coarse fragment.  The fragment tokenizer
    has to treat `|` and the number behind it as a multiplier; a `|` that is dispatched to the bare-atom branch counts as one
    atom and shifts every later descriptor and annotation index."""
    from .tok import Tokenizer
    T = Tokenizer(repo)
    fi = T.fi
    oid = "TOK.T7-multiplier"
    atom_branch = T.dispatch.get("C")
    hit = None
    for i, (test, body, node) in enumerate(T.branches):
        if test is None:
            hit = i
            break
        ev = Evaluator()
        env0 = T._constants_env()
        env0.update({nm: dict(T.table) for nm in T.table_names})
        env0[T.token] = "|"
        try:
            if ev.truth(ev.eval(test, env0)):
                hit = i
                break
        except Unsupported as err:
            return [ob_undecided(oid, fi, test, construct="dispatch of '|'", instance="dispatch", reason="dispatch test outside the predicate language: %s" % err)]
    if hit is not None and hit == atom_branch:
        return [ob_fail(oid, fi, T.branches[hit][2], construct="'|' is handled by the bare-atom branch", instance="dispatch",
                        reason="the multiplier character of a coarse fragment is counted as one atom (and its digits are read as ring digits): every "
                               "descriptor and annotation written behind `[#A]|n` lands on the wrong node")]
    return [ob_ok(oid, fi, T.branches[hit][2] if hit is not None else None, construct="'|' has a branch of its own", instance="dispatch",
                  reason="the multiplier is not counted as an atom")]


def _dialect_kind(repo, module, name):
    """'atom' / 'coarse' / None for a name that resolves to a partial of _parse_dialect_string: by the symbols its
    arg_to_fullname table maps (x: chirality of atoms; q: charge of coarse nodes)."""
    t = repo.resolve_name(module, name)
    if t is None or not getattr(t, "bound", None):
        return None
    tab = t.bound.get("arg_to_fullname")
    if not isinstance(tab, ast.Dict):
        return None
    keys = {k.value for k in tab.keys if isinstance(k, ast.Constant)}
    if "x" in keys and "q" not in keys:
        return "atom"
    if "q" in keys and "x" not in keys:
        return "coarse"
    return None


def fragment_parser_selection(repo):
    """How strip_bonding_descriptors chooses the parser of a node's annotation text.  Returns (call sites, verdict, text):
    'selected' (by the resolution flag, atoms with the atomistic dialect and coarse nodes with the coarse one), 'swapped',
    'single:<kind>' (one fixed dialect for all fragments), 'unknown'."""
    fi = repo.function("read_fragments:strip_bonding_descriptors")
    fl = fi.flow
    sites = []
    for call, nid in fl.calls():
        f = call.func
        if isinstance(f, ast.Name) and len(call.args) == 1 and not call.keywords:
            kind = _dialect_kind(repo, fi.module, f.id) if not fl.is_local(f.id) else None
            if kind is not None:
                sites.append((call, nid, "single:" + kind, f.id))
            elif fl.is_local(f.id):
                # a local that holds one of two parsers, chosen by a parameter
                vals = [d.value for d in fl.defs if d.var == f.id and d.kind == "assign" and d.value is not None]
                # a default and an override under the flag:  p = A;  if flag: p = B
                if len(vals) == 2 and all(isinstance(v, ast.Name) for v in vals):
                    ds = [d for d in fl.defs if d.var == f.id and d.kind == "assign" and d.value is not None]
                    arms = [fl._if_arm_of(d) for d in ds]
                    cond = [(d, a) for d, a in zip(ds, arms) if a]
                    plain = [d for d, a in zip(ds, arms) if not a]
                    if len(cond) == 1 and len(plain) == 1:
                        d_c, (ifn, label) = cond[0]
                        test, pol = ifn.ast.test, (label == "T")
                        if isinstance(test, ast.UnaryOp) and isinstance(test.op, ast.Not):
                            test, pol = test.operand, not pol
                        if isinstance(test, ast.Name) and test.id in fi.params:
                            k_flag, k_other = _dialect_kind(repo, fi.module, d_c.value.id), _dialect_kind(repo, fi.module, plain[0].value.id)
                            kt, kf = (k_flag, k_other) if pol else (k_other, k_flag)
                            text = "%s; if %s: %s" % (plain[0].value.id, ast.unparse(ifn.ast.test), d_c.value.id)
                            if kt == "atom" and kf == "coarse":
                                sites.append((call, nid, "selected", text))
                            elif kt == "coarse" and kf == "atom":
                                sites.append((call, nid, "swapped", text))
                    if sites and sites[-1][0] is call:
                        continue
                for v in vals:
                    if isinstance(v, ast.Name) and len(vals) == 1 and _dialect_kind(repo, fi.module, v.id) is not None:
                        sites.append((call, nid, "single:" + _dialect_kind(repo, fi.module, v.id), v.id))
                    if isinstance(v, ast.IfExp) and isinstance(v.body, ast.Name) and isinstance(v.orelse, ast.Name):
                        test, pol = v.test, True
                        if isinstance(test, ast.UnaryOp) and isinstance(test.op, ast.Not):
                            test, pol = test.operand, False
                        if isinstance(test, ast.Name) and test.id in fi.params:
                            kt, kf = _dialect_kind(repo, fi.module, v.body.id), _dialect_kind(repo, fi.module, v.orelse.id)
                            if not pol:
                                kt, kf = kf, kt
                            if kt == "atom" and kf == "coarse":
                                sites.append((call, nid, "selected", "%s if %s else %s" % (v.body.id, ast.unparse(v.test), v.orelse.id)))
                            elif kt == "coarse" and kf == "atom":
                                sites.append((call, nid, "swapped", "%s if %s else %s" % (v.body.id, ast.unparse(v.test), v.orelse.id)))
    # the same choice written as an if statement around two calls
    if not sites:
        for call, nid in fl.calls():
            f = call.func
            if isinstance(f, ast.Name) and (("node_parser" in f.id) or ("parse" in f.id and "dialect" in f.id)):
                sites.append((call, nid, "unknown", f.id))
    return fi, sites


def sib_fragment_dialect(repo, tier="quick"):
    """D7: the annotation text of a fragment node means what the dialect of the fragment's resolution says (q, w for coarse
    nodes; w, x for atoms).  A tokenizer that applies one fixed dialect to every fragment cannot honour both (repaired in
    /repo: "fix: annotations of coarse fragment nodes are read with the coarse dialect")."""
    oid = "SIB.S6-fragment-dialect"
    fi, sites = fragment_parser_selection(repo)
    need(sites, "anchor vanished: strip_bonding_descriptors no longer parses node annotations", fi)
    kinds = {s[2] for s in sites}
    call = sites[0][0]
    # the flag has to arrive: fragment_iter hands its own resolution flag on
    it = repo.function("read_fragments:fragment_iter")
    forwarded = False
    for c, nid in it.flow.calls():
        t = repo.resolve_call(it, c)
        if t is not None and t.kind == "repo" and t.name.endswith(":strip_bonding_descriptors"):
            flags = [a for a in c.args[1:]] + [k.value for k in c.keywords]
            forwarded = any(isinstance(a, ast.Name) and a.id in it.params for a in flags)
    if kinds == {"selected"} and forwarded:
        return [ob_ok(oid, fi, call, construct="annotation dialect chosen by the fragment's resolution: %s" % sites[0][3], instance="dialect",
                      reason="coarse fragment nodes and atoms are read with their own dialects")]
    if "swapped" in kinds:
        return [ob_fail(oid, fi, call, construct="dialects chosen the wrong way round: %s" % sites[0][3], instance="dialect",
                        reason="atoms are read with the coarse dialect (q, w) and coarse nodes with the atomistic one (w, x)")]
    if kinds == {"selected"} and not forwarded:
        return [ob_fail(oid, fi, call, construct="fragment_iter does not hand its resolution flag to strip_bonding_descriptors", instance="dialect",
                        reason="the default (all-atom) dialect is used for coarse fragments as well")]
    single = [k for k in kinds if k.startswith("single:")]
    if single:
        return [ob_fail(oid, fi, call, construct="every fragment node is parsed with %s" % sites[0][3], instance="dialect",
                        reason="one fixed dialect for all fragments: with the atomistic one `q=` of a coarse node becomes a free key, the first positional value "
                               "is taken as weight and a non-numeric charge is accepted; with the coarse one the chirality of atoms is lost")]
    return [ob_undecided(oid, fi, call, construct="annotation parser %s" % sites[0][3], instance="dialect",
                         reason="the rule cannot see which dialect is used for which kind of fragment")]


def trip_branch_close(repo, tier="quick"):
    """D5: between two nodes any number of branches can close.  The anchor stack has to be popped once per closing brace; one
    pop per node iteration leaves the scanner inside the outer branch after `))`."""
    fi = repo.function("read_cgsmiles:read_cgsmiles")
    fl, cfg = fi.flow, fi.cfg
    oid = "TRIP.branch-close"
    pops = []
    for call, nid in fl.calls():
        if isinstance(call.func, ast.Attribute) and call.func.attr == "pop" and isinstance(call.func.value, ast.Name) and "anchor" in call.func.value.id:
            pops.append((call, nid))
    need(pops, "anchor vanished: no pop of the branch anchor stack in read_cgsmiles", fi)
    obs = []
    for call, nid in pops:
        loops = enclosing_loops(fi, nid)
        if len(loops) >= 2:
            obs.append(ob_ok(oid, fi, call, construct="anchor popped inside a loop over the closing braces", instance="per-brace", reason="every `)` closes one branch"))
        else:
            obs.append(ob_fail(oid, fi, call, construct="%s.pop() once per node" % call.func.value.id, instance="per-brace",
                               reason="the anchor stack is popped at most once between two nodes however many branches close there: after `))` the next node is "
                                      "attached to the inner anchor, and a bond order or multiplier written behind the second brace is not seen"))
    return obs


def sib_fragment_node_names(repo, tier="quick"):
    """D15: the writer of coarse fragments has to write each node under its own name.  read_fragment_cgsmiles keeps a
    fragment node's own name under one key and overwrites `fragname` with the name of the fragment; a writer that reads
    `fragname` writes the fragment's name for every node."""
    oid = "SIB.S7-node-name-key"
    rd = repo.function("cgsmiles_utils:read_fragment_cgsmiles")
    rfl = rd.flow
    own_key = None
    overwritten = set()
    P = [("param", p) for p in rd.params]
    for call, nid, _ in rfl.calls_to("networkx.set_node_attributes"):
        ct = rfl.canon(call, nid)
        a = list(ct[3]) + [None] * 3
        name = a[2] if a[2] is not None else dict(ct[4]).get("name")
        vals = a[1]
        if name is None or name[0] != "const":
            continue
        c = is_call(strip_wrappers(vals), "networkx.get_node_attributes") if vals else None
        if c and len(c[0]) >= 2 and c[0][1] == ("const", "fragname"):
            own_key = name[1]
        elif vals in P:
            overwritten.add(name[1])
    wr = repo.function("write_cgsmiles:format_node")
    if own_key is None or own_key in overwritten:
        return [ob_ok(oid, rd, construct="coarse fragment nodes keep their own name under the key the writer reads", instance="name-key",
                      reason="reader and writer of coarse fragments agree on where a node's name is")]

    def keys_read(fi):
        """(literal keys, parameter names) that format_node-like code uses as node attribute key"""
        lits, pars = set(), set()
        for x in ast.walk(fi.node):
            k = None
            if isinstance(x, ast.Subscript) and isinstance(x.ctx, ast.Load) and not (isinstance(x.value, ast.Attribute) and x.value.attr in ("nodes", "edges")):
                k = x.slice
            elif isinstance(x, ast.Call) and isinstance(x.func, ast.Attribute) and x.func.attr == "get" and x.args:
                k = x.args[0]
            if isinstance(k, ast.Constant) and isinstance(k.value, str):
                lits.add(k.value)
            elif isinstance(k, ast.Name) and k.id in fi.params:
                pars.add(k.id)
        return lits, pars
    lits, pars = keys_read(wr)
    # the key as a parameter: what does the writer of coarse fragments hand down?
    if pars:
        key_param = sorted(pars)[0]
        wg = repo.function("write_cgsmiles:write_graph")
        frw = repo.function("write_cgsmiles:write_cgsmiles_fragments")

        def passed(caller, callee_fq, param, callee):
            """the argument `caller` passes for `param` of the callee: ('const', v) / ('param', name) / None (default)"""
            out = []
            for c, nid in caller.flow.calls():
                t = repo.resolve_call(caller, c)
                if t is None or t.kind != "repo" or t.name != callee_fq:
                    continue
                pos = callee.positional_params.index(param) if param in callee.positional_params else None
                a = next((k.value for k in c.keywords if k.arg == param), c.args[pos] if pos is not None and pos < len(c.args) else None)
                if a is None:
                    # handed over in a dict of keyword arguments: f(x, **options) with options a literal / dict(...) bound once
                    for k in c.keywords:
                        if k.arg is None:
                            dv = k.value
                            if isinstance(dv, ast.Name):
                                vals = [d.value for d in caller.flow.defs if d.var == dv.id and d.kind == "assign" and d.value is not None]
                                dv = vals[0] if len(vals) == 1 else None
                            if isinstance(dv, ast.Dict):
                                for kk, vv in zip(dv.keys, dv.values):
                                    if isinstance(kk, ast.Constant) and kk.value == param:
                                        a = vv
                            elif isinstance(dv, ast.Call) and isinstance(dv.func, ast.Name) and dv.func.id == "dict":
                                for kw in dv.keywords:
                                    if kw.arg == param:
                                        a = kw.value
                            else:
                                a = ast.Name(id="<**%s>" % ast.unparse(k.value), ctx=ast.Load()) if dv is None else a
                if a is None:
                    d = callee.defaults().get(param)
                    out.append(("const", d.value) if isinstance(d, ast.Constant) else None)
                elif isinstance(a, ast.Constant):
                    out.append(("const", a.value))
                elif isinstance(a, ast.Name) and a.id in caller.params:
                    out.append(("param", a.id))
                else:
                    out.append(("?", ast.unparse(a)))
            return out
        hop1 = passed(wg, wr.fq, key_param, wr)
        need(hop1, "anchor vanished: write_graph no longer calls format_node", wg)
        got = None
        if all(h and h[0] == "param" for h in hop1) and len({h[1] for h in hop1}) == 1:
            hop2 = passed(frw, wg.fq, hop1[0][1], wg)
            need(hop2, "anchor vanished: write_cgsmiles_fragments no longer calls write_graph", frw)
            if all(h and h[0] == "const" for h in hop2) and len({h[1] for h in hop2}) == 1:
                got = hop2[0][1]
        elif all(h and h[0] == "const" for h in hop1) and len({h[1] for h in hop1}) == 1:
            got = hop1[0][1]
        if got == own_key:
            return [ob_ok(oid, wr, construct="coarse fragments are written with nodes[n][%r] (handed down from write_cgsmiles_fragments)" % got, instance="name-key",
                          reason="the node's own name is written")]
        if got is not None:
            return [ob_fail(oid, wr, construct="coarse fragments are written with nodes[n][%r]; a coarse fragment node's own name is under %r" % (got, own_key), instance="name-key",
                            reason="the name key handed down by the writer of coarse fragments is not the one read_fragment_cgsmiles keeps the node names under")]
        return [ob_undecided(oid, wr, construct="the node-name key of format_node is a parameter whose value the rule cannot follow from write_cgsmiles_fragments", instance="name-key",
                             reason="outside the forms the rule knows")]
    read_keys = lits
    bad = (read_keys & overwritten) and own_key not in read_keys
    return [ob_fail(oid, wr, construct="format_node writes nodes[n][%r]; a coarse fragment node's own name is under %r" % (sorted(read_keys & overwritten)[0], own_key),
                    instance="name-key", reason="read_fragment_cgsmiles moves the node names to %r and sets %r to the fragment's name: {#A=[#B][$][#C]} is written as "
                    "{#A=[#A][$][#A]} and a string with an intermediate coarse level does not resolve after writing" % (own_key, sorted(read_keys & overwritten)[0]))] if bad else \
        [ob_ok(oid, wr, construct="format_node reads %s" % sorted(read_keys), instance="name-key", reason="the node's own name is written")]


def exc_fragment_strict(repo, tier="quick"):
    """D18: a ring index that is opened and never closed inside an all-atom fragment has to be rejected like in the base
    graph.  pysmiles reports it only in strict mode, which the package cannot use (annotated and wildcard atoms); with
    strict=False the check has to be made by the package: the ring markers of the fragment text are counted per index and an
    index with an odd count raises SyntaxError, on every path to the lenient read (repaired in /repo: "fix: a ring index that
    is never closed in an all-atom fragment is rejected")."""
    fi = repo.function("pysmiles_utils:read_fragment_smiles")
    fl, cfg = fi.flow, fi.cfg
    oid = "EXC.X5-fragment-smiles"
    calls = fl.calls_to("pysmiles.read_smiles")
    need(calls, "anchor vanished: read_fragment_smiles no longer calls pysmiles.read_smiles", fi)
    obs = []
    # the parity guard: the ring markers of the fragment text are counted per index (a set toggled per RING_NUM token, or a
    # Counter and `% 2`), and a test on that count raises SyntaxError on every path to the read
    from .exc import arm_always_raises
    guards = []          # cfg ids of `if` nodes on the count whose true arm always raises SyntaxError
    unknown_ring_checks = []
    derived = set()      # names computed from the token stream
    tokenised = False
    parity = False
    stmts = [n for n in cfg.nodes if n.kind in ("stmt", "for") and n.ast is not None]
    for n in stmts:
        head = n.ast.iter if n.kind == "for" else n.ast
        has_tok = False
        for sub in ast.walk(head):
            if isinstance(sub, ast.Call):
                t = repo.resolve_call(fi, sub)
                if t is not None and t.kind == "ext" and t.name.endswith("_tokenize"):
                    has_tok = True
        if has_tok:
            tokenised = True
            if n.kind == "for":
                derived |= {x.id for x in ast.walk(n.ast.target) if isinstance(x, ast.Name)}
                if "RING_NUM" not in ast.unparse(n.ast):
                    unknown_ring_checks.append(n)
            else:
                if isinstance(n.ast, ast.Assign):
                    for t_ in n.ast.targets:
                        derived |= {x.id for x in ast.walk(t_) if isinstance(x, ast.Name)}
                if "RING_NUM" not in ast.unparse(n.ast):
                    unknown_ring_checks.append(n)
    grew = True
    while grew:
        grew = False
        for n in stmts:
            if n.kind != "stmt":
                continue
            st = n.ast
            tg, val = None, None
            if isinstance(st, ast.Assign):
                tg, val = st.targets, st.value
            elif isinstance(st, ast.AugAssign):
                tg, val = [st.target], st.value
            if tg is None and isinstance(st, ast.Expr) and isinstance(st.value, ast.Call) and isinstance(st.value.func, ast.Attribute) and \
                    isinstance(st.value.func.value, ast.Name):
                # xs.add(token) / xs.symmetric_difference_update({token}): the receiver is computed from the tokens
                tg, val = [st.value.func.value], st.value
            if tg is None:
                continue
            used = {x.id for x in ast.walk(val) if isinstance(x, ast.Name)} | ({x.id for x in ast.walk(st.target) if isinstance(x, ast.Name)} if isinstance(st, ast.AugAssign) else set())
            # a statement inside a loop over the tokens depends on them as well
            in_tok_loop = any(l.kind == "for" and any(isinstance(c_, ast.Call) and getattr(repo.resolve_call(fi, c_), "name", "").endswith("_tokenize") for c_ in ast.walk(l.ast.iter))
                              for l in enclosing_loops(fi, n.id))
            if used & derived or in_tok_loop:
                new_ = set()
                for t_ in tg:
                    new_ |= {x.id for x in ast.walk(t_) if isinstance(x, ast.Name)}
                if not new_ <= derived:
                    derived |= new_
                    grew = True
    for sub in ast.walk(fi.node):
        if isinstance(sub, ast.AugAssign) and isinstance(sub.op, ast.BitXor) and isinstance(sub.target, ast.Name) and sub.target.id in derived:
            parity = True
        if isinstance(sub, ast.Assign) and isinstance(sub.value, ast.BinOp) and isinstance(sub.value.op, ast.BitXor) and \
                any(isinstance(t_, ast.Name) and t_.id in derived for t_ in sub.targets):
            parity = True
        if isinstance(sub, ast.Call) and isinstance(sub.func, ast.Attribute) and sub.func.attr == "symmetric_difference_update":
            parity = True
        # the toggle written out:  if token in s: s.remove(token)  else: s.add(token)
        if isinstance(sub, ast.If) and isinstance(sub.test, ast.Compare) and len(sub.test.ops) == 1 and isinstance(sub.test.ops[0], (ast.In, ast.NotIn)) and \
                isinstance(sub.test.comparators[0], ast.Name):
            sname = sub.test.comparators[0].id
            meths = {x.func.attr for x in ast.walk(sub) if isinstance(x, ast.Call) and isinstance(x.func, ast.Attribute) and isinstance(x.func.value, ast.Name) and x.func.value.id == sname}
            if "add" in meths and meths & {"remove", "discard"} and sub.orelse:
                parity = True
        if isinstance(sub, ast.BinOp) and isinstance(sub.op, ast.Mod) and isinstance(sub.right, ast.Constant) and sub.right.value == 2 and \
                {x.id for x in ast.walk(sub) if isinstance(x, ast.Name)} & (derived | {x.id for c_ in ast.walk(fi.node) if isinstance(c_, ast.comprehension)
                                                                                  for x in ast.walk(c_.target) if isinstance(x, ast.Name)}):
            parity = True
    for m in cfg.nodes:
        if m.kind == "if" and {x.id for x in ast.walk(m.ast.test) if isinstance(x, ast.Name)} & derived:
            ok, _why = arm_always_raises(fi, m, "T", {"SyntaxError"})
            if ok:
                guards.append(m.id)
    if tokenised and not parity:
        unknown_ring_checks.append(None)
    elif parity:
        unknown_ring_checks = [u for u in unknown_ring_checks if u is None]
    for call, nid, _ in calls:
        kw = dict(fl.canon(call, nid)[4])
        strict = kw.get("strict", ("const", True))
        if strict != ("const", False):
            obs.append(ob_ok(oid, fi, call, construct="pysmiles.read_smiles(..., strict=%s)" % show(strict), instance="strict", reason="pysmiles reports malformed fragments"))
        elif guards and parity and any(cfg.dominates(g, nid) for g in guards):
            obs.append(ob_ok(oid, fi, call, construct="ring markers counted per index, odd count raises SyntaxError, in front of read_smiles(..., strict=False)", instance="strict",
                             reason="a ring index that is never closed is rejected before the lenient reader drops it"))
        elif unknown_ring_checks or guards:
            from ..report import ob_undecided
            obs.append(ob_undecided(oid, fi, call, construct="a ring check of a form the rule does not know in front of read_smiles(..., strict=False)", instance="strict",
                                    reason="the fragment text is tokenised, but the rule cannot see that an unclosed ring index raises SyntaxError on every path to the read"))
        else:
            obs.append(ob_fail(oid, fi, call, construct="pysmiles.read_smiles(..., strict=False)", instance="strict",
                               reason="malformed fragment SMILES are not rejected: {[#A]}.{#A=C1CC} (dangling ring index) resolves to an open chain"))
    return obs


def prov_rdkit_sanitize(repo, tier="quick"):
    """D17: the conversion to RDKit must not change bond orders or charges.  A full SanitizeMol re-perceives aromaticity with
    RDKit's model (furan goes in as 2/1 and comes back as 1.5) and rewrites pentavalent nitrogen into the charge-separated
    form."""
    fi = repo.function("rdkit:networkx_to_rdkit")
    fl = fi.flow
    oid = "PROV.rdkit-sanitize"
    obs = []
    for call, nid in fl.calls():
        if isinstance(call.func, ast.Attribute) and call.func.attr == "SanitizeMol":
            kw = dict(fl.canon(call, nid)[4])
            restricted = "sanitizeOps" in kw or len(call.args) > 1
            (obs.append(ob_ok(oid, fi, call, construct="SanitizeMol with restricted operations", instance="sanitize", reason="aromaticity and charges are left as given")) if restricted else
             obs.append(ob_fail(oid, fi, call, construct="Chem.SanitizeMol(mol) with all operations", instance="sanitize",
                                reason="RDKit's clean-up and aromaticity perception rewrite the chemistry that was handed over: furan, thiophene, pyrrole come back with "
                                       "1.5 on every ring bond, CN(=O)=O with charges +1/-1 and a single bond")))
    if not obs:
        obs.append(ob_ok(oid, fi, construct="no SanitizeMol in networkx_to_rdkit", instance="sanitize", reason="nothing re-perceives the chemistry"))
    return obs


def ord_anchor_reset(repo, tier="quick"):
    """D8 (third copy of a branch with nested branches): every repetition of a multiplied branch starts from the base anchor.
    The nested-branch arithmetic moves `prev_node` while one repetition is added; it has to be set back at the end of each
    repetition, not only once after the last (repaired in /repo: "fix: every repetition of a multiplied branch starts from its
    base anchor")."""
    fi = repo.function("read_cgsmiles:read_cgsmiles")
    fl, cfg = fi.flow, fi.cfg
    oid = "ORD.anchor-reset"
    from .round7 import _repetition_loops
    reps = _repetition_loops(fi)
    need(reps, "anchor vanished: no repetition loop `for _ in range(0, int(<multiplier>) - 1)` over the branch recipes in read_cgsmiles", fi)
    obs = []
    for rep, inner in reps:
        resets = set()
        for m in cfg.nodes:
            if m.kind == "stmt" and isinstance(m.ast, ast.Assign) and len(m.ast.targets) == 1 and isinstance(m.ast.targets[0], ast.Name) and \
                    isinstance(m.ast.value, ast.Name) and "base_anchor" in m.ast.value.id and m.id in cfg.loops.get(rep.id, set()) and \
                    m.id not in cfg.loops.get(inner.id, set()):
                resets.add(m.id)
        ok = bool(resets) and cfg.must_pass(inner.id, {rep.id}, resets, edge_filter=lambda a, b, l: l != "exc")
        (obs.append(ob_ok(oid, fi, rep.ast, construct="prev_node = base_anchor at the end of every repetition", instance="per-repetition",
                          reason="each copy of the multiplied branch is attached where the first one was")) if ok else
         obs.append(ob_fail(oid, fi, rep.ast, construct="the anchor is set back only after the last repetition", instance="per-repetition",
                            reason="the offsets of nested branches accumulate from one repetition to the next: from the third copy on the unit hangs on a "
                                   "nested node ({[#A]([#B]([#C])[#D])|3} is not its written-out form)")))
    return obs


def idx_scan_bound(repo, tier="quick"):
    """A position returned by `_find_next_character` is len(string) when nothing was found (a fragment body has no closing
    brace): subscripting the string with such a position needs a bound test in front of it (repaired in /repo: "fix: a
    fragment may end with a multiplied branch")."""
    fi = repo.function("read_cgsmiles:read_cgsmiles")
    fl, cfg = fi.flow, fi.cfg
    oid = "IDX.scan-bound"
    pat = ("param", fi.positional_params[0])
    obs = []
    n = 0
    seen = set()
    for sub in ast.walk(fi.node):
        if not (isinstance(sub, ast.Subscript) and isinstance(sub.ctx, ast.Load) and id(sub) in cfg.owner and not isinstance(sub.slice, ast.Slice)):
            continue
        nid = cfg.owner[id(sub)]
        if fl.canon(sub.value, nid) != pat:
            continue
        k = fl.canon(sub.slice, nid)
        if is_call(k, "_find_next_character") is None:
            continue
        key = (nid, ast.unparse(sub))
        if key in seen:
            continue
        seen.add(key)
        n += 1
        guarded = False
        tests = [(t, pol, g) for t, pol, g in guards_of(fi, nid)]
        # the test the subscript itself is part of: `i < len(s) and s[i] ...`
        node = cfg.nodes[nid]
        own = node.ast.test if node.kind in ("if", "while") else None
        if isinstance(own, ast.BoolOp) and isinstance(own.op, ast.And):
            for v in own.values:
                if any(x is sub for x in ast.walk(v)):
                    break
                tests.append((v, True, nid))
        for t, pol, g in tests:
            for tc in (t.values if isinstance(t, ast.BoolOp) and isinstance(t.op, ast.And) and pol else [t]):
                c = fl.canon(tc, g)
                if c[0] != "cmp" or len(c[1]) != 1 or len(c[2]) != 2:
                    continue
                op, (lhs, rhs) = c[1][0], c[2]
                is_len = lambda t: bool(is_call(t, "len")) and is_call(t, "len")[0][0] == pat
                # k < len(s), len(s) > k; under a negated test: not (k >= len(s)), not (len(s) <= k)
                if (pol and ((op == "<" and lhs == k and is_len(rhs)) or (op == ">" and rhs == k and is_len(lhs)))) or \
                        (not pol and ((op == ">=" and lhs == k and is_len(rhs)) or (op == "<=" and rhs == k and is_len(lhs)))):
                    guarded = True
        (obs.append(ob_ok(oid, fi, sub, construct="%s behind `%s < len(...)`" % (ast.unparse(sub), ast.unparse(sub.slice)), instance="bound:" + ast.unparse(sub.slice),
                          reason="the scan result is tested against the end of the string before it is used as an index")) if guarded else
         obs.append(ob_fail(oid, fi, sub, construct="%s without a bound test" % ast.unparse(sub), instance="bound:" + ast.unparse(sub.slice),
                            reason="the position comes from _find_next_character, which returns len(string) when nothing is found: a fragment body that "
                                   "ends in `)|n` (no closing brace behind it) raises IndexError")))
    if n == 0:
        raise AnalysisError("index scan matched no subscript of the pattern by a scan result in read_cgsmiles (floor 1)")
    return obs
