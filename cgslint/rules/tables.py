"""TAB - agreement of literal tables with each other and with the documented tables."""
import ast
import json
import os

from .. import AnalysisError
from ..model import fold_const, dotted_name
from ..report import ob_ok, ob_fail, ob_undecided, VERIF


def _spec(name):
    with open(os.path.join(VERIF, "spec", name)) as fh:
        return json.load(fh)


GRAMMAR = _spec("grammar.json")
DOC_SYMBOLS = GRAMMAR["order_symbols"]


def local_dict_literals(fi, pred=None):
    """[(name, folded dict, Assign node)] for `name = {literal dict}` in fi."""
    out = []
    for n in ast.walk(fi.node):
        if isinstance(n, ast.Assign) and len(n.targets) == 1 and isinstance(n.targets[0], ast.Name) and \
                isinstance(n.value, ast.Dict):
            try:
                d = fold_const(n.value, fi.module)
            except ValueError:
                continue
            if pred is None or pred(d):
                out.append((n.targets[0].id, d, n))
    return out


def dict_tables_of(fi, pred):
    """dict literals bound to a local name in fi, and module-level dict constants that fi refers to by name"""
    out = local_dict_literals(fi, pred)
    used = {n.id for n in ast.walk(fi.node) if isinstance(n, ast.Name) and isinstance(n.ctx, ast.Load)}
    local_names = {x[0] for x in out}
    for name, val in fi.module.constants.items():
        if name in used and name not in local_names and isinstance(val, ast.Dict):
            try:
                d = fold_const(val, fi.module)
            except ValueError:
                continue
            if pred(d):
                out.append((name, d, val))
    return out


def _is_symbol_table(d):
    return len(d) >= 3 and all(isinstance(k, str) and len(k) == 1 for k in d) and \
        all(isinstance(v, (int, float)) and not isinstance(v, bool) for v in d.values())


def reader_symbol_table(repo):
    fi = repo.function("read_cgsmiles:read_cgsmiles")
    tabs = dict_tables_of(fi, _is_symbol_table)
    if len(tabs) != 1:
        raise AnalysisError("expected exactly one bond-order symbol table in read_cgsmiles, found %d" % len(tabs), fi.where())
    return fi, tabs[0]


def fragment_symbol_table(repo):
    fi = repo.function("read_fragments:strip_bonding_descriptors")
    tabs = dict_tables_of(fi, _is_symbol_table)
    if len(tabs) != 1:
        raise AnalysisError("expected exactly one bond-order symbol table in strip_bonding_descriptors, found %d" % len(tabs), fi.where())
    return fi, tabs[0]


def writer_symbol_table(repo):
    m = repo.module("write_cgsmiles")
    cands = []
    for name, val in m.constants.items():
        try:
            d = fold_const(val, m)
        except ValueError:
            continue
        if isinstance(d, dict) and len(d) >= 3 and all(isinstance(v, str) and len(v) == 1 for v in d.values()) and \
                all(isinstance(k, (int, float)) for k in d):
            cands.append((name, d, val))
    if len(cands) != 1:
        raise AnalysisError("expected exactly one order->symbol table in write_cgsmiles.py, found %d" % len(cands))
    return m, cands[0]


def tab_reader_symbols(repo, tier="quick"):
    """C04: the reader's table equals the documented one; the guard that decides whether a
    symbol follows a node admits every key of the table."""
    obs = []
    fi, (name, table, node) = reader_symbol_table(repo)
    if table == DOC_SYMBOLS:
        obs.append(ob_ok("TAB.reader-symbols", fi, node, construct="symbol table", instance="table",
                         reason="equals documented table %s" % DOC_SYMBOLS))
    else:
        obs.append(ob_fail("TAB.reader-symbols", fi, node, construct="symbol table", instance="table",
                           reason="reader table %s differs from documented %s" % (table, DOC_SYMBOLS)))
    # guard strings / key uses: every membership test `X in '<literal>'` whose true branch indexes the table with X
    n_guards = 0
    for sub in ast.walk(fi.node):
        # the if statement and the conditional expression `table[x] if x in '<literal>' else default`
        if isinstance(sub, (ast.If, ast.IfExp)):
            true_arm = sub.body if isinstance(sub, ast.If) else [sub.body]
            for cmp_ in ast.walk(sub.test):
                if isinstance(cmp_, ast.Compare) and len(cmp_.ops) == 1 and isinstance(cmp_.ops[0], ast.In) and \
                        isinstance(cmp_.comparators[0], ast.Constant) and isinstance(cmp_.comparators[0].value, str):
                    key_src = ast.unparse(cmp_.left)
                    uses = [s for b in true_arm for s in ast.walk(b)
                            if isinstance(s, ast.Subscript) and isinstance(s.value, ast.Name) and s.value.id == name
                            and ast.unparse(s.slice) == key_src]
                    if uses:
                        n_guards += 1
                        lit = cmp_.comparators[0].value
                        missing = [k for k in DOC_SYMBOLS if k not in lit]
                        if missing:
                            obs.append(ob_fail("TAB.reader-symbols", fi, sub, construct="symbol guard string", instance="guard",
                                               reason="guard literal %r does not admit %s" % (lit, missing)))
                        else:
                            obs.append(ob_ok("TAB.reader-symbols", fi, sub, construct="symbol guard string", instance="guard",
                                             reason="guard literal admits every documented symbol"))
    # terminator lists of the multiplier scans must contain the structural characters
    return obs


def tab_writer_symbols(repo, tier="quick"):
    """C07: writer table restricted to 0..4 is the inverse of the reader's table and the documented one."""
    m, (name, table, node) = writer_symbol_table(repo)
    fi_r, (_, rtable, _) = reader_symbol_table(repo)
    inv = {v: k for k, v in DOC_SYMBOLS.items()}
    bad = {o: table.get(o) for o in inv if table.get(o) != inv[o]}
    where = "%s:%d" % (m.relpath, node.lineno)
    obs = []
    if bad:
        obs.append(ob_fail("TAB.writer-symbols", where=where, construct="order->symbol table", instance="documented",
                           reason="writer maps %s, documented inverse is %s" % (bad, {o: inv[o] for o in bad})))
    else:
        obs.append(ob_ok("TAB.writer-symbols", where=where, construct="order->symbol table", instance="documented",
                         reason="orders 0..4 map to the documented symbols"))
    rt = {o: s for o, s in table.items() if o in inv}
    mism = {o: s for o, s in rt.items() if rtable.get(s) != o}
    if mism:
        obs.append(ob_fail("TAB.writer-symbols", where=where, construct="order->symbol table", instance="inverse-of-reader",
                           reason="reader does not map %s back" % mism))
    else:
        obs.append(ob_ok("TAB.writer-symbols", where=where, construct="order->symbol table", instance="inverse-of-reader",
                         reason="reader table maps every written symbol back to its order"))
    return obs


def tab_fragment_symbols(repo, tier="quick"):
    """C08: fragment reader's symbol table is the inverse of the writer's on orders 0..4."""
    m, (name, wtable, node) = writer_symbol_table(repo)
    fi, (_, ftable, fnode) = fragment_symbol_table(repo)
    obs = []
    mism = {o: s for o, s in wtable.items() if o in (0, 1, 2, 3, 4) and ftable.get(s) != o}
    if mism or any(o not in wtable for o in (0, 1, 2, 3, 4)):
        obs.append(ob_fail("TAB.fragment-symbols", fi, fnode, construct="fragment symbol table", instance="inverse-of-writer",
                           reason="written symbols %s are not read back to the same order (fragment table %s)" % (mism, ftable)))
    else:
        obs.append(ob_ok("TAB.fragment-symbols", fi, fnode, construct="fragment symbol table", instance="inverse-of-writer",
                         reason="every symbol the writer emits for orders 0..4 is read back to that order"))
    doc = GRAMMAR["fragment_order_symbols"]
    if ftable == doc:
        obs.append(ob_ok("TAB.fragment-symbols", fi, fnode, construct="fragment symbol table", instance="documented",
                         reason="equals the documented table %s" % doc))
    else:
        diff = {k: (ftable.get(k), doc.get(k)) for k in set(ftable) | set(doc) if ftable.get(k) != doc.get(k)}
        obs.append(ob_fail("TAB.fragment-symbols", fi, fnode, construct="fragment symbol table", instance="documented",
                           reason="a bond order symbol in front of a bonding descriptor is read as another order than documented "
                                  "(symbol: (read, documented)) %s" % diff))
    return obs


# -- dialects -----------------------------------------------------------------

def _dialect_from_call(module, call):
    """Interpret create_dialect({...}, accept_kwargs=...) -> (ordered params, accept_kwargs)"""
    if not (isinstance(call, ast.Call) and isinstance(call.func, ast.Name) and call.func.id == "create_dialect"):
        return None
    first = call.args[0] if call.args else None
    for kw in call.keywords:
        if kw.arg == "default_attributes":
            first = kw.value
    if first is None:
        return None
    try:
        d = fold_const(first, module)
    except ValueError:
        raise AnalysisError("create_dialect argument is not a literal", "%s:%d" % (module.relpath, call.lineno))
    accept = True
    cd = module.functions.get("create_dialect")
    if cd is not None and cd.defaults().get("accept_kwargs") is not None:
        # the default of create_dialect itself decides when the call does not say
        accept = fold_const(cd.defaults()["accept_kwargs"], module)
    for kw in call.keywords:
        if kw.arg == "accept_kwargs":
            accept = fold_const(kw.value, module)
    if len(call.args) >= 3:
        accept = fold_const(call.args[2], module)
    return d, accept


def tab_dialects(repo, tier="quick"):
    spec = _spec("dialects.json")
    m = repo.module("dialects")
    obs = []
    # find the two partial(...) parsers and the dialects they bind
    wanted = {"coarse": "parse_graph_base_node", "atomic": "_fragment_node_parser", "coarse_fragment": "_cg_fragment_node_parser"}
    for level, pname in wanted.items():
        if level == "coarse_fragment" and pname not in m.partials:
            # a tree without a parser of its own for coarse fragment nodes: SIB.S6-fragment-dialect says what that means
            continue
        if pname not in m.partials:
            raise AnalysisError("anchor vanished: %s is no longer a functools.partial in dialects.py" % pname)
        target, bound = m.partials[pname]
        where = "%s:%d" % (m.relpath, m.constants[pname].lineno)
        if target != "_parse_dialect_string":
            obs.append(ob_fail("TAB.dialects", where=where, construct=pname, instance=level + ":parser",
                               reason="%s no longer wraps _parse_dialect_string" % pname))
            continue
        sig = bound.get("dialect_signature")
        if not isinstance(sig, ast.Name) or sig.id not in m.constants:
            raise AnalysisError("%s: dialect_signature is not a module constant" % pname, where)
        dc = _dialect_from_call(m, m.constants[sig.id])
        if dc is None:
            raise AnalysisError("%s is not built by create_dialect({...})" % sig.id, where)
        params, accept = dc
        want = spec[level]
        got_order = list(params.keys())
        problems = []
        if got_order != want["positional_order"]:
            problems.append("positional order %s, documented %s" % (got_order, want["positional_order"]))
        for k, w in want["params"].items():
            if k not in params:
                continue
            default, typ = params[k]
            tname = getattr(typ, "__name__", str(typ))
            if tname != w["type"]:
                problems.append("%s has type %s, documented %s" % (k, tname, w["type"]))
            if default != w["default"] or (default is not None and type(default) is not type(w["default"])):
                problems.append("%s has default %r, documented %r" % (k, default, w["default"]))
        if bool(accept) != want["free_keywords"]:
            problems.append("free keywords accepted: %s, documented %s" % (accept, want["free_keywords"]))
        # a second table handed to create_dialect: harmless as long as create_dialect ignores it (it does on the pinned tree);
        # once it is read there, its entries are further parameters of the signature, i.e. further positional slots
        callnode = m.constants[sig.id]
        extra = None
        if isinstance(callnode, ast.Call):
            extra = next((k.value for k in callnode.keywords if k.arg == "optional_attributes"), callnode.args[1] if len(callnode.args) > 1 else None)
        if isinstance(extra, ast.Dict) and extra.keys:
            cd = m.function("create_dialect")
            reads = any(isinstance(x, ast.Name) and x.id == "optional_attributes" and isinstance(x.ctx, ast.Load) for x in ast.walk(cd.node))
            if reads:
                names = [k.value for k in extra.keys if isinstance(k, ast.Constant)]
                problems.append("optional attributes %s are turned into parameters by create_dialect: positional values beyond %s are accepted instead of rejected"
                                % (names, want["positional_order"]))
        try:
            rename = fold_const(bound.get("arg_to_fullname"), m) if bound.get("arg_to_fullname") is not None else {}
        except ValueError:
            raise AnalysisError("%s: arg_to_fullname is not a literal" % pname, where)
        if rename != want["rename"]:
            problems.append("rename map %s, documented %s" % (rename, want["rename"]))
        if problems:
            obs.append(ob_fail("TAB.dialects", where=where, construct=pname, instance=level,
                               reason="; ".join(problems)))
        else:
            obs.append(ob_ok("TAB.dialects", where=where, construct=pname, instance=level,
                             reason="signature, defaults, types, rename map equal the documented reserved-symbol table"))
    # create_dialect itself: parameters are POSITIONAL_OR_KEYWORD with default and annotation from the table
    fi = m.function("create_dialect")
    ok_kind = False
    for sub in ast.walk(fi.node):
        if isinstance(sub, ast.Call) and isinstance(sub.func, ast.Name) and sub.func.id == "Parameter":
            kws = {k.arg: k.value for k in sub.keywords}
            kind_ok = any(isinstance(a, ast.Attribute) and a.attr == "POSITIONAL_OR_KEYWORD" for a in sub.args[1:2]) or \
                (isinstance(kws.get("kind"), ast.Attribute) and kws["kind"].attr == "POSITIONAL_OR_KEYWORD")
            if kind_ok and "default" in kws and "annotation" in kws:
                ok_kind = True
    if ok_kind:
        obs.append(ob_ok("TAB.dialects", fi, construct="Parameter(...)", instance="create_dialect",
                         reason="reserved keys become POSITIONAL_OR_KEYWORD parameters carrying default and type"))
    else:
        obs.append(ob_fail("TAB.dialects", fi, construct="Parameter(...)", instance="create_dialect",
                           reason="reserved keys are no longer POSITIONAL_OR_KEYWORD parameters with default= and annotation="))
    return obs


# -- hydrogen attribute inheritance -----------------------------------------------

def tab_copy_attrs(repo, tier="quick"):
    need_attrs = {"fragid", "fragname", "weight"}
    fi = repo.function("pysmiles_utils:rebuild_h_atoms")
    obs = []
    defaults = fi.defaults()
    if "copy_attrs" not in defaults:
        raise AnalysisError("anchor vanished: rebuild_h_atoms has no copy_attrs default", fi.where())
    try:
        val = set(fold_const(defaults["copy_attrs"], fi.module))
    except (ValueError, TypeError):
        raise AnalysisError("copy_attrs default is not a literal", fi.where())
    if need_attrs <= val:
        obs.append(ob_ok("TAB.copy_attrs", fi, construct="copy_attrs default", instance="default",
                         reason="default %s contains fragid, fragname, weight" % sorted(val)))
    else:
        obs.append(ob_fail("TAB.copy_attrs", fi, construct="copy_attrs default", instance="default",
                           reason="default %s lacks %s" % (sorted(val), sorted(need_attrs - val))))
    pos = fi.positional_params.index("copy_attrs")
    for caller in repo.all_functions(["resolve", "sample", "pysmiles_utils"]):
        for call, nid, t in caller.flow.calls_to("pysmiles_utils:rebuild_h_atoms"):
            given = None
            for kw in call.keywords:
                if kw.arg == "copy_attrs":
                    given = kw.value
            if len(call.args) > pos:
                given = call.args[pos]
            if given is None:
                obs.append(ob_ok("TAB.copy_attrs", caller, call, construct="rebuild_h_atoms(...)", instance="call:" + caller.qualname,
                                 reason="call site uses the default"))
                continue
            try:
                v = set(fold_const(given, caller.module))
            except (ValueError, TypeError):
                raise AnalysisError("copy_attrs argument is not a literal", caller.where(call))
            if need_attrs <= v:
                obs.append(ob_ok("TAB.copy_attrs", caller, call, construct="rebuild_h_atoms(...)", instance="call:" + caller.qualname,
                                 reason="explicit list contains the three attributes"))
            else:
                obs.append(ob_fail("TAB.copy_attrs", caller, call, construct="rebuild_h_atoms(...)", instance="call:" + caller.qualname,
                                   reason="explicit copy_attrs %s lacks %s" % (sorted(v), sorted(need_attrs - v))))
    return obs


# -- RDKit bond types ---------------------------------------------------------------

def tab_bond_types(repo, tier="quick"):
    spec = _spec("bondtypes.json")["order_to_bondtype"]
    m = repo.module("rdkit")
    node = m.constant("BOND_TYPE_MAP")
    where = "%s:%d" % (m.relpath, node.lineno)
    if not isinstance(node, ast.Dict):
        raise AnalysisError("BOND_TYPE_MAP is not a dict literal", where)
    got = {}
    for k, v in zip(node.keys, node.values):
        try:
            kk = fold_const(k)
        except ValueError:
            raise AnalysisError("BOND_TYPE_MAP key is not a literal", where)
        got[str(kk) if isinstance(kk, float) and kk != int(kk) else str(int(kk))] = (dotted_name(v) or ast.unparse(v)).split(".")[-1]
    problems = ["order %s -> %s (RDKit type for it is %s)" % (o, got.get(o), n) for o, n in spec.items() if got.get(o) != n]
    obs = []
    if problems:
        obs.append(ob_fail("TAB.bond-types", where=where, construct="BOND_TYPE_MAP", instance="map",
                           reason="; ".join(problems)))
    else:
        obs.append(ob_ok("TAB.bond-types", where=where, construct="BOND_TYPE_MAP", instance="map",
                         reason="orders 0, 1, 1.5, 2, 3, 4 map to ZERO, SINGLE, AROMATIC, DOUBLE, TRIPLE, QUADRUPLE"))
    return obs


NODE_TOKEN_SAMPLES = ["[#A]", "[#PEO]", "[#A1b_2]", "[#A;0.5]", "[#A;q=1;w=0.5]", "[#A;type=SP1:a]", "[#A;label=x/y]", "[#A;note=a b]",
                      "[#A;c=*]", "[#A;k=(1,2)]", "[#A;k=+1]", "[#A;k=-1.5]", "[#A;k=a@b]", "[#A;k='q']", "[#A;x=R;lab=C1-C2]", "[#A;k=50%]"]


def tab_node_token(repo, tier="quick"):
    """C14 / C04: the regular expression that finds node tokens in the base-graph string takes everything between `[#` and
    the next `]` as one token, whatever characters an annotation value is written with, and stops at that `]`.  The pattern
    is read from the source as a constant and its language is tested with the regex engine on sample tokens; nothing of
    the package is run."""
    import re
    from ..model import fold_const
    fi = repo.function("read_cgsmiles:read_cgsmiles")
    fl = fi.flow
    oid = "TAB.node-token"
    pats = []
    for call, nid in fl.calls():
        ct = fl.canon(call, nid)
        if ct[2] != ("ext", "re.finditer") or len(ct[3]) < 2 or ct[3][1] != ("param", fi.positional_params[0]):
            continue
        a0 = call.args[0] if call.args else None
        lit = None
        try:
            lit = fold_const(a0, fi.module)
        except (ValueError, TypeError, KeyError):
            if isinstance(a0, ast.Subscript) and isinstance(a0.value, ast.Name) and a0.value.id in fi.module.constants:
                try:
                    d = fold_const(fi.module.constants[a0.value.id], fi.module)
                    k = fold_const(a0.slice, fi.module)
                    lit = d.get(k) if isinstance(d, dict) else None
                except (ValueError, TypeError):
                    lit = None
        pats.append((call, lit))
    if not pats:
        raise AnalysisError("anchor vanished: read_cgsmiles no longer scans its argument with re.finditer", fi.where())
    obs = []
    for call, lit in pats:
        if not isinstance(lit, str):
            obs.append(ob_undecided(oid, fi, call, construct="node token pattern is not a constant", instance="pattern", reason="cannot read the regular expression"))
            continue
        try:
            rx = re.compile(lit)
        except re.error as err:
            obs.append(ob_fail(oid, fi, call, construct="pattern %r" % lit, instance="pattern", reason="not a valid regular expression: %s" % err))
            continue
        bad = []
        for tok in NODE_TOKEN_SAMPLES:
            text = "{" + tok + "=" + tok + "}"
            found = [m.group(0) for m in rx.finditer(text)]
            if found != [tok, tok]:
                bad.append((tok, found))
        (obs.append(ob_fail(oid, fi, call, construct="pattern %r on %r finds %r" % (lit, "{%s=%s}" % (bad[0][0], bad[0][0]), bad[0][1]), instance="pattern",
                            reason="a node whose annotation uses these characters is not found as one token: the node is skipped (its neighbours get "
                                   "bonded to each other) or its annotations are cut")) if bad else
         obs.append(ob_ok(oid, fi, call, construct="pattern %r" % lit, instance="pattern",
                          reason="%d sample tokens with free-form annotation values are each found as one token" % len(NODE_TOKEN_SAMPLES))))
    return obs
