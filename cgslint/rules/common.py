"""Term matchers shared by the rules."""
import ast

from .. import AnalysisError
from ..flow import show, walk_term

ELEMENT_PRESERVING = {"list", "tuple", "sorted", "iter", "reversed"}


def is_call(t, *names):
    """If term t is a call whose callee's last name component is in names,
    return (args, kwargs dict) else None."""
    if not isinstance(t, tuple) or t[0] != "call":
        return None
    n = callee_name(t)
    if n is None:
        return None
    if n in names or n.split(".")[-1] in names or n.split(":")[-1] in names:
        return t[3], dict(t[4])
    return None


def callee_name(t):
    f = t[2]
    if f[0] in ("fn", "cls", "ext", "builtin", "unresolved", "modconst"):
        return f[1]
    if f[0] == "attr":
        return f[2]
    if f[0] == "param":
        return f[1]
    return None


def method_call(t, name=None):
    """(receiver, method name, args, kwargs) if t is a method call on a receiver term."""
    if isinstance(t, tuple) and t[0] == "call" and t[2][0] == "attr":
        if name is None or t[2][2] == name:
            return t[2][1], t[2][2], t[3], dict(t[4])
    return None


def strip_wrappers(t, names=ELEMENT_PRESERVING, slices=True):
    while True:
        # a slice of a sequence holds elements of the sequence
        if slices and isinstance(t, tuple) and t and t[0] == "sub" and isinstance(t[2], tuple) and t[2] and t[2][0] == "slice":
            t = t[1]
            continue
        c = is_call(t, *names)
        if c and len(c[0]) >= 1 and t[2][0] == "builtin":
            t = c[0][0]
            continue
        # itertools.islice(X, ...) holds elements of X, like a slice
        if slices and isinstance(t, tuple) and t and t[0] == "call" and t[2] == ("ext", "itertools.islice") and t[3]:
            t = t[3][0]
            continue
        return t


def elem_of(t):
    """Decompose an iteration element.  Returns (role, collection term) where role is
    'elem' | 'key' | 'value' | 'index' | 'item', or None."""
    if not isinstance(t, tuple):
        return None
    if t[0] == "iter":
        coll = strip_wrappers(t[2])
        m = method_call(coll)
        if m and m[1] == "keys" and not m[2]:
            return ("key", m[0])
        if m and m[1] == "values" and not m[2]:
            return ("value", m[0])
        if m and m[1] == "items" and not m[2]:
            return ("item", m[0])
        if is_call(coll, "enumerate"):
            return ("enumitem", coll)
        return ("elem", coll)
    if t[0] == "sub" and t[2] == ("const", 0) and t[1][0] == "iter":
        # the key in `for n, data in G.nodes(data=...)` / `for u, v, data in G.edges(data=...)` is an element of G.nodes / G.edges
        c = t[1][2]
        if c[0] == "call" and c[2][0] == "attr" and c[2][2] == "nodes" and (c[3] or c[4]):
            return ("elem", ("attr", c[2][1], "nodes"))
    if t[0] == "sub" and t[2][0] == "const" and isinstance(t[2][1], int):
        inner = elem_of(t[1])
        if inner and inner[0] == "item":
            return ("key" if t[2][1] == 0 else "value", inner[1])
        if inner and inner[0] == "enumitem":
            args, kw = is_call(inner[1], "enumerate")
            if t[2][1] == 0:
                return ("index", strip_wrappers(args[0]))
            return elem_of(("iter", None, args[0]))
        if inner and inner[0] == "elem" and t[2][1] == 0:
            # the node key of a (node, data) pair drawn from G.nodes(data=...), however the pair was reached (enumerate, zip)
            c = inner[1]
            if c[0] == "call" and c[2][0] == "attr" and c[2][2] == "nodes" and (c[3] or c[4]):
                return ("elem", ("attr", c[2][1], "nodes"))
    return None


def node_attr(t):
    """Match <G>.nodes[<n>][<key>] or <G>.nodes[<n>].get(<key>[, default]).
    Returns (G, n, key term, default or None) or None."""
    m = method_call(t, "get")
    if m and 1 <= len(m[2]) <= 2:
        base = m[0]
        if base[0] == "sub" and base[1][0] == "attr" and base[1][2] == "nodes":
            return base[1][1], base[2], m[2][0], (m[2][1] if len(m[2]) == 2 else ("const", None))
    if t[0] == "sub" and t[1][0] == "sub" and t[1][1][0] == "attr" and t[1][1][2] == "nodes":
        return t[1][1][1], t[1][2], t[2], None
    return None


def edge_attr(t):
    """Match <G>.edges[<e>][<key>] / .get(key, d) -> (G, e, key, default)."""
    m = method_call(t, "get")
    if m and 1 <= len(m[2]) <= 2:
        base = m[0]
        if base[0] == "sub" and base[1][0] == "attr" and base[1][2] == "edges":
            return base[1][1], base[2], m[2][0], (m[2][1] if len(m[2]) == 2 else ("const", None))
    if t[0] == "sub" and t[1][0] == "sub" and t[1][1][0] == "attr" and t[1][1][2] == "edges":
        return t[1][1][1], t[1][2], t[2], None
    return None


def contains(t, sub):
    return any(x == sub for x in walk_term(t))


def sites_equal(a, b):
    return a == b


def strip_sites(t):
    """Position-free copy of a term (for comparing two code fragments)."""
    if not isinstance(t, tuple):
        return t
    if t and t[0] == "call":
        return ("call", None, strip_sites(t[2]), tuple(strip_sites(a) for a in t[3]),
                tuple((n, strip_sites(v)) for n, v in t[4]))
    if t and t[0] == "iter":
        return ("iter", None, strip_sites(t[2]))
    if t and t[0] in ("comp",):
        return ("comp", t[1], None, strip_sites(t[3]), tuple(strip_sites(g) for g in t[4]))
    if t and t[0] in ("lambda", "excvar", "withvar"):
        return (t[0], None)
    if t and t[0] == "effect":
        return ("effect", t[1], None)
    if t and t[0] == "opaque":
        return ("opaque", t[1], None)
    if t and t[0] == "var":
        return ("var", t[1], None)
    return tuple(strip_sites(x) if isinstance(x, tuple) else x for x in t)


def find_function_calls(fi, *names):
    """[(call ast, cfg node id, CallTarget)] for calls in fi whose target matches names."""
    return fi.flow.calls_to(*names)


def need(cond, msg, fi=None, node=None):
    if not cond:
        where = fi.where(node) if fi is not None else None
        raise AnalysisError(msg + (" (%s)" % where if where else ""), where)


def guards_of(fi, nid, named=False):
    """Branch conditions controlling cfg node nid: list of (test ast, polarity bool, branch node id)
    for every if/while node on which nid is control dependent in the simple structured sense
    (nid lies in exactly one arm)."""
    cfg = fi.cfg
    out = []
    for n in cfg.nodes:
        if n.kind not in ("if", "while"):
            continue
        arms = {}
        for dst, label in cfg.succ[n.id]:
            if label in ("T", "F"):
                arms[label] = dst
        if "T" not in arms and "F" not in arms:
            continue
        reach_t = _arm_nodes(cfg, n, "T")
        reach_f = _arm_nodes(cfg, n, "F")
        in_t = nid in reach_t
        in_f = nid in reach_f
        if in_t and not in_f:
            out.append(_resolved(fi, n, True, named))
        elif in_f and not in_t:
            out.append(_resolved(fi, n, False, named))
        elif not in_t and not in_f and n.kind == "if" and n.id != nid and cfg.dominates(n.id, nid):
            # guard clause: one arm always leaves (continue / break / return / raise), so the code behind the `if` runs only
            # when the other arm was taken
            no_exc = lambda a, b, l: l != "exc"
            leaves = {}
            for label in ("T", "F"):
                if label not in arms:
                    continue
                start = arms[label]
                if start == n.id:
                    continue
                reach = {start} | cfg.reachable_from(start, avoid={n.id}, edge_filter=no_exc)
                leaves[label] = nid not in reach
            if leaves.get("T") and not leaves.get("F", False):
                out.append(_resolved(fi, n, False, named))
            elif leaves.get("F") and not leaves.get("T", False):
                out.append(_resolved(fi, n, True, named))
    return out


def _resolved(fi, n, pol, named=False):
    """(test, polarity, node id) of a branch node, `not`s folded and (on request) named conditions followed"""
    t, p = strip_not(n.ast.test, pol)
    if not named:
        return (t, p, n.id)
    t2 = _named_condition(fi, t, n.id)
    if t2 is not t:
        t, p = strip_not(t2, p)
        t = _named_condition(fi, t, n.id)
    return (t, p, n.id)


def strip_not(test, pol):
    """(test, polarity) with leading `not`s folded into the polarity."""
    while isinstance(test, ast.UnaryOp) and isinstance(test.op, ast.Not):
        test = test.operand
        pol = not pol
    return (test, pol)


def _named_condition(fi, test, nid, depth=0):
    """A condition held in an explanatory temporary (`is_leading = count == 0` ... `if is_leading:`) is the condition itself:
    the name is followed to its single, path-free definition when nothing the expression reads is rebound in between."""
    fl = fi.flow
    while isinstance(test, ast.Name) and test.id in fl.locals and depth < 3:
        ds = [d for d in fl.reaching(test.id, nid) if d.kind != "unbound"]
        if len(ds) != 1 or ds[0].kind != "assign" or ds[0].path or ds[0].value is None:
            break
        v = ds[0].value
        if not isinstance(v, (ast.Compare, ast.BoolOp, ast.UnaryOp, ast.Call, ast.Name)) or (isinstance(v, ast.UnaryOp) and not isinstance(v.op, ast.Not)):
            break
        if not fl._stable(ds[0], nid):
            break
        test = v
        depth += 1
    return test


def if_arms(if_ast):
    """(test, true-arm statements, false-arm statements) of an ast.If with leading `not`s removed."""
    test, pol = strip_not(if_ast.test, True)
    return (test, if_ast.body, if_ast.orelse) if pol else (test, if_ast.orelse, if_ast.body)


def aug_like(st):
    """(target name, operator class, value ast) for `x op= v` and for `x = x op v` on a plain name."""
    if isinstance(st, ast.AugAssign) and isinstance(st.target, ast.Name):
        return st.target.id, type(st.op), st.value
    if isinstance(st, ast.Assign) and len(st.targets) == 1 and isinstance(st.targets[0], ast.Name) and isinstance(st.value, ast.BinOp) and \
            isinstance(st.value.left, ast.Name) and st.value.left.id == st.targets[0].id:
        return st.targets[0].id, type(st.value.op), st.value.right
    return None


def resolve_ast(fl, node, nid, depth=0):
    """Follow a Name through single, path-free assignments to the defining expression.
    Returns (ast expression, cfg node id where it is evaluated)."""
    while isinstance(node, ast.Name) and node.id in fl.locals and depth < 4:
        ds = [d for d in fl.reaching(node.id, nid) if d.kind != "unbound"]
        if len(ds) != 1 or ds[0].kind != "assign" or ds[0].path:
            break
        node, nid = ds[0].value, ds[0].node
        depth += 1
    return node, nid


def _arm_nodes(cfg, ifnode, label):
    """cfg nodes lexically inside the T (body) or F (orelse) arm of an if/while statement."""
    st = ifnode.ast
    stmts = st.body if label == "T" else st.orelse
    out = set()
    for s in stmts:
        for sub in ast.walk(s):
            nid = cfg.node_of_stmt.get(id(sub))
            if nid is not None:
                out.add(nid)
    return out


def enclosing_loops(fi, nid):
    """innermost-first list of loop cfg nodes (for/while) lexically containing cfg node nid"""
    cfg = fi.cfg
    out = []
    for n in cfg.nodes:
        if n.kind in ("for", "while"):
            body = set()
            for s in n.ast.body:
                for sub in ast.walk(s):
                    x = cfg.node_of_stmt.get(id(sub))
                    if x is not None:
                        body.add(x)
            if nid in body:
                out.append((len(body), n))
    out.sort(key=lambda x: x[0])
    return [n for _, n in out]


def norm_src(node):
    """Position-free normalised source of an ast node."""
    return ast.unparse(node)


def call_arg(call, index, name):
    """ast of the argument given positionally at `index` or by keyword `name` (None if absent)."""
    if len(call.args) > index and not any(isinstance(a, ast.Starred) for a in call.args[:index + 1]):
        return call.args[index]
    for kw in call.keywords:
        if kw.arg == name:
            return kw.value
    return None


def scope_functions(repo, fi):
    """fi plus the functions of its module that are not in the confirmed inventory and reachable from it: helpers that a
    refactoring split off and that could not be analysed in place (cgslint/inline.py)."""
    from ..inline import known_functions
    known = known_functions().get(fi.module.name, set())
    out, work, seen = [fi], [fi], {fi.fq}
    while work:
        f = work.pop()
        for call, nid in f.flow.calls():
            t = repo.resolve_call(f, call)
            if t.kind == "repo" and t.fi is not None and t.fi.module is fi.module and t.fi.qualname not in known and t.fi.fq not in seen:
                seen.add(t.fi.fq)
                out.append(t.fi)
                work.append(t.fi)
    return out


def linear(t):
    """Linear normal form of an integer term: (sorted tuple of (atom term, coefficient), constant)."""
    from collections import Counter
    atoms, const = Counter(), 0

    def go(x, sign):
        nonlocal const
        if isinstance(x, tuple) and x and x[0] == "binop" and x[1] in ("+", "-"):
            go(x[2], sign)
            go(x[3], sign if x[1] == "+" else -sign)
        elif isinstance(x, tuple) and x and x[0] == "const" and isinstance(x[1], int) and not isinstance(x[1], bool):
            const += sign * x[1]
        else:
            atoms[strip_sites(x)] += sign
    go(t, 1)
    return tuple(sorted(((a, c) for a, c in atoms.items() if c), key=repr)), const


def _attr_table(t, key, fl=None, depth=0):
    """The graph G when t is the table nx.get_node_attributes(G, key), a filtered copy `{n: v for n, v in T.items() if c}`
    of such a table, or a name bound to one of these on every path."""
    t = strip_wrappers(t)
    cc = is_call(t, "networkx.get_node_attributes")
    if cc and len(cc[0]) >= 2 and cc[0][1] == ("const", key):
        return cc[0][0]
    if depth > 3:
        return None
    if t and t[0] == "comp" and t[1] == "dict" and len(t[4]) == 1 and t[3][0] == "tuple" and len(t[3][1]) == 2:
        it = t[4][0][1]
        k, v = t[3][1]
        if k == ("sub", it, ("const", 0)) and v == ("sub", it, ("const", 1)) and it[0] == "iter":
            m = method_call(it[2], "items")
            if m and not m[2]:
                return _attr_table(m[0], key, fl, depth + 1)
    if fl is not None and t and t[0] in ("var", "ifexp"):
        alts = fl.alternatives(t)
        if alts and len(alts) > 1:
            gs = {_attr_table(a, key, fl, depth + 1) for a in alts}
            if len(gs) == 1:
                return gs.pop()
    return None


def carried_by(values_t, node_t, key, fl=None):
    """The graph term G when values_t is the value of attribute `key` of node node_t of G and node_t ranges over the nodes
    of G that have it: `for node, values in nx.get_node_attributes(G, key).items()`, or `G.nodes[node][key]` for a node of
    a loop over G's nodes."""
    lst, en = elem_of(values_t), elem_of(node_t)
    if lst and lst[0] == "value" and en and en[0] == "key" and lst[1] == en[1]:
        g = _attr_table(en[1], key, fl)
        if g is not None:
            return g
    na = node_attr(values_t)
    if na and na[1] == node_t and na[2] == ("const", key) and (na[3] is None or na[3] in (("list", ()), ("tuple", ()))):
        if en and en[0] in ("elem", "key") and strip_wrappers(en[1]) in (("attr", na[0], "nodes"), na[0]):
            return na[0]
    return None


def reachable_none_aware(fi, start, avoid=()):
    """cfg nodes reachable from `start`, not following the branch of an `if x is None` / `if x is not None` / `if x` /
    `if not x` test that cannot be taken because x was bound to None on the way and not rebound since (the path
    `except E: x = None` ... `if x is None: continue` does not go on behind the test)."""
    cfg = fi.cfg
    avoid = set(avoid)

    def none_binding(n):
        """names bound to the constant None / names bound to anything else at node n"""
        nn, other = set(), set()
        if n.ast is None or n.kind not in ("stmt",):
            if n.kind in ("for", "with", "except") and n.ast is not None:
                tgt = getattr(n.ast, "target", None) or getattr(n.ast, "name", None)
                if isinstance(tgt, ast.AST):
                    other |= {x.id for x in ast.walk(tgt) if isinstance(x, ast.Name)}
                elif isinstance(tgt, str):
                    other.add(tgt)
            return nn, other
        st = n.ast
        if isinstance(st, ast.Assign) and len(st.targets) == 1 and isinstance(st.targets[0], ast.Name) and isinstance(st.value, ast.Constant) and st.value.value is None:
            nn.add(st.targets[0].id)
            return nn, other
        for x in ast.walk(st):
            if isinstance(x, ast.Name) and isinstance(x.ctx, (ast.Store, ast.Del)):
                other.add(x.id)
        return nn, other

    def dead_label(n, known):
        if n.kind != "if":
            return None
        t = n.ast.test
        neg = False
        if isinstance(t, ast.UnaryOp) and isinstance(t.op, ast.Not):
            t, neg = t.operand, True
        name, taken_when_none = None, None
        if isinstance(t, ast.Compare) and len(t.ops) == 1 and isinstance(t.left, ast.Name) and isinstance(t.comparators[0], ast.Constant) and \
                t.comparators[0].value is None and isinstance(t.ops[0], (ast.Is, ast.IsNot)):
            name = t.left.id
            taken_when_none = "T" if isinstance(t.ops[0], ast.Is) else "F"
        elif isinstance(t, ast.Name):
            name, taken_when_none = t.id, "F"
        if name is None or name not in known:
            return None
        if neg:
            taken_when_none = "F" if taken_when_none == "T" else "T"
        return "F" if taken_when_none == "T" else "T"

    seen = set()
    out = set()
    nn0, _ = none_binding(cfg.nodes[start])
    work = [(start, frozenset(nn0))]
    while work:
        nid, known = work.pop()
        n = cfg.nodes[nid]
        dead = dead_label(n, known)
        for dst, label in cfg.succ[nid]:
            if label == dead or dst in avoid:
                continue
            dn = cfg.nodes[dst]
            nn, other = none_binding(dn)
            k2 = frozenset((known - other) | nn)
            if (dst, k2) in seen:
                continue
            seen.add((dst, k2))
            out.add(dst)
            work.append((dst, k2))
    return out
