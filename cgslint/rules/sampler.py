"""Sampler rules: growth-step protocol (C16), stop rule / weights / terminals / seed (C17)."""
import ast
import itertools

from .. import AnalysisError
from ..absint import Evaluator, Unsupported, descriptor, DELETED, AStr
from ..flow import show, walk_term, const
from ..report import ob_ok, ob_fail, ob_undecided
from .common import (is_call, method_call, node_attr, elem_of, strip_wrappers, guards_of,
                     enclosing_loops, need, callee_name)
from .order import on_every_path

SELF = ("param", "self")


def _no_exc(src, dst, label):
    return label != "exc"


class Growth:
    def __init__(self, repo):
        fi = self.fi = repo.function("sample:MoleculeSampler.add_fragment")
        fl = self.fl = fi.flow
        P = fi.positional_params
        need(len(P) >= 6, "add_fragment no longer takes (self, molecule, open_bonds, fragments, polymer_reactivities, fragment_reactivities)", fi)
        self.molecule, self.open_bonds, self.fragments, self.preact, self.freact = [("param", p) for p in P[1:6]]
        self.merges = fl.calls_to("graph_utils:merge_graphs")
        self.adds = []
        for call, nid in fl.calls():
            t = fl.canon(call, nid)
            m = method_call(t)
            if m and m[1] in ("add_edge", "add_edges_from") and m[0] == self.molecule:
                self.adds.append((call, nid, t))


def _keys_of(t, d):
    t = strip_wrappers(t)
    m = method_call(t, "keys")
    return t == d or (m is not None and m[0] == d and not m[2])


def prov_growth_edge(repo, tier="quick"):
    g = Growth(repo)
    fi, fl, cfg = g.fi, g.fl, g.fi.cfg
    obs = []
    oid = "PROV.growth-edge"
    if len(g.merges) != 1:
        need(len(g.merges) >= 1, "anchor vanished: add_fragment no longer calls merge_graphs", fi)
        obs.append(ob_fail(oid, fi, construct="%d merge_graphs calls" % len(g.merges), instance="one-merge",
                           reason="a growth step adds more than one fragment copy"))
        return obs
    if len(g.adds) != 1:
        need(len(g.adds) >= 1, "anchor vanished: add_fragment no longer calls molecule.add_edge", fi)
        obs.append(ob_fail(oid, fi, construct="%d add_edge calls" % len(g.adds), instance="one-bond",
                           reason="a growth step attaches the new fragment by more than one bond"))
        return obs
    mcall, mnode, _ = g.merges[0]
    acall, anode, at = g.adds[0]
    for lab, nid in (("merge", mnode), ("bond", anode)):
        ok = on_every_path(fi, {nid}) and not enclosing_loops(fi, nid)
        (obs.append(ob_ok(oid, fi, construct="%s once on every path" % lab, instance="once:" + lab,
                          reason="each growth step adds exactly one fragment copy and one bond")) if ok else
         obs.append(ob_fail(oid, fi, construct="%s once on every path" % lab, instance="once:" + lab,
                            reason="the %s is not executed exactly once per growth step" % lab)))
    m = method_call(at)
    args, kw = m[2], m[3]
    if m[1] != "add_edge" or len(args) < 2:
        obs.append(ob_fail(oid, fi, acall, construct=show(at), instance="endpoints", reason="not a single explicit edge"))
        return obs
    S, X = args[0], args[1]
    pair = kw.get("bonding")
    order = kw.get("order")
    M = fl.canon(mcall, mnode)
    margs = M[3]
    # X = correspondence[target]
    okX = X[0] == "sub" and X[1] == M
    T = X[2] if okX else None
    # merge_graphs(molecule, self.fragment_dict[F])
    tmpl = margs[1] if len(margs) > 1 else dict(M[4]).get("target_graph")
    okM = len(margs) >= 1 and margs[0] == g.molecule and tmpl is not None and tmpl[0] == "sub" and \
        tmpl[1] == ("attr", SELF, "fragment_dict")
    F = tmpl[2] if okM else None
    RC = None
    if okX and okM and T[0] == "sub" and F[0] == "sub" and T[1] == F[1] and F[2] == ("const", 0) and T[2] == ("const", 1):
        RC = T[1]
    ok_rc = False
    C = None
    if RC is not None:
        c = is_call(RC, "random.choice", "choice")
        if c and len(c[0]) == 1 and c[0][0][0] == "sub" and c[0][0][1] == g.fragments:
            C = c[0][0][2]
            ok_rc = True
    (obs.append(ob_ok(oid, fi, mcall, construct="merge_graphs(molecule, self.fragment_dict[name]); (name, target) = choice(fragments[compl])",
                      instance="template", reason="the merged template is the fragment that carries the chosen partner descriptor, "
                      "and the bond goes to the copy of the atom that carries it")) if ok_rc else
     obs.append(ob_fail(oid, fi, mcall, construct="merge_graphs(%s); new end %s" % (", ".join(show(a) for a in margs), show(X)), instance="template",
                        reason="the new bond's far end is not correspondence[target] of the (fragment name, target) element drawn from fragments[partner descriptor], "
                               "or the merged template is not self.fragment_dict[that name]")))
    if not ok_rc:
        return obs
    # C = _select_bonding_operator(find_complementary_bonding_descriptor(B, keys(fragments)), fragment_reactivities.get(B, None))
    cC = is_call(C, "_select_bonding_operator")
    B = None
    okC = False
    if cC and len(cC[0]) >= 1:
        cb = is_call(cC[0][0], "find_complementary_bonding_descriptor")
        w = cC[0][1] if len(cC[0]) > 1 else cC[1].get("probabilities")
        if cb and len(cb[0]) == 2 and _keys_of(cb[0][1], g.fragments):
            B = cb[0][0]
            mw = method_call(w, "get") if w else None
            okC = mw is not None and mw[0] == g.freact and mw[2] and mw[2][0] == B
            if not okC:
                obs.append(ob_fail(oid, fi, acall, construct="partner weights %s" % (show(w) if w else "<none>"), instance="partner-weights",
                                   reason="the partner is not drawn with the conditional reactivities of the chosen site descriptor"))
    cB = is_call(B, "_select_bonding_operator") if B else None
    okB = bool(cB and len(cB[0]) >= 2 and _keys_of(cB[0][0], g.open_bonds) and cB[0][1] == g.preact)
    (obs.append(ob_ok(oid, fi, acall, construct="compl = select(find_complementary(site_descr, fragments.keys()), fragment_reactivities.get(site_descr))",
                      instance="partner", reason="the partner descriptor is complementary to the chosen site descriptor and exists on some fragment")) if (okC and okB) else
     obs.append(ob_fail(oid, fi, acall, construct="partner = %s" % show(C), instance="partner",
                        reason="the partner descriptor is not selected among find_complementary_bonding_descriptor(site descriptor, descriptors present on fragments)")))
    if not (okC and okB):
        return obs
    # S = random.choice(open_bonds[B])
    cS = is_call(S, "random.choice", "choice")
    okS = bool(cS and len(cS[0]) == 1 and cS[0][0] == ("sub", g.open_bonds, B))
    (obs.append(ob_ok(oid, fi, acall, construct="site = choice(open_bonds[site_descr])", instance="site",
                      reason="the growth site is an atom that still offers the chosen descriptor")) if okS else
     obs.append(ob_fail(oid, fi, acall, construct="site = %s" % show(S), instance="site",
                        reason="the growth site is not drawn from the atoms that offer the chosen descriptor")))
    okP = pair == ("tuple", (B, C))
    (obs.append(ob_ok(oid, fi, acall, construct="bonding=(site_descr, partner)", instance="record", reason="the bond records the descriptor pair")) if okP else
     obs.append(ob_fail(oid, fi, acall, construct="bonding=%s" % (show(pair) if pair else "<missing>"), instance="record",
                        reason="the bond does not record (site descriptor, partner descriptor)")))
    okO = False
    co = is_call(order, "int") if order else None
    if co and len(co[0]) == 1 and co[0][0][0] == "sub" and co[0][0][2] == ("const", -1) and co[0][0][1] in (B, C):
        okO = True
    (obs.append(ob_ok(oid, fi, acall, construct="order=int(descr[-1])", instance="order", reason="bond order is the descriptors' annotated order")) if okO else
     obs.append(ob_fail(oid, fi, acall, construct="order=%s" % (show(order) if order else "<missing>"), instance="order",
                        reason="the bond order is not the order annotated on the joined descriptors")))
    # PAIR: both descriptors consumed on every path
    want = {"site": (S, B), "partner": (X, C)}
    for lab, (N, D) in want.items():
        sites = set()
        wrong = []
        for call, nid in fl.calls():
            t = fl.canon(call, nid)
            mm = method_call(t, "remove")
            if not mm or len(mm[2]) != 1:
                continue
            na = node_attr(mm[0])
            if na and na[0] == g.molecule and na[1] == N and na[2] == ("const", "bonding") and mm[2][0] == D and na[3] is None:
                sites.add(nid)
            elif na and (na[1] == N) != (mm[2][0] == D) and (na[1] in (S, X)) and mm[2][0] in (B, C):
                wrong.append(call)
        ok = bool(sites) and cfg.must_pass(cfg.entry, {cfg.exit}, sites, _no_exc)
        oidp = "PAIR.sampler-consume"
        (obs.append(ob_ok(oidp, fi, acall, construct="molecule.nodes[%s]['bonding'].remove(%s descriptor)" % (lab, lab), instance=lab,
                          reason="the %s descriptor is consumed on every path: no descriptor is used twice" % lab)) if ok else
         obs.append(ob_fail(oidp, fi, acall, construct="molecule.nodes[%s]['bonding'].remove(%s descriptor)" % (lab, lab), instance=lab,
                            reason="the %s descriptor is not removed from its own atom's list on every path" % lab)))
        for call in wrong:
            obs.append(ob_fail(oidp, fi, call, construct=ast.unparse(call), instance=lab + ":crossed",
                               reason="a descriptor is removed from the other end's atom"))
    return obs


# ---------------------------------------------------------------------------
# C17
# ---------------------------------------------------------------------------

def prov_weights(repo, tier="quick"):
    fi = repo.function("sample:_select_bonding_operator")
    fl, cfg = fi.flow, fi.cfg
    P = fi.positional_params
    need(len(P) == 2 or (len(P) == 3 and P[2] == "rng"), "_select_bonding_operator no longer takes (bonds, probabilities[, rng])", fi)
    bonds, probs = ("param", P[0]), ("param", P[1])
    obs = []
    oid = "PROV.weights"
    weighted = [(c_, n_, None) for c_, n_ in fl.calls() if is_call(fl.canon(c_, n_), "random.choices", "choices")]
    plain = [(c_, n_, None) for c_, n_ in fl.calls() if is_call(fl.canon(c_, n_), "random.choice", "choice")]
    need(weighted, "anchor vanished: no random.choices in _select_bonding_operator", fi)
    for call, nid, _ in weighted:
        t = fl.canon(call, nid)
        args, kw = t[3], dict(t[4])
        pop = args[0] if args else kw.get("population")
        w = kw.get("weights", args[1] if len(args) > 1 else None)
        k = kw.get("k", ("const", 1))
        # the population: the parameter itself or a list made of it (the same elements in the same order)
        def is_bonds(x):
            c = is_call(x, "list", "tuple") if x else None
            return x == bonds or bool(c and len(c[0]) == 1 and not c[1] and c[0][0] == bonds)
        okp = is_bonds(pop)
        # X = [np.array]([probabilities.get(b, 0) for b in bonds])
        def is_X(x):
            c = is_call(x, "numpy.array", "numpy.asarray")
            if c and c[0]:
                x = c[0][0]
            if x and x[0] == "comp" and x[1] in ("list", "gen") and len(x[4]) == 1 and not x[4][0][2]:
                elem = x[4][0][1]
                e = elem_of(elem)
                if e and e[0] == "elem" and is_bonds(e[1]):
                    m = method_call(x[3], "get")
                    if m and m[0] == probs and len(m[2]) == 2 and m[2][0] == elem and m[2][1] in (("const", 0), ("const", 0.0)):
                        return True
            return False
        okw = False
        if w is not None:
            if is_X(w):
                okw = True
            elif w[0] == "binop" and w[1] == "/" and is_X(w[2]):
                s = is_call(w[3], "sum", "numpy.sum")
                ms = method_call(w[3], "sum")
                if (s and s[0] and s[0][0] == w[2]) or (ms and ms[0] == w[2]):
                    okw = True
        (obs.append(ob_ok(oid, fi, call, construct="random.choices(bonds, weights=[probabilities.get(b, 0) for b in bonds] / sum)", instance="weights",
                          reason="weights correspond element for element to the population; a missing key weighs 0")) if (okp and okw) else
         obs.append(ob_fail(oid, fi, call, construct="random.choices(%s, weights=%s)" % (show(pop), show(w) if w else "<none>"), instance="weights",
                            reason="the weights are not probabilities.get(b, 0) for the same sequence the choice is made from")))
        gs = guards_of(fi, nid)
        okg = any(pol and fl.canon(test, gid) in (probs, ("cmp", ("is not",), (probs, ("const", None)))) for test, pol, gid in gs)
        (obs.append(ob_ok(oid, fi, call, construct="if probabilities: weighted draw", instance="weighted-branch",
                          reason="a given table is always honoured")) if okg else
         obs.append(ob_fail(oid, fi, call, construct="weighted draw guard", instance="weighted-branch",
                            reason="the weighted draw is not taken whenever a reactivity table is given")))
    for call, nid, _ in plain:
        gs = guards_of(fi, nid)
        okg = any((not pol) and fl.canon(test, gid) in (probs, ("cmp", ("is not",), (probs, ("const", None)))) or
                  (pol and fl.canon(test, gid) in (("unop", "not", probs), ("cmp", ("is",), (probs, ("const", None)))))
                  for test, pol, gid in gs)
        (obs.append(ob_ok(oid, fi, call, construct="else: random.choice(bonds)", instance="unweighted-branch",
                          reason="the unweighted draw happens only when no table is given")) if okg else
         obs.append(ob_fail(oid, fi, call, construct="unweighted draw guard", instance="unweighted-branch",
                            reason="an unweighted draw can ignore a given reactivity table (zero reactivities would be chosen)")))
    return obs


def tt_terminal_filter(repo, tier="quick"):
    """After the bond: partner terminal => the site atom offers nothing more; otherwise the site
    keeps exactly its non-terminal descriptors.  Decided by abstract evaluation of the statements
    after the two removals over a two-element list [terminal descriptor, non-terminal descriptor]."""
    g = Growth(repo)
    fi, fl, cfg = g.fi, g.fl, g.fi.cfg
    need(len(g.adds) == 1, "expected one add_edge in add_fragment", fi)
    acall, anode, at = g.adds[0]
    m = method_call(at)
    S = m[2][0]
    pair = m[3].get("bonding")
    need(pair is not None and pair[0] == "tuple" and len(pair[1]) == 2, "add_edge has no bonding=(site, partner)", fi, acall)
    B, C = pair[1]
    # statements after the add_edge at function top level
    body = fi.node.body
    idx = None
    for i, st in enumerate(body):
        if any(sub is acall for sub in ast.walk(st)):
            idx = i
    need(idx is not None, "add_edge is not a top-level statement of add_fragment", fi, acall)
    tail = body[idx + 1:]
    # statements that neither touch the 'bonding' attribute nor the terminal set (the hydrogen bookkeeping of the two bonded
    # atoms) have no part in this question
    def relevant(st):
        return isinstance(st, ast.Return) or any((isinstance(x, ast.Constant) and x.value == "bonding") or
                                                 (isinstance(x, ast.Attribute) and x.attr == "terminal_bonds") for x in ast.walk(st))
    tail = [st for st in tail if relevant(st)]
    T = descriptor("$", 1, 1)      # a terminal descriptor
    N = descriptor("$", 2, 1)      # a non-terminal descriptor
    T2 = descriptor(">", 3, 1)     # another terminal
    B0 = descriptor("<", 4, 1)     # the site descriptor that was just used
    results = {}
    for partner_terminal in (True, False, "adjacent"):
        store = {"bonding": [B0, T, N, T2] if partner_terminal != "adjacent" else [B0, T, T2, N]}
        if partner_terminal == "adjacent":
            partner_terminal = False
            scenario = "adjacent"
        else:
            scenario = partner_terminal
        Cval = T if partner_terminal else N

        def load(ev, e, env):
            if isinstance(e, ast.Name) and e.id in fl.locals and e.id not in env:
                ct = fl.canon(e, cfg.node_for(e)) if id(e) in cfg.owner else None
                if ct == C:
                    return True, Cval
                if ct == B:
                    return True, B0
                if ct == S:
                    return True, "SITE"
                if ct == g.molecule:
                    return True, "MOL"
                return True, "<%s>" % e.id
            if isinstance(e, ast.Attribute) and ast.unparse(e) == "self.terminal_bonds":
                return True, [T, T2]
            if isinstance(e, ast.Subscript) and id(e) in cfg.owner:
                ct = fl.canon(e, cfg.node_for(e))
                # the drawn values held in a record: site[2] is the partner descriptor
                if ct == C:
                    return True, Cval
                if ct == B:
                    return True, B0
                if ct == S:
                    return True, "SITE"
                na = node_attr(ct)
                if na and na[0] == g.molecule and na[1] == S and na[2] == ("const", "bonding"):
                    if store["bonding"] is DELETED:
                        from ..absint import Raised
                        raise Raised("KeyError")
                    return True, store["bonding"]
                if ct == ("sub", ("attr", g.molecule, "nodes"), S):
                    return True, "SITEDICT"
            return False, None

        def call_hook(ev, call, env):
            if isinstance(call.func, ast.Attribute) and call.func.attr == "get" and id(call) in cfg.owner:
                ct = fl.canon(call, cfg.node_for(call))
                na = node_attr(ct)
                if na and na[0] == g.molecule and na[1] == S and na[2] == ("const", "bonding"):
                    if store["bonding"] is DELETED:
                        return True, ev.eval(call.args[1], env) if len(call.args) > 1 else None
                    return True, store["bonding"]
            if isinstance(call.func, ast.Attribute) and call.func.attr in ("remove",) and id(call) in cfg.owner:
                ct = fl.canon(call, cfg.node_for(call))
                mm = method_call(ct, "remove")
                na = node_attr(mm[0]) if mm else None
                if na and na[1] != S:
                    return True, None      # bookkeeping on the other atom
            if isinstance(call.func, ast.Attribute) and call.func.attr == "pop" and id(call) in cfg.owner:
                ct = fl.canon(call, cfg.node_for(call))
                mm = method_call(ct, "pop")
                if mm and mm[0] == ("sub", ("attr", g.molecule, "nodes"), S) and mm[2] and mm[2][0] == ("const", "bonding"):
                    store["bonding"] = DELETED
                    return True, None
            return False, None

        def store_hook(ev, target, value, env):
            if isinstance(target, ast.Subscript) and id(target) in cfg.owner:
                ct = fl.canon(target, cfg.node_for(target))
                na = node_attr(ct)
                if na and na[0] == g.molecule and na[1] == S and na[2] == ("const", "bonding"):
                    store["bonding"] = value
                    return True
            return False
        ev = Evaluator(call_hook=call_hook, load_hook=load, store_hook=store_hook)
        try:
            try:
                ev.block(tail, {})
            except Exception as r:
                if type(r).__name__ != "_Return":
                    raise
        except Unsupported as err:
            raise AnalysisError("terminal handling outside the block language: %s" % err, fi.where(tail[0] if tail else None))
        results[scenario] = store["bonding"]
    obs = []
    oid = "TT.terminal-filter"
    r = results[True]
    ok = r is DELETED or r == []
    (obs.append(ob_ok(oid, fi, tail[0] if tail else None, construct="partner terminal -> site offers no descriptors", instance="terminal-partner",
                      reason="an atom that received a terminal fragment offers no further descriptors")) if ok else
     obs.append(ob_fail(oid, fi, tail[0] if tail else None, construct="partner terminal -> site keeps %s" % _names(r, T, N, T2), instance="terminal-partner",
                        reason="an atom that received a terminal fragment still offers descriptors")))
    r = results[False]
    ev = Evaluator()
    ok = isinstance(r, list) and len(r) == 1 and ev.eq(r[0], N)
    r2 = results["adjacent"]
    if ok and not (isinstance(r2, list) and len(r2) == 1 and ev.eq(r2[0], N)):
        ok = False
        r = r2
    (obs.append(ob_ok(oid, fi, tail[0] if tail else None, construct="partner not terminal -> site keeps exactly its non-terminal descriptors", instance="other-partner",
                      reason="terminal descriptors are withdrawn from an atom that grew otherwise; the others stay")) if ok else
     obs.append(ob_fail(oid, fi, tail[0] if tail else None, construct="partner not terminal -> site keeps %s" % _names(r, T, N, T2), instance="other-partner",
                        reason="after ordinary growth the site atom must keep exactly its non-terminal descriptors")))
    return obs


def _names(r, T, N, T2):
    if r is DELETED:
        return "<attribute removed>"
    if not isinstance(r, list):
        return repr(r)
    ev = Evaluator()
    out = []
    for x in r:
        out.append("terminal" if ev.eq(x, T) or ev.eq(x, T2) else "non-terminal" if ev.eq(x, N) else "?")
    return "[" + ", ".join(out) + "]"


def prov_stop_rule(repo, tier="quick"):
    fi = repo.function("sample:MoleculeSampler.sample")
    fl, cfg = fi.flow, fi.cfg
    obs = []
    oid = "PROV.stop-rule"
    grows = fl.calls_to("sample:MoleculeSampler.add_fragment")
    need(len(grows) == 1, "expected exactly one add_fragment call in sample(), found %d" % len(grows), fi)
    gcall, gnode, _ = grows[0]
    loops = enclosing_loops(fi, gnode)
    need(loops and loops[0].kind == "while", "add_fragment is not inside a while loop in sample()", fi, gcall)
    lp = loops[0]
    test = lp.ast.test
    target = ("param", "target_weight")
    cw = None
    ok_test = False
    if isinstance(test, ast.Compare) and len(test.ops) == 1:
        l, r = test.left, test.comparators[0]
        lt, rt = fl.canon(l, lp.id), fl.canon(r, lp.id)
        if isinstance(test.ops[0], ast.Lt) and rt == target and isinstance(l, ast.Name):
            cw, ok_test = l.id, True
        elif isinstance(test.ops[0], ast.Gt) and lt == target and isinstance(r, ast.Name):
            cw, ok_test = r.id, True
    (obs.append(ob_ok(oid, fi, lp.ast, construct="while current_weight < target_weight", instance="guard",
                      reason="growth continues exactly while the summed mass is strictly below the target")) if ok_test else
     obs.append(ob_fail(oid, fi, lp.ast, construct="while %s" % ast.unparse(test), instance="guard",
                        reason="the growth loop's guard is not `summed mass < target_weight` (strict)")))
    if not ok_test:
        return obs
    # definitions of the accumulator
    defs = [d for d in fl.defs if d.var == cw and d.kind not in ("unbound",)]
    init_ok = False
    step_ok = False
    step_nodes = set()
    M = fl.canon(gcall, gnode)
    for d in defs:
        if d.kind == "assign":
            v = fl.canon(d.value, d.node)
            if v in (("const", 0), ("const", 0.0)) and not enclosing_loops(fi, d.node):
                init_ok = True
            elif lp.id in [l.id for l in enclosing_loops(fi, d.node)]:
                step_nodes.add(d.node)
                step_ok = False
                # cw = cw + masses[...]
                if v[0] == "binop" and v[1] == "+" and _is_mass_of(fl, v[3], M):
                    step_ok = True
            else:
                init_ok = False
        elif d.kind == "aug":
            step_nodes.add(d.node)
            st = d.value
            v = fl.canon(st.value, d.node)
            if isinstance(st.op, ast.Add) and _is_mass_of(fl, v, M) and lp.id in [l.id for l in enclosing_loops(fi, d.node)]:
                step_ok = True
    (obs.append(ob_ok(oid, fi, construct="current_weight = 0 before the loop", instance="init", reason="the sum starts at zero: the start fragment is not counted")) if init_ok else
     obs.append(ob_fail(oid, fi, construct="initial value of %s" % cw, instance="init", reason="the summed mass does not start at the constant 0")))
    (obs.append(ob_ok(oid, fi, construct="current_weight += self.fragment_masses[name returned by this step]", instance="step",
                      reason="each step adds the mass of the fragment it added")) if step_ok and len(step_nodes) == 1 else
     obs.append(ob_fail(oid, fi, construct="update of %s in the loop" % cw, instance="step",
                        reason="the summed mass is not increased by self.fragment_masses[<name returned by this iteration's add_fragment>] exactly once")))
    if step_ok and len(step_nodes) == 1:
        # every path through the body passes the update
        body_entry = [dst for dst, label in cfg.succ[lp.id] if label == "T"]
        reach = set()
        for b in body_entry:
            if b in step_nodes:
                continue
            reach |= {b} | cfg.reachable_from(b, avoid=step_nodes, edge_filter=_no_exc)
        bad = lp.id in reach
        (obs.append(ob_fail(oid, fi, construct="path through the loop body without the update", instance="every-iteration",
                            reason="an iteration can add a fragment without counting its mass")) if bad else
         obs.append(ob_ok(oid, fi, construct="update on every path through the body", instance="every-iteration",
                          reason="every growth step is counted")))
    return obs


def _is_mass_of(fl, v, M):
    return v[0] == "sub" and v[1] == ("attr", SELF, "fragment_masses") and v[2] == fl.subscript(M, ("const", 1))


RANDOM_OK = {"random.choice", "random.choices", "random.seed"}
BAD_RANDOM_PREFIX = ("numpy.random", "secrets", "os.urandom", "uuid", "random.SystemRandom")


def det_sampler(repo, tier="quick"):
    """Every random draw of sample.py comes from the sampler's own generator (`self.random = random.Random(seed)`, handed to
    module-level helpers as `rng=self.random`) on an ordered population; the generator is created from the seed parameter on
    every path through __init__.  Draws from the module-level generator of `random` are shared by all samplers of the process:
    constructing a second sampler re-seeds the first one's stream."""
    obs = []
    oid = "DET.sampler"
    m = repo.module("sample")
    n_draws = 0
    OWN = ("attr", SELF, "random")
    DRAWS = ("choice", "choices", "random", "randint", "randrange", "shuffle", "sample", "uniform", "gauss", "betavariate", "triangular")
    for fi in m.functions.values():
        for call, nid in fi.flow.calls():
            ct = fi.flow.canon(call, nid)
            f = ct[2]
            t = repo.resolve_call(fi, call)
            source = None
            if t.kind == "ext" and (t.name.startswith("random.") or t.name.startswith(BAD_RANDOM_PREFIX)) and t.name != "random.Random":
                source = "module"
            elif f[0] == "attr" and f[2] in DRAWS and f[1] == OWN:
                source = "own"
            elif f[0] == "attr" and f[2] in DRAWS and f[1][0] == "param" and f[1][1] == "rng":
                # a helper that is handed the generator: every call of it in sample.py must hand over the sampler's own
                sites = [(f2, c2, n2) for f2 in m.functions.values() for c2, n2, _ in f2.flow.calls_to(fi.fq)]
                pos = list(fi.positional_params).index("rng") if "rng" in fi.positional_params else None
                handed = []
                for f2, c2, n2 in sites:
                    ct2 = f2.flow.canon(c2, n2)
                    h = dict(ct2[4]).get("rng")
                    if h is None and pos is not None and len(ct2[3]) > pos:
                        h = ct2[3][pos]
                    handed.append(h)
                source = "own" if sites and all(h == OWN for h in handed) else "default"
            if source is None:
                continue
            n_draws += 1
            if source == "module":
                obs.append(ob_fail(oid, fi, call, construct=t.name, instance="source",
                                   reason="a draw from the process-wide generator (or another source): a second sampler constructed in between re-seeds it, "
                                          "so `sampler(seed).sample()` is not a function of the seed"))
                continue
            if source == "default":
                obs.append(ob_fail(oid, fi, call, construct="rng." + f[2], instance="source",
                                   reason="the helper is not handed the sampler's own generator at every call: it falls back to the process-wide one"))
                continue
            pop = ct[3][0] if ct[3] else None
            if pop is not None and _set_typed(strip_wrappers(pop)):
                obs.append(ob_fail(oid, fi, call, construct=show(ct), instance="population",
                                   reason="a random draw from a set: the result depends on the interpreter's hash seed"))
            else:
                obs.append(ob_ok(oid, fi, call, construct="%s(list-typed population) on the sampler's generator" % f[2], instance="draw:" + fi.qualname,
                                 reason="draws use the sampler's own seeded generator on ordered populations"))
    need(n_draws >= 3, "anchor vanished: fewer than 3 random draws in sample.py", None)
    from .prov import _set_typed as _st
    # ... in sample.py and in the helpers the growth step calls (complement lookup, open-descriptor index)
    for fi in list(m.functions.values()) + list(repo.module("cgsmiles_utils").functions.values()):
        fl2 = fi.flow
        its = [(nd.ast.iter, nd.id, nd.ast) for nd in fi.cfg.nodes if nd.kind == "for"]
        for sub in ast.walk(fi.node):
            if isinstance(sub, (ast.ListComp, ast.DictComp, ast.GeneratorExp)) and id(sub) in fi.cfg.owner:
                for g in sub.generators:
                    its.append((g.iter, fi.cfg.owner[id(sub)], sub))
            if isinstance(sub, ast.Call) and id(sub) in fi.cfg.owner and isinstance(sub.func, ast.Name) and sub.func.id in ("list", "tuple", "enumerate", "zip") and sub.args:
                its.append((sub.args[0], fi.cfg.owner[id(sub)], sub))
        for itx, nid, where in its:
            t = strip_wrappers(fl2.canon(itx, nid))
            if _st(fl2, t):
                inside_sorted = any(isinstance(sup, ast.Call) and isinstance(sup.func, ast.Name) and sup.func.id in ("sorted", "len", "sum", "min", "max", "any", "all", "set", "frozenset")
                                    and sup is not where and sup is not itx and any(x is where or x is itx for x in ast.walk(sup)) for sup in ast.walk(fi.node))
                if not inside_sorted:
                    obs.append(ob_fail(oid, fi, where, construct="iteration over %s" % show(t), instance="set-order:" + fi.qualname,
                                       reason="a set is iterated in an order-sensitive position: tables that feed the random draws depend on the interpreter's hash seed, "
                                              "so one sampler seed gives different molecules in different processes"))
    # the generator is made from the seed in __init__
    fi = m.function("MoleculeSampler.__init__")
    fl, cfg = fi.flow, fi.cfg
    makes = []
    for n in cfg.nodes:
        if n.kind == "stmt" and isinstance(n.ast, ast.Assign) and len(n.ast.targets) == 1 and ast.unparse(n.ast.targets[0]) == "self.random":
            makes.append(n)
    if not makes:
        obs.append(ob_fail(oid, fi, construct="self.random = random.Random(seed)", instance="seed", reason="the sampler has no generator of its own made from the seed parameter"))
        return obs
    snodes = {n.id for n in makes}
    ok_path = on_every_path(fi, snodes)
    (obs.append(ob_ok(oid, fi, makes[0].ast, construct="self.random = random.Random(seed) on every path through __init__", instance="seed:every-path",
                      reason="constructing a sampler always gives it a freshly seeded generator")) if ok_path else
     obs.append(ob_fail(oid, fi, makes[0].ast, construct="generator not created on every path", instance="seed:every-path",
                        reason="a path through __init__ leaves the sampler without a seeded generator (for example seed=0 treated as false)")))
    for n in makes:
        ct = fl.canon(n.ast.value, n.id)
        nid, call = n.id, n.ast.value
        is_gen = ct[0] == "call" and ct[2] == ("ext", "random.Random")
        a = (ct[3][0] if ct[3] else dict(ct[4]).get("x")) if is_gen else None
        ok = False
        why = "the generator is %s" % show(ct)[:80] if not is_gen else "the seed value is %s" % (show(a) if a else "<none>")
        if a == ("param", "seed"):
            ok = True
        elif a and a[0] == "var" and a[1] == "seed":
            ds = fl.reaching("seed", nid)
            ok = True
            for d in ds:
                if d.kind == "param":
                    continue
                if d.kind == "assign":
                    gs = guards_of(fi, d.node)
                    if any(pol and fl.canon(test, gid) == ("cmp", ("is",), (("param", "seed"), ("const", None))) for test, pol, gid in gs):
                        continue
                    ok = False
                    why = "the seed parameter is overwritten when it is not None (line %d)" % cfg.nodes[d.node].lineno
                else:
                    ok = False
        (obs.append(ob_ok(oid, fi, call, construct="random.Random(seed)", instance="seed:value",
                          reason="the generator is seeded with the seed parameter; a time-derived value only under `seed is None`")) if ok else
         obs.append(ob_fail(oid, fi, call, construct="self.random = %s" % show(ct)[:80], instance="seed:value", reason=why)))
    return obs


def _set_typed(t):
    if not isinstance(t, tuple):
        return False
    if t[0] == "set":
        return True
    if t[0] == "comp" and t[1] == "set":
        return True
    if t[0] == "call" and t[2] in (("builtin", "set"), ("builtin", "frozenset")):
        return True
    if t[0] == "binop" and t[1] in ("&", "|", "-", "^"):
        return _set_typed(t[2]) or _set_typed(t[3])
    return False


def prov_sampler_setup(repo, tier="quick"):
    """C16/C17: what the growth loop starts from.  (a) the molecule starts as a copy of the start fragment (the named one when
    a name is given, a random one otherwise), merged exactly once before the loop; (b) element-derived masses are stored for
    every fragment under its own name whenever no mass table was given; (c) the three reactivity / terminal tables pass
    through the order-suffix defaulting before they are stored."""
    from .common import call_arg, guards_of as _guards
    obs = []
    oid = "PROV.sampler-setup"
    fi = repo.function("sample:MoleculeSampler.sample")
    fl, cfg = fi.flow, fi.cfg
    grows = fl.calls_to("sample:MoleculeSampler.add_fragment")
    need(len(grows) == 1, "expected exactly one add_fragment call in sample()", fi)
    gcall, gnode, _ = grows[0]
    loops = enclosing_loops(fi, gnode)
    need(loops, "add_fragment is not inside a loop", fi, gcall)
    lp = loops[0]
    merges = [(c, n) for c, n, _ in fl.calls_to("graph_utils:merge_graphs", "merge_graphs") if not enclosing_loops(fi, n)]
    if len(merges) != 1:
        obs.append(ob_fail(oid, fi, construct="%d merge_graphs calls before the growth loop" % len(merges), instance="start:merge",
                           reason="the molecule does not start as exactly one copy of the start fragment"))
    else:
        mc, mn = merges[0]
        a0, a1 = call_arg(mc, 0, "source_graph"), call_arg(mc, 1, "target_graph")
        t0 = fl.canon(a0, mn) if a0 is not None else None
        grown = call_arg(gcall, 0, "molecule")
        # same variable as the one handed to add_fragment, fresh empty graph at the merge
        same = isinstance(a0, ast.Name) and isinstance(grown, ast.Name) and a0.id == grown.id
        if not same and isinstance(grown, ast.Name) and t0 is not None:
            # ... or a plain copy of that name
            same = any(d.kind == "assign" and not d.path and d.value is not None and fl.canon(d.value, d.node) == t0
                       for d in fl.reaching(grown.id, gnode))
        fresh = t0 is not None and is_call(t0, "networkx.Graph") is not None and not is_call(t0, "networkx.Graph")[0]
        dom = cfg.dominates(mn, lp.id)
        ok = same and fresh and dom
        (obs.append(ob_ok(oid, fi, mc, construct="merge_graphs(<empty graph>, fragment) once, before the loop, into the graph that is grown", instance="start:merge",
                          reason="the molecule starts as a copy of one fragment")) if ok else
         obs.append(ob_fail(oid, fi, mc, construct=ast.unparse(mc), instance="start:merge",
                            reason="the start fragment is not merged into the (empty) molecule that the loop grows, on every path before the loop")))
        # which fragment
        fd = ("attr", SELF, "fragment_dict")
        sf = ("param", "start_fragment") if "start_fragment" in fi.params else None
        t1 = fl.canon(a1, mn) if a1 is not None else None
        cands = []
        if t1 is not None and t1[0] == "var":
            for i in t1[2]:
                d = fl.defs[i]
                if d.kind == "assign" and d.value is not None and not d.path:
                    cands.append((fl.canon(d.value, d.node), d.node))
        elif t1 is not None:
            cands.append((t1, mn))
        named_ok = random_ok = False
        other = []
        # `if not start_fragment: start_fragment = random.choice(...)` in front of one look-up: the parameter when it is
        # given, the drawn name otherwise
        def _as_param(term):
            """a local that only holds a copy of the parameter (`name = start_fragment`) reads as the parameter"""
            if term is not None and term[0] == "var" and len(term) == 3 and len(term[2]) == 1:
                d0 = fl.defs[term[2][0]]
                if d0.kind == "assign" and d0.value is not None and not d0.path and fl.canon(d0.value, d0.node) == sf:
                    return sf
            return term
        for t, nid in list(cands):
            k = t[2] if t[0] == "sub" and t[1] == fd else None
            if not (k and k[0] == "var" and len(k) == 3 and len(k[2]) == 2 and sf is not None):
                continue
            ds = [fl.defs[i] for i in k[2]]
            # the parameter itself, or a local initialised with it
            pd = [d for d in ds if d.kind == "param" and d.var == "start_fragment"] + \
                 [d for d in ds if d.kind == "assign" and d.value is not None and not d.path and fl.canon(d.value, d.node) == sf]
            ad = [d for d in ds if d.kind == "assign" and d.value is not None and not d.path and d not in pd]
            arm = fl._if_arm_of(ad[0]) if len(pd) == 1 and len(ad) == 1 else None
            if not arm or not fi.cfg.dominates(arm[0].id, nid):
                continue
            tt = fl.canon(arm[0].ast.test, arm[0].id)
            if tt[0] == "unop" and tt[1] == "not":
                tt = ("unop", "not", _as_param(tt[2]))
            elif tt[0] == "cmp" and len(tt[2]) == 2:
                tt = ("cmp", tt[1], (_as_param(tt[2][0]), tt[2][1]))
            else:
                tt = _as_param(tt)
            absent = (tt == ("unop", "not", sf) or (tt[0] == "cmp" and tt[1] == ("is",) and tt[2][0] == sf and tt[2][1] == const(None)))
            present = tt == sf or (tt[0] == "cmp" and tt[1] == ("is not",) and tt[2][0] == sf and tt[2][1] == const(None))
            if (absent and arm[1] == "T") or (present and arm[1] == "F"):
                cands.remove((t, nid))
                named_ok = True
                cands.append((("sub", fd, fl.canon(ad[0].value, ad[0].node)), ad[0].node))
        for t, nid in cands:
            if t[0] == "sub" and t[1] == fd and sf is not None and t[2] == sf:
                pols = [pol for test, pol, gid in _guards(fi, nid) if fl.canon(test, gid) == sf or
                        (fl.canon(test, gid)[0] == "cmp" and fl.canon(test, gid)[1] == ("is not",) and fl.canon(test, gid)[2][0] == sf)]
                named_ok = bool(pols) and all(pols)
            elif t[0] == "sub" and t[1] == fd:
                k = t[2]
                c = is_call(k, "random.choice", "choice")
                inner = strip_wrappers(c[0][0]) if c and c[0] else None
                mk = method_call(inner, "keys") if inner else None
                random_ok = bool(inner == fd or (mk and mk[0] == fd))
            else:
                other.append(t)
        good = named_ok and random_ok and not other
        (obs.append(ob_ok(oid, fi, mc, construct="fragment = fragment_dict[start_fragment] if given else fragment_dict[random.choice(names)]", instance="start:fragment",
                          reason="the start fragment is the requested one, or a uniformly drawn one of the given fragments")) if good else
         obs.append(ob_fail(oid, fi, mc, construct="start fragment: %s" % ", ".join(show(t)[:70] for t, _ in cands), instance="start:fragment",
                            reason="the start fragment is not `fragment_dict[start_fragment]` when a name is given and a random member of fragment_dict otherwise")))
    # (b) mass table
    ini = repo.function("sample:MoleculeSampler.__init__")
    il, icfg = ini.flow, ini.cfg
    fdp = ("param", "fragment_dict")
    store = None
    for n in icfg.nodes:
        if n.kind == "stmt" and isinstance(n.ast, ast.Assign) and isinstance(n.ast.targets[0], ast.Subscript):
            tt = il.canon(n.ast.targets[0], n.id)
            if tt[0] == "sub" and ast.unparse(n.ast.targets[0].value) == "self.fragment_masses":
                store = (n, tt, il.canon(n.ast.value, n.id))
    if store is None:
        obs.append(ob_fail(oid, ini, construct="no self.fragment_masses[name] = ... in __init__", instance="masses:store",
                           reason="element-derived masses are never stored: sampling without a mass table fails at the first growth step"))
    else:
        n, tt, v = store
        key = tt[2]
        ek = elem_of(key)
        c = is_call(v, "compute_mass")
        ev = elem_of(c[0][0]) if c and c[0] else None
        src_ok = bool(ek and ev and ek[0] == "key" and ev[0] == "value" and ek[1] == ev[1])
        coll = strip_wrappers(ek[1]) if ek else None
        over_all = coll in (("attr", SELF, "fragment_dict"), fdp) or (coll is not None and coll[0] == "entryattr")
        (obs.append(ob_ok(oid, ini, n.ast, construct="self.fragment_masses[name] = compute_mass(graph) for name, graph in fragment_dict.items()", instance="masses:store",
                          reason="every fragment's mass is derived from its own graph and filed under its own name")) if src_ok and over_all else
         obs.append(ob_fail(oid, ini, n.ast, construct="self.fragment_masses[%s] = %s" % (show(key)[:50], show(v)[:70]), instance="masses:store",
                            reason="the mass stored under a fragment's name is not compute_mass of that fragment's graph, for every fragment of fragment_dict")))
        # guard: positive on a flag that is True exactly where the table starts empty
        gs = _guards(ini, n.id)
        flag_ok = None
        for test, pol, gid in gs:
            if isinstance(test, ast.Name):
                ds = [d for d in il.defs if d.var == test.id and d.kind == "assign" and isinstance(d.value, ast.Constant)]
                if not ds:
                    continue
                flag_ok = pol
                for d in ds:
                    arm_sets = [x for x in icfg.nodes if x.kind == "stmt" and isinstance(x.ast, ast.Assign) and ast.unparse(x.ast.targets[0]) == "self.fragment_masses"
                                and {(ast.unparse(t_), p_) for t_, p_, _ in _guards(ini, x.id)} == {(ast.unparse(t_), p_) for t_, p_, _ in _guards(ini, d.node)}]
                    if not arm_sets:
                        flag_ok = False
                        continue
                    val = il.canon(arm_sets[0].ast.value, arm_sets[0].id)
                    empty = val == ("dict", ()) or (is_call(val, "dict") is not None and not is_call(val, "dict")[0])
                    if bool(d.value.value) != empty:
                        flag_ok = False
        if flag_ok is None:
            # the table is chosen by the same condition that guards the computation:  masses = {} if C else given;  if C: masses[name] = ...
            tbl = tt[1]
            def _empty(x):
                return x == ("dict", ()) or (is_call(x, "dict") is not None and not is_call(x, "dict")[0])
            for test, pol, gid in gs:
                ct_ = il.canon(test, gid)
                if tbl[0] == "ifexp" and tbl[1] == ct_:
                    flag_ok = (_empty(tbl[2]) and pol and tbl[3] == ("param", "fragment_masses")) or (_empty(tbl[3]) and not pol and tbl[2] == ("param", "fragment_masses"))
        if flag_ok is None:
            obs.append(ob_undecided(oid, ini, n.ast, construct="condition of the mass computation", instance="masses:when",
                                    reason="cannot identify the flag that says whether masses are derived from the elements"))
        else:
            (obs.append(ob_ok(oid, ini, n.ast, construct="masses are computed exactly when the table starts empty", instance="masses:when",
                              reason="a given mass table is used as is; without one every fragment gets an element-derived mass")) if flag_ok else
             obs.append(ob_fail(oid, ini, n.ast, construct="flag guarding the mass computation", instance="masses:when",
                                reason="the element-derived masses are not computed on the path where the mass table starts empty (or are computed over a given table)")))
    # (c) defaults
    dflt = "sample:_set_bond_order_defaults"
    repo.function(dflt)
    for attr, param in (("polymer_reactivities", "polymer_reactivities"), ("terminal_bonds", "terminal_bonds")):
        okd = False
        where = None
        for n in icfg.nodes:
            if n.kind == "stmt" and isinstance(n.ast, ast.Assign) and ast.unparse(n.ast.targets[0]) == "self." + attr:
                where = n
                v = il.canon(n.ast.value, n.id)
                okd = v[0] == "call" and v[2] == ("fn", dflt) and v[3] and v[3][0] == ("param", param)
        (obs.append(ob_ok(oid, ini, where.ast, construct="self.%s = _set_bond_order_defaults(%s)" % (attr, param), instance="defaults:" + attr,
                          reason="descriptors written without an order get the order 1 suffix the molecule's descriptors carry")) if okd else
         obs.append(ob_fail(oid, ini, where.ast if where else None, construct="self.%s is not _set_bond_order_defaults(%s)" % (attr, param), instance="defaults:" + attr,
                            reason="a table keyed by descriptors without order suffix never matches the molecule's descriptors: its reactivities are silently ignored")))
    okf = False
    wheref = None
    for n in icfg.nodes:
        if n.kind == "stmt" and isinstance(n.ast, ast.Assign) and isinstance(n.ast.targets[0], ast.Subscript) and ast.unparse(n.ast.targets[0].value) == "self.fragment_reactivities":
            wheref = n
            v = il.canon(n.ast.value, n.id)
            c = v[0] == "call" and v[2] == ("fn", dflt) and v[3]
            evv = elem_of(v[3][0]) if c else None
            okf = bool(c and evv and evv[0] == "value" and strip_wrappers(evv[1]) == ("param", "fragment_reactivities"))
    # ... or in one expression:  self.fragment_reactivities = {<key>: _set_bond_order_defaults(probs) for key, probs in fragment_reactivities.items()}
    for n in icfg.nodes:
        if n.kind == "stmt" and isinstance(n.ast, ast.Assign) and ast.unparse(n.ast.targets[0]) == "self.fragment_reactivities" and isinstance(n.ast.value, ast.DictComp):
            v = il.canon(n.ast.value, n.id)
            if v[0] == "comp" and v[1] == "dict" and len(v[4]) == 1 and not v[4][0][2]:
                val = v[3][1][1]
                c = val[0] == "call" and val[2] == ("fn", dflt) and val[3]
                evv = elem_of(val[3][0]) if c else None
                if c and evv and evv[0] == "value" and strip_wrappers(evv[1]) == ("param", "fragment_reactivities"):
                    okf, wheref = True, n
    (obs.append(ob_ok(oid, ini, wheref.ast, construct="self.fragment_reactivities[key] = _set_bond_order_defaults(probs)", instance="defaults:fragment_reactivities",
                      reason="conditional reactivities are keyed with order suffixes")) if okf else
     obs.append(ob_fail(oid, ini, wheref.ast if wheref else None, construct="fragment_reactivities stored without order-suffix defaulting", instance="defaults:fragment_reactivities",
                        reason="conditional reactivities written without order suffix are silently ignored")))
    return obs


def tt_order_defaults(repo, tier="quick"):
    """C17 (order-suffix defaults on all tables): `_set_bond_order_defaults` and the key patching of the conditional table,
    executed in the abstract evaluator on representative descriptors: a descriptor written without order digit gets the
    suffix 1, one written with a digit is left alone, values are kept, for dict and list input."""
    from ..absint import Raised
    from .truth import helper_inliner
    obs = []
    oid = "TT.order-defaults"
    fi = repo.function("sample:_set_bond_order_defaults")
    p0 = fi.positional_params[0]
    bare = ["$", "$A", ">b", "<", "!x"]
    done = ["$2", "$A2", ">b3", "<1", "!x1"]
    cases = [("dict", {k: i + 0.5 for i, k in enumerate(bare + done)}, {**{k + "1": i + 0.5 for i, k in enumerate(bare)}, **{k: len(bare) + i + 0.5 for i, k in enumerate(done)}}),
             ("list", list(bare + done), [k + "1" for k in bare] + done),
             ("empty dict", {}, {}), ("empty list", [], [])]
    bad = []
    for label, arg, want in cases:
        ev = Evaluator(call_hook=helper_inliner(fi))
        try:
            res = ev.run_function(fi.node, {p0: (dict(arg) if isinstance(arg, dict) else list(arg))})
        except Unsupported as err:
            raise AnalysisError("_set_bond_order_defaults outside the evaluator's language: %s" % err, fi.where())
        got = res[1] if res[0] == "return" else "raises " + str(res[1])
        if isinstance(got, dict):
            got = {(k.concrete() if isinstance(k, AStr) else k): v for k, v in got.items()}
        if isinstance(got, list):
            got = [(k.concrete() if isinstance(k, AStr) else k) for k in got]
        if got != want:
            bad.append((label, got, want))
    if bad:
        for label, got, want in bad[:3]:
            obs.append(ob_fail(oid, fi, construct="%s input -> %s" % (label, str(got)[:100]), instance="defaults:" + label.split()[0],
                               reason="expected %s: a table keyed by descriptors with the wrong suffix never matches the descriptors of the molecule" % str(want)[:120]))
    else:
        obs.append(ob_ok(oid, fi, construct="_set_bond_order_defaults on %d representative descriptors, dict and list" % len(bare + done), instance="defaults",
                         reason="descriptors without an order digit get the suffix 1, the others are unchanged, values and order are kept"))
    # the conditional table: keys patched the same way, values through the function above
    ini = repo.function("sample:MoleculeSampler.__init__")
    loop = None
    for n in ini.cfg.nodes:
        if n.kind == "for":
            it = strip_wrappers(ini.flow.canon(n.ast.iter, n.id))
            m = method_call(it, "items")
            if m and m[0] == ("param", "fragment_reactivities"):
                loop = n
    comp_assign = None
    if loop is None:
        for n in ini.cfg.nodes:
            if n.kind == "stmt" and isinstance(n.ast, ast.Assign) and ast.unparse(n.ast.targets[0]) == "self.fragment_reactivities" and isinstance(n.ast.value, ast.DictComp):
                comp_assign = n
    if loop is None and comp_assign is None:
        obs.append(ob_undecided(oid, ini, construct="loop over fragment_reactivities.items()", instance="conditional-keys", reason="loop not found"))
        return obs
    table = {}

    def store(ev, target, value, env):
        if isinstance(target, ast.Subscript) and ast.unparse(target.value) == "self.fragment_reactivities":
            k = ev.eval(target.slice, env)
            table[k.concrete() if isinstance(k, AStr) else k] = value
            return True
        return False
    ev = Evaluator(call_hook=helper_inliner(ini), store_hook=store)
    arg = {"$A": {"$B": 1.0}, ">x2": {"<x2": 0.5, "<y": 0.5}, "<": {}}
    want = {"$A1": {"$B1": 1.0}, ">x2": {"<x2": 0.5, "<y1": 0.5}, "<1": {}}
    where_ast = loop.ast if loop is not None else comp_assign.ast
    try:
        if loop is not None:
            ev.block([loop.ast], {"fragment_reactivities": arg})
        else:
            table = ev.eval(comp_assign.ast.value, {"fragment_reactivities": arg})
        got = {k: ({(kk.concrete() if isinstance(kk, AStr) else kk): vv for kk, vv in v.items()} if isinstance(v, dict) else v) for k, v in table.items()}
    except Raised as r:
        got = "raises " + r.exc_name
    except Unsupported as err:
        raise AnalysisError("conditional reactivity loop outside the evaluator's language: %s" % err, ini.where(where_ast))
    (obs.append(ob_ok(oid, ini, where_ast, construct="fragment_reactivities: outer and inner keys get the suffix", instance="conditional-keys",
                      reason="conditional reactivities are looked up under descriptors with order digits")) if got == want else
     obs.append(ob_fail(oid, ini, where_ast, construct="conditional table becomes %s" % str(got)[:120], instance="conditional-keys",
                        reason="expected %s" % str(want)[:140])))
    return obs
