"""EMIT - emission model for the writers (write_graph, format_bonding): words over token classes
per path through a loop body, under consistent truth assignments to the guard atoms."""
import ast
import itertools
import re

from .. import AnalysisError
from ..absint import Evaluator, Unsupported
from ..flow import show, walk_term
from ..model import fold_const
from ..report import ob_ok, ob_fail, ob_undecided
from .common import is_call, method_call, edge_attr, need, strip_wrappers, strip_not, if_arms, aug_like, call_arg, enclosing_loops, resolve_ast
from . import tables

MAX_PATHS = 20000


class PathLimit(AnalysisError):
    pass


import operator as _op
_CMP = {ast.Lt: _op.lt, ast.LtE: _op.le, ast.Gt: _op.gt, ast.GtE: _op.ge, ast.Eq: _op.eq, ast.NotEq: _op.ne}


def _flatten_marks(word):
    """all marker tokens of a word, deferred ones included (a DEFER token is followed by its tokens)"""
    return [t for t in word if t[0] == "MARK"]


class Walker:
    """Enumerates paths through a statement list.  Tracks: truth of guard atoms (by normalised
    source text), symbolic values of string / bool locals assigned inside the unit, and the word
    emitted to the accumulator."""

    def __init__(self, fi, acc, classify, pre=None, nested_loop_token=None, extra_accs=()):
        self.fi = fi
        self.acc = acc
        self.extra_accs = set(extra_accs)
        self.classify = classify
        self.pre = pre or {}
        self.paths = []
        self.nested_loop_token = nested_loop_token

    def run(self, stmts):
        self._block(list(stmts), dict(self.pre), {}, [], [])
        return self.paths

    def _atom_value(self, test, atoms, env):
        """Evaluate boolean test under atoms/env; returns list of (value, atoms') alternatives."""
        if isinstance(test, ast.BoolOp):
            alts = [(None, atoms)]
            is_and = isinstance(test.op, ast.And)
            results = []
            # left-to-right with short circuit
            def rec(i, at):
                if i == len(test.values):
                    results.append((is_and, at))
                    return
                for v, at2 in self._atom_value(test.values[i], at, env):
                    if v is (not is_and):
                        results.append((not is_and, at2))
                    else:
                        rec(i + 1, at2)
            rec(0, atoms)
            return results
        if isinstance(test, ast.UnaryOp) and isinstance(test.op, ast.Not):
            return [((not v), at) for v, at in self._atom_value(test.operand, atoms, env)]
        if isinstance(test, ast.Constant):
            return [(bool(test.value), atoms)]
        if isinstance(test, ast.Name) and test.id in env and isinstance(env[test.id], bool):
            return [(env[test.id], atoms)]
        if isinstance(test, ast.Name) and test.id in env and isinstance(env[test.id], list):
            return [(bool(env[test.id]), atoms)]
        key = ast.unparse(test)
        if key in atoms:
            return [(atoms[key], atoms)]
        out = []
        for v in (True, False):
            a2 = dict(atoms)
            a2[key] = v
            out.append((v, a2))
        return out

    def _block(self, stmts, atoms, env, word, cont):
        """cont: stack of remaining statement lists to continue with after this block."""
        if len(self.paths) > MAX_PATHS:
            raise PathLimit("more than %d paths" % MAX_PATHS, self.fi.where())
        if not stmts:
            if cont:
                self._block(cont[0], atoms, env, word, cont[1:])
            else:
                self.paths.append((atoms, word, env))
            return
        st, rest = stmts[0], stmts[1:]
        # `x op= (a if c else b)` / `x = (a if c else b)` is the if statement with one assignment per arm
        if isinstance(st, (ast.AugAssign, ast.Assign)) and isinstance(st.value, ast.IfExp) and (isinstance(st, ast.AugAssign) or len(st.targets) == 1):
            def arm(v, st=st):
                new = ast.AugAssign(target=st.target, op=st.op, value=v) if isinstance(st, ast.AugAssign) else ast.Assign(targets=st.targets, value=v)
                return ast.copy_location(new, st)
            st = ast.copy_location(ast.If(test=st.value.test, body=[arm(st.value.body)], orelse=[arm(st.value.orelse)]), st)
        if isinstance(st, ast.If):
            for v, at in self._atom_value(st.test, atoms, env):
                self._block(list(st.body if v else st.orelse), at, dict(env), list(word), [rest] + cont)
            return
        if isinstance(st, (ast.For, ast.While)):
            tok = self.nested_loop_token(st) if self.nested_loop_token else None
            w2 = list(word)
            if tok:
                w2.append(tok)
            self._block(rest, atoms, env, w2, cont)
            return
        if isinstance(st, (ast.Continue, ast.Break, ast.Return, ast.Raise)):
            self.paths.append((atoms, word, env))
            return
        al = aug_like(st) if isinstance(st, (ast.AugAssign, ast.Assign)) else None
        if al and al[0] in self.extra_accs and al[1] is ast.Add:
            toks = self.classify(al[2], env)
            word = word + [("DEFER", al[0], len(toks))] + toks
            self._block(rest, atoms, env, word, cont)
            return
        if isinstance(st, ast.Assign) and len(st.targets) == 1 and isinstance(st.targets[0], ast.Name) and st.targets[0].id in self.extra_accs:
            self._block(rest, atoms, env, word, cont)
            return
        if isinstance(st, ast.AugAssign) and isinstance(st.target, ast.Name) and st.target.id == self.acc:
            if not isinstance(st.op, ast.Add):
                word = word + [("BAD", "accumulator %s=" % type(st.op).__name__)]
            else:
                word = word + self.classify(st.value, env)
            self._block(rest, atoms, env, word, cont)
            return
        if isinstance(st, ast.Assign) and len(st.targets) == 1 and isinstance(st.targets[0], ast.Name):
            name = st.targets[0].id
            if name == self.acc:
                v = st.value
                parts = []
                cur = v
                while isinstance(cur, ast.BinOp) and isinstance(cur.op, ast.Add):
                    parts.insert(0, cur.right)
                    cur = cur.left
                if isinstance(cur, ast.Name) and cur.id == self.acc:
                    for p in parts:
                        word = word + self.classify(p, env)
                else:
                    word = word + [("RESET", ast.unparse(v))]
                    word = word + self.classify(v, env)
                self._block(rest, atoms, env, word, cont)
                return
            env = dict(env)
            if isinstance(st.value, ast.Constant) and isinstance(st.value.value, bool):
                env[name] = st.value.value
            elif isinstance(st.value, ast.Constant) and isinstance(st.value.value, str):
                env[name] = self.classify(st.value, env)
            else:
                cl = self.classify(st.value, env, strict=False)
                if cl is not None and any(t[0] in ("SYM", "OPEN", "CLOSE", "NODE", "DESC", "MARK", "LBR", "RBR", "LABEL") for t in cl):
                    env[name] = cl
                else:
                    env.pop(name, None)
            self._block(rest, atoms, env, word, cont)
            return
        self._block(rest, atoms, env, word, cont)


def _letters(word, table):
    return "".join(table.get(t[0] if t[0] != "SYM" else "SYM" + t[1], "?") for t in word if t[0] != "DEFER")


# ---------------------------------------------------------------------------
# format_bonding
# ---------------------------------------------------------------------------

def emit_format_bonding(repo, tier="quick"):
    fi = repo.function("write_cgsmiles:format_bonding")
    fl, cfg = fi.flow, fi.cfg
    obs = []
    oid = "EMIT.format_bonding"
    m, (tname, wtable, _) = tables.writer_symbol_table(repo)
    rets = [n for n in cfg.nodes if n.kind == "stmt" and isinstance(n.ast, ast.Return)]
    need(len(rets) == 1 and isinstance(rets[0].ast.value, ast.Name), "format_bonding no longer returns a single accumulator name", fi)
    acc = rets[0].ast.value.id
    loops = [st for st in fi.node.body if isinstance(st, ast.For)]
    need(len(loops) == 1, "format_bonding no longer has one loop over the descriptors", fi)
    lp = loops[0]
    it = strip_wrappers(fl.canon(lp.iter, cfg.node_of_stmt[id(lp)]))
    (obs.append(ob_ok(oid, fi, lp, construct="for d in bonding", instance="range", reason="every descriptor of the list is visited, in order")) if it == ("param", fi.positional_params[0]) else
     obs.append(ob_fail(oid, fi, lp, construct="for d in %s" % show(it), instance="range", reason="not every descriptor of the list is visited in order")))
    need(isinstance(lp.target, ast.Name), "loop target is not a name", fi, lp)
    d = lp.target.id
    tname_in_body = tname
    # initial value of the accumulator
    inits = [x for x in fl.reaching(acc, cfg.node_of_stmt[id(lp)]) if x.kind == "assign" and not any(x.node in cfg.loops.get(l, ()) for l in cfg.loops)]
    ok_init = len(inits) == 1 and isinstance(inits[0].value, ast.Constant) and inits[0].value.value == ""
    (obs.append(ob_ok(oid, fi, inits[0].ast if inits else None, construct="accumulator starts empty", instance="init", reason="nothing but descriptors is written")) if ok_init else
     obs.append(ob_fail(oid, fi, inits[0].ast if inits else None, construct="accumulator initial value", instance="init", reason="the descriptor string does not start empty")))

    def classify(e, env, strict=True):
        if isinstance(e, ast.Constant) and isinstance(e.value, str):
            out = []
            for ch in e.value:
                out.append(("LBR",) if ch == "[" else ("RBR",) if ch == "]" else ("CONST", ch))
            return out
        if isinstance(e, ast.Name) and e.id in env and isinstance(env[e.id], list):
            return list(env[e.id])
        if isinstance(e, ast.BinOp) and isinstance(e.op, ast.Add):
            a, b = classify(e.left, env, strict), classify(e.right, env, strict)
            if a is None or b is None:
                return None
            return a + b
        if isinstance(e, ast.Call) and isinstance(e.func, ast.Name) and e.func.id == "str" and len(e.args) == 1:
            return classify(e.args[0], env, strict)
        if isinstance(e, ast.Call) and isinstance(e.func, ast.Name) and e.func.id == "int" and len(e.args) == 1 and \
                classify(e.args[0], env, False) == [("ORDERCHAR",)]:
            return [("ORDERINT",)]
        if isinstance(e, ast.Subscript) and isinstance(e.value, ast.Name) and e.value.id == d and isinstance(e.slice, ast.Slice):
            sl = e.slice
            if sl.lower is None and sl.step is None and isinstance(sl.upper, ast.UnaryOp) and isinstance(sl.upper.op, ast.USub) and \
                    isinstance(sl.upper.operand, ast.Constant) and sl.upper.operand.value == 1:
                return [("LABEL",)]
            return [("BAD", "slice %s of the descriptor" % ast.unparse(e.slice))]
        if isinstance(e, ast.Subscript) and isinstance(e.value, ast.Name) and e.value.id == tname:
            # order_to_symbol[int(d[-1])]
            key = ast.unparse(e.slice).replace(" ", "")
            inner = e.slice
            src = None
            if isinstance(inner, ast.Call) and isinstance(inner.func, ast.Name) and inner.func.id == "int" and len(inner.args) == 1:
                src = inner.args[0]
            if isinstance(inner, ast.Name) and inner.id in env and env[inner.id] == [("ORDERINT",)]:
                return [("SYM", "own")]
            if src is not None:
                if isinstance(src, ast.Name) and src.id in env and env[src.id] == [("ORDERCHAR",)]:
                    return [("SYM", "own")]
                if isinstance(src, ast.Subscript) and isinstance(src.value, ast.Name) and src.value.id == d and ast.unparse(src.slice) == "-1":
                    return [("SYM", "own")]
            return [("SYM", "foreign")]
        if isinstance(e, ast.Subscript) and isinstance(e.value, ast.Name) and e.value.id == d and ast.unparse(e.slice) == "-1":
            return [("ORDERCHAR",)]
        if isinstance(e, ast.JoinedStr):
            out = []
            for v in e.values:
                part = classify(v.value if isinstance(v, ast.FormattedValue) else v, env, strict)
                if part is None:
                    return None
                out += part
            return out
        if strict:
            return [("BAD", ast.unparse(e))]
        return None

    class W(Walker):
        def _block(self, stmts, atoms, env, word, cont):
            # remember plain assignments `x = d[-1]` / `x = table[int(..)]` symbolically
            return super()._block(stmts, atoms, env, word, cont)
    w = Walker(fi, acc, classify)
    # allow tracking of order char / symbol locals
    orig_block = w._block

    def tracking_block(stmts, atoms, env, word, cont):
        if stmts and isinstance(stmts[0], ast.Assign) and len(stmts[0].targets) == 1 and isinstance(stmts[0].targets[0], ast.Name) and \
                stmts[0].targets[0].id != acc:
            cl = classify(stmts[0].value, env, strict=False)
            if cl in ([("ORDERCHAR",)], [("ORDERINT",)], [("LABEL",)], [("SYM", "own")], [("SYM", "foreign")]):
                env = dict(env)
                env[stmts[0].targets[0].id] = cl
                return orig_block(stmts[1:], atoms, env, word, cont)
        # a, b = (x, y): component-wise
        if stmts and isinstance(stmts[0], ast.Assign) and len(stmts[0].targets) == 1 and isinstance(stmts[0].targets[0], ast.Tuple) and \
                isinstance(stmts[0].value, ast.Tuple) and len(stmts[0].targets[0].elts) == len(stmts[0].value.elts) and \
                all(isinstance(t, ast.Name) and t.id != acc for t in stmts[0].targets[0].elts):
            cls_ = [classify(v, env, strict=False) for v in stmts[0].value.elts]
            if all(c in ([("ORDERCHAR",)], [("ORDERINT",)], [("LABEL",)], [("SYM", "own")], [("SYM", "foreign")]) for c in cls_):
                env = dict(env)
                for t, c in zip(stmts[0].targets[0].elts, cls_):
                    env[t.id] = c
                return orig_block(stmts[1:], atoms, env, word, cont)
        return orig_block(stmts, atoms, env, word, cont)
    w._block = tracking_block
    paths = w.run(lp.body)
    need(paths, "no path through the descriptor loop body", fi, lp)
    letters = {"SYMown": "S", "SYMforeign": "X", "LBR": "[", "RBR": "]", "LABEL": "L", "CONST": "c", "RESET": "!", "BAD": "?", "ORDERCHAR": "o"}
    n_ok = 0
    seen_words = set()
    for atoms, word, env in paths:
        s = _letters(word, letters)
        seen_words.add(s)
        if "!" in s:
            bad = [t for t in word if t[0] == "RESET"][0]
            obs.append(ob_fail(oid, fi, lp, construct="accumulator reassigned: %s = %s" % (acc, bad[1]), instance="extend-only",
                               reason="the descriptors written before this one are dropped"))
        elif not re.fullmatch(r"S?\[L\]", s):
            obs.append(ob_fail(oid, fi, lp, construct="iteration writes %s" % " ".join(t[0] + (":" + t[1] if len(t) > 1 else "") for t in word), instance="word",
                               reason="one descriptor is not written as [symbol of its own order] '[' kind+label ']'"))
        else:
            n_ok += 1
    if n_ok == len(paths):
        obs.append(ob_ok(oid, fi, lp, construct="every iteration appends SYM? '[' descriptor[:-1] ']' (%d paths: %s)" % (len(paths), sorted(seen_words)), instance="word",
                         reason="each descriptor is written completely, with exactly its trailing order character removed, and nothing written before is lost"))
    # the symbol is present whenever the order is not 1
    guard_ok = True
    why = ""
    sym_paths = [(a, wd) for a, wd, _ in paths if any(t[0] == "SYM" for t in wd)]
    nosym_paths = [(a, wd) for a, wd, _ in paths if not any(t[0] == "SYM" for t in wd)]
    # evaluate the guard atoms with the symbol variable bound to each symbol of the table
    symvars = set()
    for st in ast.walk(lp):
        if isinstance(st, ast.Assign) and isinstance(st.targets[0], ast.Name) and isinstance(st.value, ast.Subscript) and \
                isinstance(st.value.value, ast.Name) and st.value.value.id == tname:
            symvars.add(st.targets[0].id)
    undecided = None
    for order in (0, 1, 2, 3, 4):
        sym = wtable.get(order)
        emitted = None
        for atoms, wd, penv in paths:
            consistent = True
            for text, val in atoms.items():
                ev = Evaluator()
                env = {v: sym for v in symvars}
                for nm_, cl_ in penv.items():
                    if cl_ == [("ORDERINT",)]:
                        env[nm_] = order
                    elif cl_ == [("ORDERCHAR",)]:
                        env[nm_] = str(order)
                    elif cl_ == [("SYM", "own")]:
                        env[nm_] = sym
                try:
                    r = ev.truth(ev.eval(ast.parse(text, mode="eval").body, env))
                except Unsupported as err:
                    undecided = "guard `%s` is outside the predicate language: %s" % (text, err)
                    consistent = False
                    break
                if r != val:
                    consistent = False
            if consistent:
                emitted = any(t[0] == "SYM" for t in wd)
        if undecided:
            break
        if emitted is None:
            guard_ok, why = False, "no consistent path for order %d" % order
        elif order != 1 and not emitted:
            guard_ok, why = False, "a descriptor of order %d is written without its symbol %r" % (order, sym)
    if undecided:
        obs.append(ob_undecided(oid, fi, lp, construct="guard of the order symbol", instance="symbol-guard", reason=undecided))
        return obs
    (obs.append(ob_ok(oid, fi, lp, construct="symbol written for orders 0, 2, 3, 4", instance="symbol-guard", reason="only the default order 1 is left implicit")) if guard_ok else
     obs.append(ob_fail(oid, fi, lp, construct="guard of the order symbol", instance="symbol-guard", reason=why)))
    return obs


# ---------------------------------------------------------------------------
# write_graph
# ---------------------------------------------------------------------------

def emit_write_graph(repo, tier="quick"):
    fi = repo.function("write_cgsmiles:write_graph")
    fl, cfg = fi.flow, fi.cfg
    obs = []
    m, (tname, wtable, _) = tables.writer_symbol_table(repo)
    rets = [n for n in cfg.nodes if n.kind == "stmt" and isinstance(n.ast, ast.Return)]
    need(len(rets) == 1 and isinstance(rets[0].ast.value, ast.Name), "write_graph no longer returns a single accumulator name", fi)
    acc = rets[0].ast.value.id
    loops = [st for st in fi.node.body if isinstance(st, ast.While)]
    need(len(loops) == 1, "write_graph no longer has one `while to_visit` traversal loop", fi)
    lp = loops[0]
    P = fi.positional_params
    need(len(P) >= 2, "write_graph no longer takes (molecule, smiles_format, ...)", fi)
    fmt = P[1]
    mol = ("param", P[0])
    # the node being written: first assignment in the loop body from to_visit.pop()
    cur = None
    cur_term = None
    for st in lp.body:
        if isinstance(st, ast.Assign) and isinstance(st.targets[0], ast.Name) and isinstance(st.value, ast.Call) and \
                isinstance(st.value.func, ast.Attribute) and st.value.func.attr == "pop":
            cur = st.targets[0].id
            cur_term = fl.canon(st.value, cfg.owner[id(st.value)])
            break
    need(cur is not None, "cannot identify the node being written (no `current = to_visit.pop()`)", fi, lp)
    ring_loops = [s for st in lp.body for s in ast.walk(st) if isinstance(s, ast.For)]
    need(len(ring_loops) == 1, "expected one inner loop over the ring indices of the current node, found %d" % len(ring_loops), fi, lp)
    rl = ring_loops[0]

    def edge_kind(order_expr):
        """'tree' if the order is read from the edge (predecessor, current), 'ring' if from the ring bond of this iteration"""
        if id(order_expr) not in cfg.owner:
            return "unknown"
        t = fl.canon(order_expr, cfg.owner[id(order_expr)])
        ea = None
        for x in walk_term(t):
            e = edge_attr(x) if isinstance(x, tuple) and x and x[0] in ("sub", "call") else None
            if e and e[0] == mol and e[2] == ("const", "order"):
                ea = e
        if ea is None:
            return "unknown"
        key = ea[1]
        s = show(key)
        cur_t = fl.canon(ast.Name(id=cur, ctx=ast.Load()), cfg.owner[id(order_expr)]) if False else None
        names = set()
        # provenance by the variables mentioned in the key expression at the source level
        return s

    def classify(e, env, strict=True):
        if isinstance(e, ast.Constant) and isinstance(e.value, str):
            out = []
            for ch in e.value:
                out.append(("OPEN",) if ch == "(" else ("CLOSE",) if ch == ")" else ("CONST", ch))
            return out
        if isinstance(e, ast.Name) and e.id in env and isinstance(env[e.id], list):
            return list(env[e.id])
        if isinstance(e, ast.BinOp) and isinstance(e.op, ast.Add):
            a, b = classify(e.left, env, strict), classify(e.right, env, strict)
            if a is None or b is None:
                return None
            return a + b
        if isinstance(e, ast.Subscript) and isinstance(e.value, ast.Name) and e.value.id == tname:
            # order_to_symbol[order]: which edge does the order belong to?
            kind = "unknown"
            if id(e) in cfg.owner:
                t = fl.canon(e.slice, cfg.owner[id(e)])
                kinds = set()
                if t[0] == "var":
                    defs = [fl.defs[i] for i in t[2]]
                    terms = [fl.canon(d.value, d.node) for d in defs if d.kind == "assign"]
                else:
                    terms = [t]
                for tt in terms:
                    ea = edge_attr(tt)
                    if ea and ea[0] == mol and ea[2] == ("const", "order"):
                        s = show(ea[1])
                        key_ = ea[1]
                        ring_site = (rl.lineno, rl.col_offset)
                        from_ring_loop = any(isinstance(x, tuple) and x and x[0] == "iter" and x[1] == ring_site for x in walk_term(key_))
                        tree_key = False
                        if key_[0] == "tuple" and len(key_[1]) == 2 and cur_term in key_[1]:
                            other = key_[1][0] if key_[1][1] == cur_term else key_[1][1]
                            if other[0] == "sub" and other[2] == ("const", 0):
                                other = other[1]
                            # the predecessor table looked up at the node being written
                            tree_key = other[0] == "sub" and other[2] == cur_term
                        if tree_key and not from_ring_loop:
                            kinds.add("tree")      # (predecessors[current][0], current) with current = to_visit.pop()
                        elif from_ring_loop:
                            kinds.add("ring")      # ring_idx_to_bond[each(...)]
                        elif "pop()" in s and "each(" not in s:
                            kinds.add("tree")
                        elif "each(" in s:
                            kinds.add("ring")
                        else:
                            kinds.add("unknown")
                    else:
                        kinds.add("unknown")
                if len(kinds) == 1:
                    kind = kinds.pop()
            return [("SYM", kind)]
        if isinstance(e, ast.Call) and isinstance(e.func, ast.Name):
            if e.func.id in ("format_atom", "format_node"):
                a1 = call_arg(e, 1, "current")
                ok = isinstance(a1, ast.Name) and (a1.id == cur or (id(a1) in cfg.owner and fl.canon(a1, cfg.owner[id(a1)]) == cur_term))
                return [("NODE", e.func.id)] if ok else [("BAD", "node text of %s" % (ast.unparse(a1) if a1 is not None else "?"))]
            if e.func.id == "format_bonding":
                return [("DESC",)]
            if e.func.id == "str" and len(e.args) == 1:
                return [("MARK", "digit")]
        if isinstance(e, ast.Call) and isinstance(e.func, ast.Attribute) and e.func.attr == "format" and isinstance(e.func.value, ast.Constant) and \
                isinstance(e.func.value.value, str) and e.func.value.value.startswith("%"):
            return [("MARK", "percent")]
        if isinstance(e, ast.IfExp):
            a, b = classify(e.body, env, strict), classify(e.orelse, env, strict)
            if a and b and len(a) == 1 and len(b) == 1 and a[0][0] == "MARK" and b[0][0] == "MARK":
                return [("MARK", "either" if a[0][1] != b[0][1] else a[0][1])]
            return [("BAD", ast.unparse(e))] if strict else None
        if isinstance(e, ast.JoinedStr):
            if any(isinstance(v, ast.FormattedValue) for v in e.values):
                # an f-string is the concatenation of its pieces when every piece can be classified (f'({edge_symbol}')
                pieces = []
                for v in e.values:
                    part = classify(v.value, env, False) if isinstance(v, ast.FormattedValue) and v.conversion in (-1, 115) and v.format_spec is None else \
                        (classify(v, env, False) if isinstance(v, ast.Constant) else None)
                    if part is None or any(t[0] == "BAD" for t in part):
                        pieces = None
                        break
                    pieces += part
                if pieces is not None and not any(t[0] == "MARK" for t in pieces) and not any(isinstance(v, ast.Constant) and "%" in str(v.value) for v in e.values):
                    return pieces
                lit = "".join(v.value for v in e.values if isinstance(v, ast.Constant) and isinstance(v.value, str))
                return [("MARK", "percent" if lit.startswith("%") else "digit")]
        if strict:
            return [("BAD", ast.unparse(e))]
        return None

    # semantic atoms
    # the predicate "this edge needs a symbol": the function called in the tests that guard a symbol-table lookup
    # (pysmiles' _write_edge_symbol, or whatever local function took its place)
    symfn = set()
    for sub in ast.walk(lp):
        if isinstance(sub, ast.If) and any(isinstance(x, ast.Subscript) and isinstance(x.value, ast.Name) and x.value.id == tname
                                           for st in sub.body for x in ast.walk(st)):
            for x in ast.walk(sub.test):
                if isinstance(x, ast.Call) and isinstance(x.func, ast.Name) and x.args and isinstance(x.args[0], ast.Name) and \
                        x.args[0].id == fi.positional_params[0]:
                    symfn.add(x.func.id)
    need(len(symfn) == 1, "cannot identify the edge-needs-symbol predicate in write_graph (candidates %s)" % sorted(symfn), fi, lp)
    SYMFN = symfn.pop()
    S_text = SR_text = None
    for sub in ast.walk(lp):
        if isinstance(sub, ast.Call) and isinstance(sub.func, ast.Name) and sub.func.id == SYMFN:
            in_ring = any(x is sub for x in ast.walk(rl))
            if in_ring:
                SR_text = ast.unparse(sub)
            else:
                S_text = ast.unparse(sub)
    need(S_text and SR_text, "cannot find the two `%s` tests (tree edge and ring edge) in write_graph" % SYMFN, fi, lp)
    # the guard that decides whether the node has a predecessor: the If enclosing the tree-edge test
    P_text = None
    B_text = None
    for sub in ast.walk(lp):
        if isinstance(sub, ast.If):
            if any(isinstance(x, ast.Call) and ast.unparse(x) == S_text for st in sub.body for x in ast.walk(st)) and \
                    not any(isinstance(x, ast.Call) and ast.unparse(x) == S_text for x in ast.walk(sub.test)):
                if P_text is None:
                    P_text = ast.unparse(sub.test)
            for arm, arm_pol in ((sub.body, True), (sub.orelse, False)):
                direct = [s2 for st in arm for s2 in ast.walk(st)]
                other = [s2 for st in (sub.orelse if arm_pol else sub.body) for s2 in ast.walk(st)]
                if any(isinstance(x, ast.Constant) and x.value == "(" for x in direct) and not any(x is rl for x in direct) and \
                        not any(isinstance(x, ast.Constant) and x.value == "(" for x in other) and \
                        not (isinstance(sub.test, ast.Name) and sub.test.id == fmt):
                    if B_text is None or len(ast.unparse(sub)) > len(B_text[1]):
                        B_text = (ast.unparse(sub.test), ast.unparse(sub), arm_pol)
    need(P_text and B_text, "cannot find the predecessor guard / the branch-opening guard in write_graph", fi, lp)
    B_pol = B_text[2]
    B_text = B_text[0]
    NEW_test = None
    for sub in ast.walk(rl):
        if isinstance(sub, ast.If):
            t0, _ = strip_not(sub.test, True)
            if isinstance(t0, ast.Compare) and isinstance(t0.ops[0], (ast.NotIn, ast.In)):
                NEW_test = sub
                break
    none_form = False
    none_src_is_pop = False
    if NEW_test is None:
        # marker = table.pop(idx, None) / table.get(idx);  if marker is None: <new> else: <closing>
        for sub in ast.walk(rl):
            if isinstance(sub, ast.If):
                t0, _ = strip_not(sub.test, True)
                if isinstance(t0, ast.Compare) and len(t0.ops) == 1 and isinstance(t0.ops[0], (ast.Is, ast.IsNot)) and isinstance(t0.left, ast.Name) and \
                        isinstance(t0.comparators[0], ast.Constant) and t0.comparators[0].value is None and id(t0.left) in cfg.owner:
                    src_ = resolve_ast(fl, t0.left, cfg.owner[id(t0.left)])[0]
                    if isinstance(src_, ast.Call) and isinstance(src_.func, ast.Attribute) and src_.func.attr in ("pop", "get") and \
                            (len(src_.args) == 1 or (len(src_.args) == 2 and isinstance(src_.args[1], ast.Constant) and src_.args[1].value is None)):
                        NEW_test = sub
                        none_form = True
                        none_src_is_pop = src_.func.attr == "pop"
                        break
    need(NEW_test is not None, "cannot find the new-marker / closing-marker split in the ring loop", fi, rl)
    NEW_inner, NEW_tarm, NEW_farm = if_arms(NEW_test)
    new_is_true_arm = isinstance(NEW_inner.ops[0], (ast.NotIn, ast.Is)) if none_form else isinstance(NEW_inner.ops[0], ast.NotIn)

    letters = {"SYMtree": "S", "SYMring": "Y", "SYMunknown": "U", "OPEN": "(", "CLOSE": ")", "NODE": "N", "DESC": "D", "MARK": "M", "RINGS": "R",
               "CONST": "c", "RESET": "!", "BAD": "?"}
    grammar = {False: r"S?\(?ND?R?\)?", True: r"\(?S?ND?R?\)?"}
    n_paths = 0
    fails = {}
    for F, B, (Pv, Sv) in itertools.product((False, True), (False, True), ((False, None), (True, False), (True, True))):
        pre = {fmt: F, B_text: (B if B_pol else not B), P_text: Pv}
        if Sv is not None:
            pre[S_text] = Sv
        w = Walker(fi, acc, classify, pre=pre, nested_loop_token=lambda st: ("RINGS",) if st is rl else None)
        paths = w.run(lp.body)
        for atoms, word, env in paths:
            n_paths += 1
            s = _letters(word, letters)
            mode = "smiles" if F else "cg"
            need_sym = bool(Pv and Sv)
            problem = None
            if "!" in s:
                problem = ("reset", "the string written so far is discarded")
            elif "?" in s or "U" in s:
                problem = ("unknown", "an emitted piece cannot be classified: %s" % [t for t in word if t[0] in ("BAD",) or (t[0] == "SYM" and t[1] == "unknown")])
            elif need_sym and "S" not in s:
                problem = ("tree-symbol-missing", "the edge to the node needs an order symbol but none is written (%s mode)" % mode)
            elif not need_sym and "S" in s:
                problem = ("tree-symbol-spurious", "an order symbol is written for an edge that needs none")
            elif not re.fullmatch(grammar[F], s):
                if "S" in s and "(" in s:
                    problem = ("tree-symbol-placement", "in %s mode the order symbol of a branch's first node must stand %s the branch brace; written: %s"
                               % (mode, "inside" if F else "before", " ".join(t[0] for t in word)))
                else:
                    problem = ("node-word", "the per-node output %s is not of the form %s" % (" ".join(t[0] for t in word), grammar[F]))
            if problem:
                fails.setdefault((problem[0], mode), (problem[1], s))
    need(n_paths >= 20, "emission model enumerated only %d paths through write_graph (floor 20)" % n_paths, fi, lp)
    if fails:
        for (kind, mode), (why, s) in sorted(fails.items()):
            obs.append(ob_fail("EMIT.write_graph", fi, lp, construct="per-node word '%s' (%s mode)" % (s, mode), instance=kind + ":" + mode, reason=why))
    else:
        obs.append(ob_ok("EMIT.write_graph", fi, lp, construct="per-node words over %d paths match SYM? '('? NODE DESC? RINGS ')'? (cg) / '('? SYM? NODE ... (smiles)" % n_paths,
                         instance="node-word", reason="tree-edge symbols are written exactly when needed and where the reader of that format looks for them",
                         detail={"paths": n_paths}))
    # deferred accumulators of the ring loop: `x = ''` before it, `x += ...` inside, `acc += x` after it
    deferred = set()
    parent_body = None
    for sub in ast.walk(lp):
        for field in ("body", "orelse"):
            b = getattr(sub, field, None)
            if isinstance(b, list) and any(x is rl for x in b):
                parent_body = b
    if parent_body is not None:
        idx = [i for i, x in enumerate(parent_body) if x is rl][0]
        inits = {st.targets[0].id for st in parent_body[:idx] if isinstance(st, ast.Assign) and isinstance(st.targets[0], ast.Name)
                 and isinstance(st.value, ast.Constant) and st.value.value == ""}
        def _sum_names(e):
            """names of a sum a + b + ... of plain names, in order (None if it is anything else)"""
            if isinstance(e, ast.Name):
                return [e.id]
            if isinstance(e, ast.BinOp) and isinstance(e.op, ast.Add):
                l, r = _sum_names(e.left), _sum_names(e.right)
                return None if l is None or r is None else l + r
            return None
        after_order = []
        for st in parent_body[idx + 1:]:
            al_ = aug_like(st) if isinstance(st, (ast.AugAssign, ast.Assign)) else None
            if al_ and al_[0] == acc and al_[1] is ast.Add and _sum_names(al_[2]):
                after_order += _sum_names(al_[2])
        after = set(after_order)
        deferred = inits & after
        deferred_order = [x for x in after_order if x in deferred]
    # ring unit
    rfails = {}
    rn = 0
    percent_inline = []
    deferred_kinds = {}
    for F, NEW, SR in itertools.product((False, True), (False, True), (False, True)):
        pre = {fmt: F, ast.unparse(NEW_inner): (NEW if new_is_true_arm else not NEW), SR_text: SR}
        w = Walker(fi, acc, classify, pre=pre, extra_accs=deferred)
        paths = w.run(rl.body)
        for atoms, word, env in paths:
            rn += 1
            # which MARK tokens go straight into the string, which are deferred to after the loop
            i = 0
            while i < len(word):
                t = word[i]
                if t[0] == "DEFER":
                    for t2 in word[i + 1:i + 1 + t[2]]:
                        if t2[0] == "MARK":
                            deferred_kinds.setdefault(t[1], set()).add(t2[1])
                    i += 1 + t[2]
                    continue
                if t[0] == "MARK" and t[1] in ("percent", "either"):
                    percent_inline.append((atoms, word))
                i += 1
            s = _letters(word, letters)
            mode = "smiles" if F else "cg"
            need_sym = NEW and SR
            problem = None
            # the symbol of a ring bond and its marker go into the same string: a marker that is deferred to after the loop with
            # its symbol written at once (or the other way round) separates the two by whatever is written in between
            in_defer = []
            j = 0
            while j < len(word):
                t_ = word[j]
                if t_[0] == "DEFER":
                    for t2_ in word[j + 1:j + 1 + t_[2]]:
                        in_defer.append((t2_, t_[1]))
                    j += 1 + t_[2]
                else:
                    in_defer.append((t_, None))
                    j += 1
            sym_acc = {a for t_, a in in_defer if t_[0] == "SYM"}
            mark_acc = {a for t_, a in in_defer if t_[0] == "MARK"}
            if sym_acc and mark_acc and sym_acc != mark_acc:
                problem = ("ring-symbol-split", "the order symbol of a ring bond and its marker are written to different strings (%s / %s): the symbol ends up in front "
                                                "of another marker of the node" % (sorted(str(a) for a in sym_acc), sorted(str(a) for a in mark_acc)))
            if problem:
                pass
            elif "?" in s or "U" in s or "!" in s:
                problem = ("unknown", "an emitted piece cannot be classified: %s" % " ".join(t[0] for t in word))
            elif need_sym and "Y" not in s:
                problem = ("ring-symbol-missing", "a new ring marker whose bond needs an order symbol is written without it (%s mode)" % mode)
            elif not need_sym and "Y" in s and not NEW:
                problem = ("ring-symbol-on-closing", "the order symbol is written at the closing marker")
            elif not need_sym and "Y" in s:
                problem = ("ring-symbol-spurious", "an order symbol is written for a ring bond that needs none")
            elif not re.fullmatch(r"Y?M", s):
                problem = ("ring-word", "one ring marker is written as %s instead of SYM? MARK" % " ".join(t[0] for t in word))
            if problem:
                rfails.setdefault((problem[0], mode), (problem[1], s))
    need(rn >= 8, "emission model enumerated only %d paths through the ring loop (floor 8)" % rn, fi, rl)
    if rfails:
        for (kind, mode), (why, s) in sorted(rfails.items()):
            obs.append(ob_fail("EMIT.write_graph", fi, rl, construct="per-ring word '%s' (%s mode)" % (s, mode), instance=kind + ":" + mode, reason=why))
    else:
        obs.append(ob_ok("EMIT.write_graph", fi, rl, construct="per-ring words over %d paths match SYMring? MARK, symbol iff new marker and needed" % rn, instance="ring-word",
                         reason="ring bond orders are written before the opening marker in both modes", detail={"paths": rn}))
    # marker form: the bare digit form is used exactly for markers 1..9, the %nn form from 10 on (a bare `10` is read as rings 1 and 0)
    mnames = set()
    for sub in ast.walk(rl):
        if isinstance(sub, ast.Call) and isinstance(sub.func, ast.Name) and sub.func.id == "str" and len(sub.args) == 1 and isinstance(sub.args[0], ast.Name):
            mnames.add(sub.args[0].id)
        if isinstance(sub, ast.Call) and isinstance(sub.func, ast.Attribute) and sub.func.attr == "format" and isinstance(sub.func.value, ast.Constant) and \
                isinstance(sub.func.value.value, str) and sub.func.value.value.startswith("%"):
            mnames |= {a.id for a in sub.args if isinstance(a, ast.Name)}
        if isinstance(sub, ast.FormattedValue) and isinstance(sub.value, ast.Name):
            mnames.add(sub.value.id)
    form_bad = []
    form_n = 0
    for F, NEW, SR in itertools.product((False, True), (False, True), (False, True)):
        pre = {fmt: F, ast.unparse(NEW_inner): (NEW if new_is_true_arm else not NEW), SR_text: SR}
        for atoms, word, env in Walker(fi, acc, classify, pre=pre, extra_accs=deferred).run(rl.body):
            kinds_ = {t[1] for t in _flatten_marks(word)}
            if not kinds_ or "either" in kinds_:
                continue
            allowed = set(range(1, 31))
            constrained = False
            for key, val in atoms.items():
                try:
                    tnode = ast.parse(key, mode="eval").body
                except SyntaxError:
                    continue
                if isinstance(tnode, ast.Compare) and len(tnode.ops) == 1:
                    l, r = tnode.left, tnode.comparators[0]
                    if isinstance(l, ast.Name) and l.id in mnames and isinstance(r, ast.Constant) and isinstance(r.value, int):
                        fn = _CMP.get(type(tnode.ops[0]))
                        if fn:
                            constrained = True
                            allowed = {m for m in allowed if fn(m, r.value) == val}
                    elif isinstance(r, ast.Name) and r.id in mnames and isinstance(l, ast.Constant) and isinstance(l.value, int):
                        fn = _CMP.get(type(tnode.ops[0]))
                        if fn:
                            constrained = True
                            allowed = {m for m in allowed if fn(l.value, m) == val}
            form_n += 1
            for k in kinds_:
                if k == "digit" and (not constrained or any(m >= 10 for m in allowed)):
                    form_bad.append("the bare digit form is written for markers %s" % ("of any size" if not constrained else sorted(m for m in allowed if m >= 10)[:3]))
                if k == "percent" and constrained and any(m <= 9 for m in allowed) and False:
                    pass
    if form_bad:
        obs.append(ob_fail("EMIT.marker-order", fi, rl, construct="; ".join(sorted(set(form_bad))[:2]), instance="digit-below-ten",
                           reason="a marker of two digits written without % is read back as two single-digit ring markers: the graph does not round-trip"))
    elif form_n:
        obs.append(ob_ok("EMIT.marker-order", fi, rl, construct="str(marker) only under marker < 10 (%d paths)" % form_n, instance="digit-below-ten",
                         reason="two-digit markers are never written in the bare digit form"))
    # several collected strings: the ones holding %nn markers are appended after the ones holding digit markers
    if parent_body is not None:
        seen_percent = False
        for name_ in deferred_order:
            kinds_ = deferred_kinds.get(name_, set())
            if seen_percent and "digit" in kinds_ | ({"digit"} if "either" in kinds_ else set()):
                percent_inline.append(("order", name_))
            if kinds_ & {"percent", "either"}:
                seen_percent = True
    # marker order: a %nn marker is never written where a single-digit marker of the same node can follow it
    (obs.append(ob_fail("EMIT.marker-order", fi, rl, construct="a two-digit marker (%nn) is appended inside the marker loop", instance="percent-last",
                        reason="the CGsmiles reader takes every digit after a % as part of that marker: `%10` directly followed by marker 3 is read as ring 103. "
                               "Two-digit markers have to be written after all single-digit markers of the node")) if percent_inline else
     obs.append(ob_ok("EMIT.marker-order", fi, rl, construct="two-digit markers are collected and written after the loop", instance="percent-last",
                      reason="no digit marker can follow a %nn marker of the same node")))
    # SIB S5: symbol emission independent of the node-format flag
    dep = [k for k in list(fails) + list(rfails) if k[0].endswith("missing") or k[0].endswith("spurious")]
    modes = {}
    for k in dep:
        modes.setdefault(k[0], set()).add(k[1])
    one_sided = {k: v for k, v in modes.items() if len(v) == 1}
    (obs.append(ob_fail("SIB.S5-format-flag", fi, lp, construct="symbol emission differs between modes: %s" % {k: sorted(v) for k, v in one_sided.items()}, instance="flag-independence",
                        reason="whether an order symbol is written depends on smiles_format; the flag selects node text, not edge text")) if one_sided else
     obs.append(ob_ok("SIB.S5-format-flag", fi, lp, construct="order symbols are written in both modes under the same conditions", instance="flag-independence",
                      reason="smiles_format only selects node text and symbol placement")))
    # ring markers: a new marker is chosen with knowledge of the markers currently in use
    marker_maps = set()
    for sub in ast.walk(rl):
        if isinstance(sub, ast.Assign) and isinstance(sub.targets[0], ast.Subscript) and isinstance(sub.targets[0].value, ast.Name):
            marker_maps.add(sub.targets[0].value.id)
    new_arm = NEW_tarm if new_is_true_arm else NEW_farm
    alloc = None
    for st in new_arm:
        if isinstance(st, ast.Assign) and isinstance(st.targets[0], ast.Name):
            alloc = st
            break
    if alloc is None or not marker_maps:
        obs.append(ob_undecided("PROV.ring-marker", fi, NEW_test, construct="allocation of a new ring marker", instance="allocation",
                                reason="cannot find `marker = ...` in the new-marker arm"))
    else:
        t = fl.canon(alloc.value, cfg.owner[id(alloc.value)])
        in_use = None
        for x in walk_term(t):
            mv = method_call(x, "values") if isinstance(x, tuple) and x and x[0] == "call" else None
            if mv is not None:
                in_use = x
        src = ast.unparse(alloc.value)
        uses_values = any((mm + ".values()") in src for mm in marker_maps)
        c = is_call(t, "_get_ring_marker")
        good = uses_values and (c is None or (c[0] and method_call(c[0][0], "values") is not None))
        if not good:
            # ... or a set kept next to the map: the marker is added where the map gets it and removed where the map loses it
            mname_ = alloc.targets[0].id
            used_ = {x.id for x in ast.walk(alloc.value) if isinstance(x, ast.Name)}
            other_arm = NEW_farm if new_is_true_arm else NEW_tarm
            for cand in sorted(used_):
                calls_on = [x for x in ast.walk(fi.node) if isinstance(x, ast.Call) and isinstance(x.func, ast.Attribute) and isinstance(x.func.value, ast.Name)
                            and x.func.value.id == cand]
                adds_ = [x for st in new_arm for x in ast.walk(st) if x in calls_on and x.func.attr == "add" and len(x.args) == 1 and
                         isinstance(x.args[0], ast.Name) and x.args[0].id == mname_]
                rems_ = [x for st in other_arm for x in ast.walk(st) if x in calls_on and x.func.attr in ("remove", "discard") and len(x.args) == 1]
                writes_ = [x for x in calls_on if x.func.attr in ("add", "remove", "discard", "clear", "update", "pop", "difference_update", "intersection_update")]
                inits_ = [d for d in fl.defs if d.var == cand and d.kind == "assign"]
                empty_init = len(inits_) == 1 and isinstance(inits_[0].value, ast.Call) and isinstance(inits_[0].value.func, ast.Name) and \
                    inits_[0].value.func.id == "set" and not inits_[0].value.args and not enclosing_loops(fi, inits_[0].node)
                if adds_ and rems_ and len(writes_) == len(adds_) + len(rems_) and empty_init:
                    good = True
        (obs.append(ob_ok("PROV.ring-marker", fi, alloc, construct="marker = f(markers in use = %s.values())" % sorted(marker_maps)[0], instance="allocation",
                          reason="a marker that is still open is never handed out again")) if good else
         obs.append(ob_fail("PROV.ring-marker", fi, alloc, construct="marker = %s" % src, instance="allocation",
                            reason="the new ring marker is not chosen against the set of markers currently in use (the values of the ring -> marker map): "
                                   "two rings open at the same time can get the same marker")))
        # closing frees the marker: pop / del of the ring's entry in the closing arm
        close_arm = NEW_farm if new_is_true_arm else NEW_tarm
        frees = any(isinstance(x, ast.Call) and isinstance(x.func, ast.Attribute) and x.func.attr == "pop" and isinstance(x.func.value, ast.Name)
                    and x.func.value.id in marker_maps for st in close_arm for x in ast.walk(st)) or \
            any(isinstance(x, ast.Delete) for st in close_arm for x in ast.walk(st)) or (none_form and none_src_is_pop)
        (obs.append(ob_ok("PROV.ring-marker", fi, NEW_test, construct="closing a ring removes its entry from the marker map", instance="release",
                          reason="markers are reused only after their ring was closed")) if frees else
         obs.append(ob_fail("PROV.ring-marker", fi, NEW_test, construct="closing arm keeps the marker entry", instance="release",
                            reason="a closed ring's marker is never released: the closing marker is not looked up / the ring opens again")))
    # every traversal helper starts from the node the serialisation starts from
    dfs_calls = []
    for call, nid in fl.calls():
        t = repo.resolve_call(fi, call)
        if t.kind == "ext" and t.name.startswith("networkx.") and t.name.split(".")[-1].startswith(("dfs_", "bfs_")):
            src = call_arg(call, 1, "source")
            dfs_calls.append((call, fl.canon(src, nid) if src is not None else None, t.name))
    if dfs_calls:
        roots = {r for _, r, _ in dfs_calls}
        stack0 = None
        for d in fl.defs:
            if d.kind == "assign" and isinstance(d.value, ast.List) and len(d.value.elts) == 1 and not enclosing_loops(fi, d.node):
                # the work list the main loop pops from
                if any(isinstance(x, ast.Call) and isinstance(x.func, ast.Attribute) and x.func.attr == "pop" and isinstance(x.func.value, ast.Name) and x.func.value.id == d.var
                       for x in ast.walk(fi.node)):
                    stack0 = fl.canon(d.value.elts[0], d.node)
        same = len(roots) == 1 and None not in roots and (stack0 is None or roots == {stack0})
        (obs.append(ob_ok("PROV.dfs-root", fi, dfs_calls[0][0], construct="%d traversal call(s), all from the start node" % len(dfs_calls), instance="root",
                          reason="successor lists, predecessors and the written order describe the same spanning tree")) if same else
         obs.append(ob_fail("PROV.dfs-root", fi, dfs_calls[-1][0], construct="traversals start from %s, the serialisation from %s" % (sorted(show(r) if r else "<networkx default: first node>" for r in roots), show(stack0) if stack0 else "?"),
                            instance="root", reason="tree edges, predecessors and ring bonds are taken from different spanning trees when the first inserted node is "
                                                    "not the start node: bond orders are read from the wrong edge")))
    # the test "does this edge need a symbol" - trusted when it is pysmiles' own, judged when re-implemented locally
    tgt = repo.resolve_name(fi.module, SYMFN)
    if tgt is not None and tgt.kind == "repo":
        obs += _tt_edge_symbol(repo, tgt.fi)
    elif tgt is not None and tgt.kind == "ext" and tgt.name.endswith("write_smiles._write_edge_symbol"):
        obs.append(ob_ok("TT.edge-symbol", fi, construct="%s is %s" % (SYMFN, tgt.name), instance="needs-symbol",
                         reason="the decision whether an edge needs a symbol is pysmiles' own"))
    else:
        obs.append(ob_undecided("TT.edge-symbol", fi, construct="edge-needs-symbol predicate %s" % SYMFN, instance="needs-symbol",
                                reason="neither pysmiles' _write_edge_symbol nor a function of this package"))
    return obs


def _tt_edge_symbol(repo, efi):
    """Truth table of a locally defined _write_edge_symbol(molecule, i, j): a symbol is needed unless
    (order 1 and not both atoms aromatic) or (order 1.5 and both atoms aromatic)."""
    from ..absint import Evaluator, Unsupported, MISSING
    P = efi.positional_params
    obs = []
    if len(P) != 3:
        return [ob_undecided("TT.edge-symbol", efi, construct="_write_edge_symbol signature", instance="needs-symbol", reason="unexpected signature")]
    diffs = []
    n = 0
    for order in (0, 1, 1.5, 2, 3, 4, MISSING):
        for ai in (True, False, MISSING):
            for aj in (True, False, MISSING):
                n += 1

                def hook(ev, call, env, order=order, ai=ai, aj=aj):
                    if isinstance(call.func, ast.Attribute) and call.func.attr == "get" and call.args:
                        key = ev.eval(call.args[0], env)
                        src = ast.unparse(call.func.value)
                        val = None
                        if key == "order":
                            val = order
                        elif key == "aromatic":
                            val = ai if P[1] in src and P[2] not in src else aj if P[2] in src and P[1] not in src else None
                            if val is None:
                                raise Unsupported("aromatic lookup on %s" % src)
                        else:
                            return False, None
                        if val is MISSING:
                            return True, (ev.eval(call.args[1], env) if len(call.args) > 1 else None)
                        return True, val
                    return False, None

                def load(ev, e, env, order=order):
                    if isinstance(e, ast.Subscript) and isinstance(e.slice, ast.Constant) and e.slice.value == "order":
                        if order is MISSING:
                            from ..absint import Raised
                            raise Raised("KeyError")
                        return True, order
                    if isinstance(e, ast.Name) and e.id in P:
                        return True, "<%s>" % e.id
                    if isinstance(e, ast.Name) and e.id not in env and e.id in efi.module.constants:
                        # a module-level table (order_to_symbol): its literal value
                        try:
                            return True, ast.literal_eval(efi.module.constants[e.id])
                        except (ValueError, TypeError, SyntaxError):
                            return False, None
                    return False, None
                ev = Evaluator(call_hook=hook, load_hook=load)
                try:
                    res = ev.run_function(efi.node, {})
                except Unsupported as err:
                    return [ob_undecided("TT.edge-symbol", efi, construct="local _write_edge_symbol", instance="needs-symbol",
                                         reason="outside the predicate language: %s" % err)]
                got = bool(res[1]) if res[0] == "return" else "raise"
                o = 1 if order is MISSING else order
                both = ai is True and aj is True
                want = not ((o == 1 and not both) or (o == 1.5 and both))
                if got != want:
                    diffs.append("order %s, aromatic (%s, %s): needs symbol %s, function says %s" % (order, ai, aj, want, got))
    if diffs:
        return [ob_fail("TT.edge-symbol", efi, construct=d, instance="needs-symbol",
                        reason="the local re-implementation of the edge-symbol test differs from the OpenSMILES rule "
                               "(a single bond between two aromatic atoms must be written, an aromatic bond between them must not)") for d in diffs[:4]]
    return [ob_ok("TT.edge-symbol", efi, construct="local _write_edge_symbol over %d states" % n, instance="needs-symbol",
                  reason="equals the OpenSMILES rule")]

