"""DA - definite assignment of locals and resolution of global names."""
import ast
import json
import os
import symtable

from .. import AnalysisError
from ..model import BUILTINS
from ..report import ob_ok, ob_fail, VERIF
from ..flow import show
from .common import is_call, strip_wrappers, guards_of

with open(os.path.join(VERIF, "spec", "infeasible.json")) as fh:
    INFEASIBLE = json.load(fh)


def _frozen(fi, name, nid=None):
    """A frozen infeasible-path exception applies when the read is controlled (true arm) by the
    guard recorded for it, matched on the canonical, rename-proof text of the test."""
    for e in INFEASIBLE["DA"]:
        if e["function"] != fi.fq or nid is None:
            continue
        for test, pol, gid in guards_of(fi, nid):
            if pol and e["guard_contains"] in show(fi.flow.canon(test, gid)):
                return e["reason"]
    return None


def _loop_ran_proof(fi, name, use_node, nid):
    """A read of loop target `name` after `for name.. in [enumerate(]P[S:][)]` is safe when it is
    controlled by the test `S < len(P)` (the slice is then non-empty, so the loop body ran and
    bound the target).  Returns a reason string or None."""
    fl = fi.flow
    ds = [d for d in fl.reaching(name, nid) if d.kind not in ("unbound", "del")]
    if not ds or any(d.kind != "for" for d in ds):
        return None
    loops = {d.node for d in ds}
    if len(loops) != 1:
        return None
    loop = fi.cfg.nodes[loops.pop()]
    it = fl.canon(loop.ast.iter, loop.id)
    it = strip_wrappers(it, slices=False)
    c = is_call(it, "enumerate")
    if c:
        it = strip_wrappers(c[0][0], slices=False)
    if not (it[0] == "sub" and it[2][0] == "slice" and it[2][2] is None and it[2][3] is None and it[2][1] is not None):
        return None
    P, S = it[1], it[2][1]
    want = ("cmp", ("<",), (S, ("call", None, ("builtin", "len"), (P,), ())))

    def matches(t):
        if t[0] == "cmp" and t[1] == ("<",) and t[2][0] == S:
            r = t[2][1]
            return r[0] == "call" and r[2] == ("builtin", "len") and r[3] == (P,)
        if t[0] == "cmp" and t[1] == (">",) and t[2][1] == S:
            r = t[2][0]
            return r[0] == "call" and r[2] == ("builtin", "len") and r[3] == (P,)
        return False
    # (a) the use sits in the right operand of `A and B` whose earlier operand is the bound test
    test_owner = fi.cfg.nodes[nid]
    if test_owner.kind in ("if", "while"):
        for sub in ast.walk(test_owner.ast.test):
            if isinstance(sub, ast.BoolOp) and isinstance(sub.op, ast.And):
                for i, v in enumerate(sub.values):
                    if any(x is use_node for x in ast.walk(v)):
                        for earlier in sub.values[:i]:
                            if matches(fl.canon(earlier, nid)):
                                return "guarded by `%s`, which implies the loop over the slice ran" % ast.unparse(earlier)
    # (b) the use is control dependent (true arm) on a test whose conjuncts include the bound test
    for test, pol, gid in guards_of(fi, nid):
        if not pol:
            continue
        conj = test.values if isinstance(test, ast.BoolOp) and isinstance(test.op, ast.And) else [test]
        for cj in conj:
            if matches(fl.canon(cj, gid)):
                # S and P must not be rebound between the guard and the use: canon at both points equal
                return "inside the true arm of `%s`, which implies the loop over the slice ran" % ast.unparse(cj)
    return None


def _loop_variable_proof(fi, name, nid):
    """The read sees the name unbound only on paths on which a `for` loop that binds it did not run once (the loop variable
    read behind its loop).  Whether the iterable can be empty is not decided here: this is the point at which the definite
    assignment rule stops, the read is recorded with that assumption."""
    fl, cfg = fi.flow, fi.cfg
    loops = [n for n in cfg.nodes if n.kind == "for" and any(d.var == name and d.kind == "for" for d in fl.gen[n.id])]
    if not loops:
        return None
    binders = {n.id for n in cfg.nodes if any(d.var == name and d.kind not in ("unbound", "del") for d in fl.gen[n.id])} - {l.id for l in loops}
    loop_ids = {l.id for l in loops}
    # search the states in which `name` is still unbound, not leaving a binding loop head by its exhausted edge
    seen, work = {cfg.entry}, [cfg.entry]
    while work:
        cur = work.pop()
        if cur == nid:
            return None
        if cur in binders and cur != cfg.entry:
            continue
        for dst, label in cfg.succ[cur]:
            if cur in loop_ids:
                continue        # 'iter' binds the name, the exhausted edge is the assumption
            if dst not in seen:
                seen.add(dst)
                work.append(dst)
    lp = loops[0]
    return "loop variable of `for %s in %s` read behind the loop; unbound only if the loop body never runs (assumed not to happen, not decided)" % (
        ast.unparse(lp.ast.target), ast.unparse(lp.ast.iter)[:60])


def da_locals(repo, functions, oid="DA.locals"):
    """No read of a possibly-unbound local on a feasible path in the listed functions."""
    obs = []
    for fq in functions:
        fi = repo.function(fq)
        seen = {}
        for name, node, nid in fi.flow.possibly_unbound():
            reason = _frozen(fi, name, nid) or _loop_ran_proof(fi, name, node, nid) or _loop_variable_proof(fi, name, nid)
            key = (name, reason is not None)
            if key in seen and reason is not None:
                continue
            seen[key] = True
            construct = "read of %s" % name
            if reason:
                obs.append(ob_ok(oid, fi, node, construct=construct, instance=name,
                                 reason="possibly unbound but infeasible: " + reason))
            else:
                defs = [d for d in fi.flow.reaching(name, nid) if d.kind not in ("unbound", "del")]
                obs.append(ob_fail(oid, fi, node, construct=construct, instance=name,
                                   reason="local '%s' can be read before assignment (%s)" % (
                                       name, "bound only on some paths: " + ", ".join("line %d" % fi.cfg.nodes[d.node].lineno for d in defs)
                                       if defs else "never bound before this read")))
        obs.append(ob_ok(oid, fi, construct="all local reads", instance="scan",
                         reason="%d local names, %d cfg nodes scanned" % (len(fi.flow.locals), len(fi.cfg.nodes))))
    return obs


def da_modules(repo, modules, oid="DA.locals", only=None):
    """da_locals over every function (methods and nested functions included) of the listed modules;
    `only` restricts a module to the named functions."""
    fqs = []
    for mname in modules:
        m = repo.module(mname)
        for fi in m.functions.values():
            if only and mname in only and fi.fq not in only[mname]:
                continue
            fqs.append(fi.fq)
        if only and mname in only:
            for fq in only[mname]:
                repo.function(fq)       # a vanished anchor is an analysis error
    # a local whose only binding disappears turns into a global reference: resolve those too
    return da_locals(repo, fqs, oid) + da_globals(repo, modules, oid)


def da_globals(repo, modules, oid="DA.globals"):
    """Every global name referenced in the listed modules resolves to a module-level binding,
    an import or a builtin (symtable scoping, so comprehension variables are handled exactly)."""
    obs = []
    for mname in modules:
        m = repo.module(mname)
        try:
            top = symtable.symtable(m.src, m.path, "exec")
        except SyntaxError as err:
            raise AnalysisError("symtable failed on %s: %s" % (m.relpath, err))
        module_names = set()
        for s in top.get_symbols():
            if s.is_assigned() or s.is_imported() or s.is_namespace():
                module_names.add(s.get_name())
        n_scopes = 0
        bad = []

        def walk(tab):
            nonlocal n_scopes
            for child in tab.get_children():
                n_scopes += 1
                if child.get_type() == "class":
                    walk(child)
                    continue
                for s in child.get_symbols():
                    if s.is_referenced() and s.is_global() and not s.is_assigned():
                        nm = s.get_name()
                        if nm not in module_names and nm not in BUILTINS:
                            bad.append((nm, child.get_name(), child.get_lineno()))
                walk(child)
        walk(top)
        where0 = "%s:1" % m.relpath
        for nm, scope, line in bad:
            # locate the first use for the report
            use_line = line
            for fi in m.functions.values():
                for sub in ast.walk(fi.node):
                    if isinstance(sub, ast.Name) and sub.id == nm and isinstance(sub.ctx, ast.Load) and fi.node.lineno <= sub.lineno:
                        if fi.name == scope or scope in ("listcomp", "genexpr", "lambda", "dictcomp", "setcomp"):
                            use_line = sub.lineno
                            break
            obs.append(ob_fail(oid, where="%s:%d" % (m.relpath, use_line), construct="global name %s" % nm,
                               instance=scope, reason="name '%s' used in %s() is not defined at module level, imported or builtin" % (nm, scope)))
            obs[-1].function = "%s:%s" % (mname, scope)
        obs.append(ob_ok(oid, where=where0, construct="all global references", instance=mname,
                         reason="%d scopes scanned, %d module-level names" % (n_scopes, len(module_names))))
        obs[-1].function = mname
    return obs


def bytecode_crosscheck(repo, functions):
    """Thorough tier: compare the possibly-unbound set with the CPython 3.12 compiler's own
    definite-assignment result (LOAD_FAST_CHECK).  Returns evidence dict; raises AnalysisError on
    a name the compiler flags that the CFG analysis missed."""
    import dis
    import sys
    out = {}
    if sys.version_info < (3, 12):
        return {"skipped": "needs CPython >= 3.12 for LOAD_FAST_CHECK"}
    for fq in functions:
        fi = repo.function(fq)
        code = compile(fi.module.src, fi.module.path, "exec", dont_inherit=True)

        def find(co):
            for c in co.co_consts:
                if hasattr(c, "co_code"):
                    if c.co_name == fi.name and c.co_firstlineno == fi.node.lineno:
                        return c
                    r = find(c)
                    if r is not None:
                        return r
            return None
        co = find(code)
        if co is None:
            raise AnalysisError("bytecode cross-check: code object of %s not found" % fq)
        flagged = sorted({i.argval for i in dis.get_instructions(co) if i.opname == "LOAD_FAST_CHECK"})
        mine = sorted({n for n, _, _ in fi.flow.possibly_unbound()})
        out[fq] = {"compiler_LOAD_FAST_CHECK": flagged, "cfg_possibly_unbound": mine}
        missing = set(flagged) - set(mine)
        if missing:
            raise AnalysisError("bytecode cross-check: compiler flags %s in %s as possibly unbound, the CFG analysis does not"
                                % (sorted(missing), fq))
    return out


def da_self_attrs(repo, classes, oid="DA.self-attrs"):
    """Class-level definite assignment: every instance attribute that a method reads is assigned on every path through
    __init__ that returns normally (directly or by a method __init__ calls).  A read of a never-assigned attribute is an
    AttributeError on the first use, e.g. in the public entry point that reads it."""
    obs = []
    for modname, cls in classes:
        m = repo.module(modname)
        methods = {fi.name: fi for fi in m.functions.values() if fi.cls == cls and fi.qualname == cls + "." + fi.name}
        init = methods.get("__init__")
        if init is None:
            raise AnalysisError("anchor vanished: %s.%s has no __init__" % (modname, cls))
        class_level = set(methods)
        for node in ast.walk(m.tree):
            if isinstance(node, ast.ClassDef) and node.name == cls:
                for st in node.body:
                    if isinstance(st, ast.Assign):
                        class_level |= {t.id for t in st.targets if isinstance(t, ast.Name)}
                    elif isinstance(st, ast.AnnAssign) and isinstance(st.target, ast.Name):
                        class_level.add(st.target.id)
        reads = {}
        for fi in methods.values():
            if not fi.positional_params:
                continue
            self_name = fi.positional_params[0]
            deco = [ast.unparse(d) for d in fi.node.decorator_list]
            if "classmethod" in deco or "staticmethod" in deco:
                continue
            for sub in ast.walk(fi.node):
                if isinstance(sub, ast.Attribute) and isinstance(sub.ctx, ast.Load) and isinstance(sub.value, ast.Name) and sub.value.id == self_name \
                        and sub.attr not in class_level and not sub.attr.startswith("__"):
                    reads.setdefault(sub.attr, (fi, sub))
        cfg, fl = init.cfg, init.flow
        exits = [p for p, lab in cfg.pred[cfg.exit] if lab != "exc" and not (cfg.nodes[p].kind == "stmt" and isinstance(cfg.nodes[p].ast, ast.Raise))]
        no_exc = lambda a, b, l: l != "exc"
        for attr in sorted(reads):
            fi, sub = reads[attr]
            var = "self." + attr
            assign_nodes = {d.node for d in fl.defs if d.var == var and d.kind in ("assign", "aug", "effect", "for", "with")}
            reach = {cfg.entry} | cfg.reachable_from(cfg.entry, avoid=assign_nodes, edge_filter=no_exc)
            leak = [p for p in exits if p in reach and p not in assign_nodes]
            if not assign_nodes:
                obs.append(ob_fail(oid, fi, sub, construct="self.%s read in %s, never assigned in __init__" % (attr, fi.name), instance=cls + "." + attr,
                                   reason="the attribute does not exist on a freshly constructed object: AttributeError at this read"))
            elif leak:
                obs.append(ob_fail(oid, init, cfg.nodes[leak[0]].ast if cfg.nodes[leak[0]].ast is not None else init.node,
                                   construct="a path through __init__ returns without assigning self.%s (read in %s)" % (attr, fi.name),
                                   instance=cls + "." + attr, reason="the attribute is missing on objects built along that path"))
            else:
                obs.append(ob_ok(oid, init, construct="self.%s assigned on every normal path of __init__" % attr, instance=cls + "." + attr,
                                 reason="read in %s" % fi.name))
    return obs


def loop_carried(fi, loop):
    """Names whose value can flow from one iteration of `loop` into a read in a later iteration: a definition inside the
    loop reaches the loop head, and the read is reachable from the head without passing a definition of that name."""
    from ..flow import iter_scope
    cfg, fl = fi.cfg, fi.flow
    body = cfg.loops.get(loop.id, set())
    out = set()
    no_exc = lambda a, b, l: l != "exc"
    cache = {}
    for n in cfg.nodes:
        if n.id not in body and n.id != loop.id:
            continue
        names = []
        for part in fl._read_parts(n):
            for sub in iter_scope(part):
                if isinstance(sub, ast.Name) and isinstance(sub.ctx, ast.Load) and sub.id in fl.locals:
                    names.append(sub.id)
        if n.kind == "stmt" and isinstance(n.ast, ast.AugAssign) and isinstance(n.ast.target, ast.Name) and n.ast.target.id in fl.locals:
            names.append(n.ast.target.id)      # x += e reads x
        for var in names:
            if True:
                if var in out:
                    continue
                back = [d for d in fl.reaching(var, loop.id) if d.node in body and d.kind != "for"]
                if not back:
                    continue
                if var not in cache:
                    defnodes = {d.node for d in fl.defs if d.var == var and d.kind not in ("unbound", "param", "entryattr")}
                    cache[var] = (defnodes, cfg.reachable_from(loop.id, avoid=defnodes - {loop.id}, edge_filter=no_exc))
                defnodes, reach = cache[var]
                if n.id in reach or n.id == loop.id:
                    out.add(var)
                elif n.id in defnodes:
                    # a statement that reads and rebinds the name (x = f(x), x += 1): reached from the head without an earlier rebinding?
                    if any((p_ in reach or p_ == loop.id) and lab != "exc" and p_ in body | {loop.id} for p_, lab in cfg.pred[n.id]):
                        out.add(var)
    return out


def det_loop_state(repo, functions, oid="DET.loop-state"):
    """The scanners are loops whose only memory between two iterations is a confirmed set of variables (spec/loop_state.json:
    per function, the number of (loop, variable) pairs that carry a value into a later iteration).  A new carried variable is
    state that survives from one token / node to the next; whether that is intended cannot be decided here, so it is
    reported as undecided with the variable named."""
    with open(os.path.join(VERIF, "spec", "loop_state.json")) as fh:
        table = json.load(fh)
    from ..report import ob_undecided
    obs = []
    for fq in functions:
        fi = repo.function(fq)
        want = table.get(fq)
        if want is None:
            raise AnalysisError("spec/loop_state.json has no entry for %s" % fq)
        pairs = []
        for n in fi.cfg.nodes:
            if n.kind in ("for", "while"):
                for v in sorted(loop_carried(fi, n)):
                    pairs.append((n.lineno, v))
        if len(pairs) > want["pairs"]:
            obs.append(ob_undecided(oid, fi, construct="%d loop-carried (loop, variable) pairs, %d confirmed: %s" % (len(pairs), want["pairs"], ", ".join("%s@%d" % (v, l) for l, v in pairs)),
                                    instance=fi.qualname, reason="a variable carries a value from one iteration into a later one that was not confirmed as scanner state "
                                    "(an earlier token / node / branch can influence a later one); review and update spec/loop_state.json"))
        else:
            obs.append(ob_ok(oid, fi, construct="%d loop-carried (loop, variable) pairs (confirmed: %d)" % (len(pairs), want["pairs"]), instance=fi.qualname,
                             reason="no state survives between iterations beyond the confirmed scanner variables"))
    return obs
