"""TT - truth tables of pure predicates, extracted by abstract evaluation."""
import ast
import itertools
import json
import os

from .. import AnalysisError
from ..absint import Evaluator, descriptor, Unsupported, AStr, ADict
from ..report import ob_ok, ob_fail, VERIF
from ..model import fold_const


def _module_env(fi):
    """module-level literal constants (dicts, strings, tuples) visible to the function"""
    env = {}
    for name, node in fi.module.constants.items():
        try:
            env[name] = fold_const(node, fi.module)
        except (ValueError, TypeError):
            continue
    return env

def helper_inliner(fi, depth=0):
    """call hook: a call of a plain function defined in the same module is evaluated by interpreting that function too
    (helpers extracted from a predicate stay inside the predicate language)"""
    def hook(ev, call, env):
        f = call.func
        if not isinstance(f, ast.Name) or f.id in env:
            return False, None
        callee = fi.module.functions.get(f.id)
        if callee is None or callee.cls or depth > 3:
            return False, None
        if any(isinstance(a, ast.Starred) for a in call.args) or any(k.arg is None for k in call.keywords):
            raise Unsupported("star arguments in a call of %s" % f.id)
        params = callee.positional_params
        bound = {}
        for i, a in enumerate(call.args):
            if i >= len(params):
                raise Unsupported("too many arguments for %s" % f.id)
            bound[params[i]] = ev.eval(a, env)
        for k in call.keywords:
            bound[k.arg] = ev.eval(k.value, env)
        for pname, dnode in callee.defaults().items():
            if pname not in bound and dnode is not None:
                bound[pname] = ev.eval(dnode, {})
        missing = [p_ for p_ in params if p_ not in bound]
        if missing:
            raise Unsupported("call of %s without %s" % (f.id, missing))
        sub = Evaluator(call_hook=helper_inliner(callee, depth + 1))
        sub.steps = ev.steps
        res = sub.run_function(callee.node, dict(_module_env(callee), **bound))
        ev.steps = sub.steps
        if res[0] == "raise":
            from ..absint import Raised
            raise Raised(res[1])
        return True, res[1]
    return hook


SPEC = json.load(open(os.path.join(VERIF, "spec", "descriptors.json")))
KINDS = SPEC["kinds"]
PAIRS = {tuple(p) for p in SPEC["compatible_kind_pairs"]}
LABEL_CLASSES = [(-1, -1), (-1, 1), (1, -1), (1, 1), (1, 2)]
ORDER_CLASSES = [(1, 1), (1, 2)]


def _state_name(kl, kr, lab, od, extra=""):
    ls = {(-1, -1): "labels both empty", (-1, 1): "left unlabelled", (1, -1): "right unlabelled",
          (1, 1): "labels equal", (1, 2): "labels differ"}[lab]
    os_ = "orders equal" if od[0] == od[1] else "orders differ"
    return "%s%s / %s / %s%s" % (kl, kr, ls, os_, extra)


def tt_compatible(repo):
    fi = repo.function("resolve:compatible")
    params = fi.positional_params
    if len(params) != 3:
        raise AnalysisError("compatible() no longer takes (left, right, legacy)", fi.where())
    diffs = []
    n = 0
    for kl, kr in itertools.product(KINDS, KINDS):
        for lab in LABEL_CLASSES:
            for od in ORDER_CLASSES:
                for legacy in (True, False):
                    n += 1
                    left = descriptor(kl, lab[0], od[0])
                    right = descriptor(kr, lab[1], od[1])
                    ev = Evaluator(call_hook=helper_inliner(fi))
                    try:
                        res = ev.run_function(fi.node, dict(_module_env(fi), **{params[0]: left, params[1]: right, params[2]: legacy}))
                    except Unsupported as err:
                        raise AnalysisError("compatible(): construct outside the predicate language: %s" % err, fi.where())
                    got = res[0] == "return" and bool(res[1]) if not isinstance(res[1], AStr) else True
                    if res[0] == "raise":
                        got = "raise " + res[1]
                    labels_equal = lab[0] == lab[1]
                    orders_equal = od[0] == od[1]
                    want = (kl, kr) in PAIRS and (not legacy or (labels_equal and orders_equal))
                    if got != want:
                        diffs.append((_state_name(kl, kr, lab, od, " / legacy=%s" % legacy), want, got))
    oid = "TT.compatible"
    detail = {"abstract_states": n, "differences": len(diffs)}
    if diffs:
        return [ob_fail(oid, fi, construct=d[0], instance="compatible",
                        reason="compatible() returns %s, the stated relation says %s" % (d[2], d[1]), detail=detail)
                for d in diffs[:8]]
    return [ob_ok(oid, fi, construct="compatible(left, right, legacy)", instance="compatible",
                  reason="truth table over %d abstract states equals the relation stated in C03" % n, detail=detail)]


def tt_complement(repo, two_element_lists=False):
    fi = repo.function("cgsmiles_utils:find_complementary_bonding_descriptor")
    params = fi.positional_params
    if len(params) != 2:
        raise AnalysisError("find_complementary_bonding_descriptor() no longer takes (descriptor, eligible)", fi.where())
    diffs = []
    n = 0
    for kd, ke in itertools.product(KINDS, KINDS):
        if kd == "!":
            continue
        for lab in LABEL_CLASSES:
            for od in ORDER_CLASSES:
                d = descriptor(kd, lab[0], od[0])
                e = descriptor(ke, lab[1], od[1])
                lists = [[e]]
                if two_element_lists:
                    # an unrelated second candidate before / after must not change whether e is offered
                    other = descriptor("!", 7, 7)
                    lists += [[other, e], [e, other]]
                for cand in lists:
                    n += 1
                    ev = Evaluator(call_hook=helper_inliner(fi))
                    try:
                        res = ev.run_function(fi.node, dict(_module_env(fi), **{params[0]: d, params[1]: list(cand)}))
                    except Unsupported as err:
                        raise AnalysisError("find_complementary_bonding_descriptor(): construct outside the "
                                            "predicate language: %s" % err, fi.where())
                    if res[0] == "raise":
                        got = False
                    else:
                        val = res[1]
                        if not isinstance(val, (list, tuple)):
                            raise AnalysisError("find_complementary_bonding_descriptor() does not return a list", fi.where())
                        got = any(ev.eq(x, e) for x in val)
                    labels_equal = lab[0] == lab[1]
                    orders_equal = od[0] == od[1]
                    if kd == "$":
                        want = ke == "$" and orders_equal
                    elif kd == "<":
                        want = ke == ">" and labels_equal and orders_equal
                    else:
                        want = ke == "<" and labels_equal and orders_equal
                    if got != want:
                        diffs.append((_state_name(kd, ke, lab, od, " / %d candidates" % len(cand)), want, got))
    oid = "TT.complement"
    detail = {"abstract_states": n, "differences": len(diffs)}
    if diffs:
        return [ob_fail(oid, fi, construct=d[0], instance="complement",
                        reason="candidate offered: %s, the stated relation says %s" % (d[2], d[1]), detail=detail)
                for d in diffs[:8]]
    return [ob_ok(oid, fi, construct="find_complementary_bonding_descriptor(d, [e])", instance="complement",
                  reason="relation 'e is offered as partner of d' over %d abstract states equals the one stated in C16" % n,
                  detail=detail)]


def eval_guard_over_kinds(test, name_to_side, fi):
    """Evaluate a boolean guard expression over descriptors (names in name_to_side map a
    local expression source text to 'L'/'R') for every kind pair; returns dict (kl, kr) -> bool."""
    out = {}
    for kl, kr in itertools.product(KINDS, KINDS):
        env = {}
        ev = Evaluator()
        L = descriptor(kl, 1, 1)
        R = descriptor(kr, 1, 1)
        for nm, side in name_to_side.items():
            env[nm] = {"L": L, "R": R, "PAIR": (L, R)}[side]
        try:
            out[(kl, kr)] = ev.truth(ev.eval(test, env))
        except Unsupported as err:
            raise AnalysisError("guard outside the predicate language: %s" % err, fi.where(test))
    return out


def eval_bool_guard_over_attr(test, subst, fi):
    """Evaluate `test` where the sub-expressions listed in subst (ast node id -> index) are
    attribute lookups with states True / False / missing.  Returns dict state tuple -> bool.
    subst: list of (ast Call node `X.get(key, default)`, index)."""
    from ..absint import MISSING
    states = [True, False, MISSING]
    out = {}
    calls = {id(c): i for c, i in subst}
    n = len(subst)
    for combo in itertools.product(states, repeat=n):
        def hook(ev, call, env):
            if id(call) in calls:
                v = combo[calls[id(call)]]
                if v is MISSING:
                    if len(call.args) == 2:
                        return True, ev.eval(call.args[1], env)
                    return True, None
                return True, v
            return False, None
        ev = Evaluator(call_hook=hook)
        try:
            out[combo] = ev.truth(ev.eval(test, {}))
        except Unsupported as err:
            raise AnalysisError("guard outside the predicate language: %s" % err, fi.where(test))
    return out
