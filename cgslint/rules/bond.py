"""PAIR / PROV / TRIP - bond formation protocols of the resolver and of the sampler,
the matcher's shape, the squash protocol."""
import ast

from .. import AnalysisError
from ..flow import show, walk_term
from ..report import ob_ok, ob_fail, ob_undecided
from .common import (reachable_none_aware, is_call, method_call, node_attr, edge_attr, elem_of, strip_wrappers, guards_of,
                     enclosing_loops, need, contains, strip_sites)
from . import truth

SELF = ("param", "self")


def _sub(t, *idx):
    for i in idx:
        t = ("sub", t, ("const", i))
    return t


def _fold_sub(fl, t, *idx):
    for i in idx:
        t = fl.subscript(t, ("const", i))
    return t


# ---------------------------------------------------------------------------
# match_bonding_descriptors
# ---------------------------------------------------------------------------

def prov_matcher_shape(repo, tier="quick"):
    fi = repo.function("resolve:match_bonding_descriptors")
    fl = fi.flow
    cfg = fi.cfg
    P = fi.positional_params
    need(len(P) >= 4, "match_bonding_descriptors no longer takes (source, target, bond_attribute, legacy)", fi)
    src, tgt, battr, legacy = [("param", p) for p in P[:4]]
    obs = []
    calls = fl.calls_to("resolve:compatible")
    need(len(calls) >= 1, "anchor vanished: match_bonding_descriptors no longer calls compatible()", fi)

    def descr_source(t, graph):
        """t must be an element of <attrs>[<n>] with n a key of <attrs> = nx.get_node_attributes(graph, bond_attribute);
        returns the node-key term or None"""
        e = elem_of(t)
        if not e or e[0] != "elem":
            return None
        coll = e[1]
        # value of items()
        ev = elem_of(coll)
        if ev and ev[0] == "value":
            attrs = strip_wrappers(ev[1])
            c = is_call(attrs, "get_node_attributes")
            if c and c[0][:2] == (graph, battr):
                return ("sub", ("iter", coll[1][1], coll[1][2]), ("const", 0)) if coll[0] == "sub" else None
        if coll[0] == "sub":
            attrs, key = coll[1], coll[2]
            c = is_call(attrs, "get_node_attributes")
            ek = elem_of(key)
            if c and c[0][:2] == (graph, battr) and ek and ek[0] in ("elem", "key") and strip_wrappers(ek[1]) == attrs:
                return key
            na = node_attr(coll)
            if na and na[0] == graph and na[2] == battr:
                ek = elem_of(na[1])
                if ek and strip_wrappers(ek[1]) in (("attr", graph, "nodes"), graph):
                    return na[1]
        return None

    good_calls = []
    for call, nid, _ in calls:
        t = fl.canon(call, nid)
        args, kw = t[3], dict(t[4])
        a = args[0] if len(args) > 0 else kw.get("left")
        b = args[1] if len(args) > 1 else kw.get("right")
        lg = args[2] if len(args) > 2 else kw.get("legacy")
        sn = descr_source(a, src) if a else None
        tn = descr_source(b, tgt) if b else None
        ok = sn is not None and tn is not None
        if ok:
            obs.append(ob_ok("PROV.matcher-shape", fi, call, construct="compatible(d_source, d_target, legacy)", instance="compatible:args",
                             reason="the pair tested is (a descriptor of a source node, a descriptor of a target node)"))
            good_calls.append((call, nid, a, b, sn, tn))
        else:
            obs.append(ob_fail("PROV.matcher-shape", fi, call, construct="compatible(%s, %s)" % (show(a), show(b)), instance="compatible:args",
                               reason="the descriptors tested do not range over source[bond_attribute] x target[bond_attribute] in this order"))
        if lg == legacy:
            obs.append(ob_ok("PROV.matcher-shape", fi, call, construct="compatible(..., legacy=legacy)", instance="compatible:legacy",
                             reason="the matching convention is forwarded"))
        else:
            obs.append(ob_fail("PROV.matcher-shape", fi, call, construct="compatible(..., legacy=%s)" % (show(lg) if lg else "<default>"),
                               instance="compatible:legacy", reason="the caller's matching convention is not forwarded to compatible()"))
    # every normal exit is a return of ((s, t), (a, b)) under compatible(...) true
    preds = cfg.pred[cfg.exit]
    for p, label in preds:
        n = cfg.nodes[p]
        if not (n.kind == "stmt" and isinstance(n.ast, ast.Return)):
            obs.append(ob_fail("PROV.matcher-shape", fi, n.ast, construct="fall-through exit", instance="exit",
                               reason="the function can end without a match and without raising LookupError"))
            continue
        rt = fl.canon(n.ast.value, p) if n.ast.value is not None else None
        matched = None
        lazy = None
        # next(<generator of ((s, t), (a, b)) ... if compatible(a, b)>, None): the first element of the filtered search
        nx_ = is_call(rt, "next") if rt is not None else None
        if nx_ and rt[2] == ("builtin", "next") and len(nx_[0]) == 2 and nx_[0][1] == ("const", None) and nx_[0][0][0] == "comp" and nx_[0][0][1] == "gen":
            lazy = nx_[0][0]
            rt = lazy[3]
        for call, nid, a, b, sn, tn in good_calls:
            want = ("tuple", (("tuple", (sn, tn)), ("tuple", (a, b))))
            if rt == want:
                matched = (call, nid)
        if matched is None:
            obs.append(ob_fail("PROV.matcher-shape", fi, n.ast, construct="return %s" % show(rt), instance="return:value",
                               reason="the result is not ((source node, target node), (source descriptor, target descriptor)) of the tested pair"))
            continue
        obs.append(ob_ok("PROV.matcher-shape", fi, n.ast, construct="return ((s, t), (d_s, d_t))", instance="return:value",
                         reason="nodes and descriptors returned are those of the tested pair"))
        gs = guards_of(fi, p)
        controlled = False
        if lazy is not None:
            # the filter of the generator is the guard; the `is None` test in front of the return excludes the exhausted search
            ct_ = fl.canon(matched[0], matched[1])
            conds_ = [c_ for g_ in lazy[4] for c_ in g_[2]]
            in_filter = any(strip_sites(c_) == strip_sites(ct_) for c_ in conds_)
            excluded = any((not pol_) and isinstance(t_, ast.Compare) and isinstance(t_.ops[0], ast.Is) and isinstance(t_.comparators[0], ast.Constant)
                           and t_.comparators[0].value is None for t_, pol_, _g in gs) or \
                any(pol_ and isinstance(t_, ast.Compare) and isinstance(t_.ops[0], ast.IsNot) and isinstance(t_.comparators[0], ast.Constant)
                    and t_.comparators[0].value is None for t_, pol_, _g in gs)
            controlled = in_filter and excluded
            gs = []
        for test, pol, gid in gs:
            if pol and any(sub is matched[0] for sub in ast.walk(test)):
                # the test must be true only if compatible() is true: test is the call itself or a conjunction containing it
                if test is matched[0] or (isinstance(test, ast.BoolOp) and isinstance(test.op, ast.And) and any(v is matched[0] for v in test.values)):
                    controlled = True
        (obs.append(ob_ok("PROV.matcher-shape", fi, n.ast, construct="if compatible(...): return", instance="return:guard",
                          reason="a pair is returned only when compatible() holds for it")) if controlled else
         obs.append(ob_fail("PROV.matcher-shape", fi, n.ast, construct="return outside `if compatible(...)`", instance="return:guard",
                            reason="a pair can be returned although compatible() did not hold for it")))
    raises = [n for n in cfg.nodes if n.kind == "stmt" and isinstance(n.ast, ast.Raise)]
    lookup = [n for n in raises if n.ast.exc is not None and "LookupError" in ast.unparse(n.ast.exc)]
    (obs.append(ob_ok("PROV.matcher-shape", fi, lookup[0].ast, construct="raise LookupError", instance="no-match",
                      reason="exhausting the search raises LookupError")) if lookup else
     obs.append(ob_fail("PROV.matcher-shape", fi, construct="raise LookupError", instance="no-match",
                        reason="no LookupError is raised when the search is exhausted")))
    return obs


# ---------------------------------------------------------------------------
# edges_from_bonding_descrpt
# ---------------------------------------------------------------------------

def _is_edges_of(t, G):
    """G.edges, G.edges() or G.edges(data=...): the edges of G, each once"""
    if t == ("attr", G, "edges"):
        return True
    m = method_call(t, "edges")
    return bool(m and m[0] == G and ((not m[2] and set(m[3]) <= {"data"}) or (len(m[2]) == 1 and m[2][0][0] == "const" and isinstance(m[2][0][1], bool) and not m[3])))


class BondSite:
    """Facts about the resolver's bond loop shared by several obligations."""

    def __init__(self, repo):
        self.repo = repo
        fi = self.fi = repo.function("resolve:MoleculeResolver.edges_from_bonding_descrpt")
        fl = self.fl = fi.flow
        ms = fl.calls_to("resolve:match_bonding_descriptors")
        need(len(ms) == 1, "expected exactly one call of match_bonding_descriptors in edges_from_bonding_descrpt, found %d" % len(ms), fi)
        self.mcall, self.mnode, _ = ms[0]
        self.M = fl.canon(self.mcall, self.mnode)
        args, kw = self.M[3], dict(self.M[4])
        self.G0 = args[0] if len(args) > 0 else kw.get("source")
        self.G1 = args[1] if len(args) > 1 else kw.get("target")
        self.legacy = kw.get("legacy", args[3] if len(args) > 3 else None)
        self.battr = kw.get("bond_attribute", args[2] if len(args) > 2 else ("const", "bonding"))
        self.N0 = _fold_sub(fl, self.M, 0, 0)
        self.N1 = _fold_sub(fl, self.M, 0, 1)
        self.D0 = _fold_sub(fl, self.M, 1, 0)
        self.D1 = _fold_sub(fl, self.M, 1, 1)
        self.molecule = ("attr", SELF, "molecule")
        self.meta = ("attr", SELF, "meta_graph")
        # add_edge on the fine graph
        self.adds = []
        for call, nid in fl.calls():
            t = fl.canon(call, nid)
            m = method_call(t)
            if m and m[1] in ("add_edge", "add_edges_from", "add_weighted_edges_from") and m[0] == self.molecule:
                self.adds.append((call, nid, t))

    def coarse_endpoints(self):
        """(U, V): coarse node terms whose per-node graphs are handed to the matcher"""
        out = []
        for g in (self.G0, self.G1):
            na = node_attr(g) if g else None
            if not na or na[0] != self.meta or na[2] != ("const", "graph"):
                return None
            out.append(na[1])
        return tuple(out)


def who_may_bond(repo, tier="quick"):
    """C03: the only place that adds an edge to the fine graph in resolve.py is the bond loop;
    other functions that receive the fine graph and add edges are merge_graphs (intra-fragment)
    and the hydrogen completion."""
    m = repo.module("resolve")
    obs = []
    sites = []
    for fi in m.functions.values():
        if not fi.cls:
            continue
        for call, nid in fi.flow.calls():
            if isinstance(call.func, ast.Attribute) and call.func.attr in ("add_edge", "add_edges_from", "add_weighted_edges_from", "add_path"):
                t = fi.flow.canon(call.func.value, nid)
                src = ast.unparse(call.func.value)
                if src == "self.molecule" or t == ("attr", SELF, "molecule") or \
                        (t[0] == "call" and fi.qualname.endswith(".resolve") is False and False):
                    sites.append((fi, call))
    n_ok = 0
    for fi, call in sites:
        if fi.qualname == "MoleculeResolver.edges_from_bonding_descrpt":
            n_ok += 1
        else:
            obs.append(ob_fail("OWN.sole-bond-site", fi, call, construct="self.molecule.%s(...)" % call.func.attr, instance=fi.qualname,
                               reason="an edge is added to the fine graph outside the descriptor-matching loop"))
    if n_ok == 1:
        fi, call = [s for s in sites if s[0].qualname == "MoleculeResolver.edges_from_bonding_descrpt"][0]
        obs.append(ob_ok("OWN.sole-bond-site", fi, call, construct="self.molecule.add_edge(...)", instance="bond-loop",
                         reason="exactly one edge-adding call on the fine graph, inside the bond loop"))
    elif n_ok == 0:
        raise AnalysisError("anchor vanished: no self.molecule.add_edge in edges_from_bonding_descrpt")
    else:
        fi = repo.function("resolve:MoleculeResolver.edges_from_bonding_descrpt")
        obs.append(ob_fail("OWN.sole-bond-site", fi, construct="%d edge-adding calls" % n_ok, instance="bond-loop",
                           reason="more than one edge-adding call on the fine graph in the bond loop: more than one bond per matched pair"))
    # functions that receive the fine graph
    allowed_adders = {"graph_utils:merge_graphs": "adds the fragment's internal edges only",
                      "pysmiles_utils:rebuild_h_atoms": "adds bonds to new hydrogen atoms only"}
    for fi in m.functions.values():
        if not fi.cls:
            continue
        for call, nid in fi.flow.calls():
            t = repo.resolve_call(fi, call)
            if t.kind != "repo" or t.fi.cls == fi.cls:
                continue
            passes = any(ast.unparse(a) == "self.molecule" for a in call.args) or any(ast.unparse(k.value) == "self.molecule" for k in call.keywords)
            if not passes:
                continue
            adds = _adds_edges(repo, t.fi, set())
            if adds and t.fi.fq not in allowed_adders:
                obs.append(ob_fail("OWN.sole-bond-site", fi, call, construct="%s(self.molecule)" % t.fi.name, instance="callee:" + t.fi.fq,
                                   reason="%s adds edges to the fine graph outside the descriptor protocol" % t.fi.name))
            else:
                obs.append(ob_ok("OWN.sole-bond-site", fi, call, construct="%s(self.molecule)" % t.fi.name, instance="callee:" + t.fi.fq,
                                 reason=allowed_adders.get(t.fi.fq, "does not add edges to its graph argument")))
    return obs


def _adds_edges(repo, fi, seen):
    if fi.fq in seen:
        return False
    seen.add(fi.fq)
    params = set(fi.params)
    for call, nid in fi.flow.calls():
        if isinstance(call.func, ast.Attribute) and call.func.attr in ("add_edge", "add_edges_from", "add_weighted_edges_from"):
            root = call.func.value
            if isinstance(root, ast.Name) and root.id in params:
                return True
        t = repo.resolve_call(fi, call)
        if t.kind == "repo" and any(isinstance(a, ast.Name) and a.id in params for a in call.args):
            if _adds_edges(repo, t.fi, seen):
                return True
    return False


def prov_matcher_args(repo, tier="quick"):
    """C03: the matcher receives the per-node graphs of the two ends of the base-graph edge being
    processed, and the resolver's matching convention."""
    # every call of the matcher in the bond step hands the resolver's own convention on; this is asked of each call before the
    # shared model of the bond site is built (which wants exactly one call): a second call with another convention - a retry with
    # the labels ignored, say - is a verdict, not a reason to give up
    fi0 = repo.function("resolve:MoleculeResolver.edges_from_bonding_descrpt")
    early = []
    for c0, n0, _t in fi0.flow.calls_to("resolve:match_bonding_descriptors"):
        M0 = fi0.flow.canon(c0, n0)
        kw0 = dict(M0[4])
        lg = kw0.get("legacy", M0[3][3] if len(M0[3]) > 3 else None)
        if lg is not None and lg != ("attr", SELF, "legacy"):
            early.append(ob_fail("PROV.legacy-forwarded", fi0, c0, construct="match_bonding_descriptors(..., legacy=%s)" % show(lg), instance="call",
                                 reason="the matcher is called with another matching convention than the one the resolver was built with: descriptors that are "
                                        "incompatible under that convention are bonded"))
    try:
        bs = BondSite(repo)
    except AnalysisError:
        if early:
            return early
        raise
    fi, fl = bs.fi, bs.fl
    obs = list(early)
    uv = bs.coarse_endpoints()
    ok = False
    why = "the graphs matched are not self.meta_graph.nodes[u]['graph'] / [v]['graph']"
    if uv:
        U, V = uv
        eu, ev = elem_of_edge(U), elem_of_edge(V)
        if eu and ev and eu[0] == ev[0] and {eu[1], ev[1]} == {0, 1} and _is_edges_of(strip_wrappers(eu[0]), bs.meta):
            ok = True
        else:
            why = "the two coarse nodes (%s, %s) are not the two ends of one element of self.meta_graph.edges" % (show(U), show(V))
    (obs.append(ob_ok("PROV.matcher-args", fi, bs.mcall, construct="match_bonding_descriptors(meta.nodes[u]['graph'], meta.nodes[v]['graph'])",
                      instance="graphs", reason="(u, v) is the base-graph edge the enclosing loop iterates")) if ok else
     obs.append(ob_fail("PROV.matcher-args", fi, bs.mcall, construct="match_bonding_descriptors(%s, %s)" % (show(bs.G0), show(bs.G1)),
                        instance="graphs", reason=why)))
    if bs.legacy == ("attr", SELF, "legacy"):
        obs.append(ob_ok("PROV.legacy-forwarded", fi, bs.mcall, construct="legacy=self.legacy", instance="call",
                         reason="the resolver's convention reaches the matcher"))
    else:
        obs.append(ob_fail("PROV.legacy-forwarded", fi, bs.mcall, construct="legacy=%s" % (show(bs.legacy) if bs.legacy else "<default>"),
                           instance="call", reason="the resolver's matching convention is not forwarded to the matcher"))
    # self.legacy is assigned from the constructor parameter only
    cls_init = repo.function("resolve:MoleculeResolver.__init__")
    stores = []
    for f2 in repo.module("resolve").functions.values():
        if f2.cls != "MoleculeResolver":
            continue
        for n in f2.cfg.nodes:
            if n.kind == "stmt" and isinstance(n.ast, (ast.Assign, ast.AugAssign, ast.AnnAssign)):
                tg = n.ast.targets if isinstance(n.ast, ast.Assign) else [n.ast.target]
                for tt in tg:
                    if isinstance(tt, ast.Attribute) and ast.unparse(tt) == "self.legacy":
                        stores.append((f2, n))
    good = len(stores) == 1 and stores[0][0] is cls_init and isinstance(stores[0][1].ast, ast.Assign) and \
        cls_init.flow.canon(stores[0][1].ast.value, stores[0][1].id) == ("param", "legacy")
    if good:
        obs.append(ob_ok("PROV.legacy-forwarded", cls_init, stores[0][1].ast, construct="self.legacy = legacy", instance="init",
                         reason="single store, from the constructor parameter"))
    else:
        f0 = stores[0][0] if stores else cls_init
        obs.append(ob_fail("PROV.legacy-forwarded", f0, stores[0][1].ast if stores else None,
                           construct="stores to self.legacy: %d" % len(stores), instance="init",
                           reason="self.legacy is not (only) the constructor's legacy parameter"))
    if bs.battr != ("const", "bonding"):
        obs.append(ob_fail("PROV.matcher-args", fi, bs.mcall, construct="bond_attribute=%s" % show(bs.battr), instance="attribute",
                           reason="descriptors are matched on another attribute than the one they are removed from"))
    return obs


def elem_of_edge(t):
    """t = each(<edges>)[i] -> (edges collection term, i)"""
    if t[0] == "sub" and t[2][0] == "const" and t[2][1] in (0, 1):
        e = elem_of(t[1])
        if e and e[0] == "elem":
            return (e[1], t[2][1], t[1])
    return None


def trip_bond_loop(repo, tier="quick"):
    """C03/C11: the loop enclosing the matcher call runs edge['order'] times starting at 0, for the
    edge whose ends are matched; matcher and add_edge execute at most once per iteration."""
    bs = BondSite(repo)
    fi, fl = bs.fi, bs.fl
    obs = []
    loops = enclosing_loops(fi, bs.mnode)
    uv = bs.coarse_endpoints()
    need(uv is not None, "cannot identify the coarse nodes handed to the matcher", fi, bs.mcall)
    U, V = uv
    eu = elem_of_edge(U)
    need(eu is not None, "coarse node handed to the matcher is not an end of an iterated edge", fi, bs.mcall)
    edge_elem = eu[2]
    order_loop = None
    for lp in loops:
        if lp.kind != "for":
            continue
        it = fl.canon(lp.ast.iter, lp.id)
        c = is_call(it, "range")
        if c and it[2] == ("builtin", "range"):
            order_loop = (lp, c[0])
            break
    if order_loop is None:
        obs.append(ob_fail("TRIP.bond-loop", fi, bs.mcall, construct="loops around the matcher: %s" % [ast.unparse(l.ast.iter) if l.kind == "for" else "while" for l in loops],
                           instance="bound", reason="the matcher call is not inside a `for _ in range(order)` loop: the number of bonds per base-graph edge is not bounded by its order"))
        return obs
    lp, rargs = order_loop
    if len(rargs) == 1:
        start, stop, step = ("const", 0), rargs[0], ("const", 1)
    elif len(rargs) == 2:
        start, stop, step = rargs[0], rargs[1], ("const", 1)
    else:
        start, stop, step = rargs
    ea = edge_attr(stop)
    ok = False
    why = ""
    if start != ("const", 0) or step != ("const", 1):
        why = "range starts at %s with step %s" % (show(start), show(step))
    elif not ea or ea[0] != bs.meta or ea[2] != ("const", "order") or ea[3] is not None:
        why = "range bound %s is not self.meta_graph.edges[(u, v)]['order']" % show(stop)
    else:
        e = ea[1]
        cands = [("tuple", (U, V)), ("tuple", (V, U)), edge_elem]
        if e in cands:
            ok = True
        else:
            why = "the order is read from edge %s, the matcher works on (%s, %s)" % (show(e), show(U), show(V))
    (obs.append(ob_ok("TRIP.bond-loop", fi, lp.ast, construct="for _ in range(0, meta.edges[(u, v)]['order'])", instance="bound",
                      reason="at most `order` matcher calls per base-graph edge, none for order 0")) if ok else
     obs.append(ob_fail("TRIP.bond-loop", fi, lp.ast, construct="for _ in %s" % show(fl.canon(lp.ast.iter, lp.id)), instance="bound", reason=why)))
    # loops: innermost enclosing loop of the matcher is the order loop; the next is the edge loop; nothing else
    inner_ok = loops and loops[0] is lp
    edge_loop = loops[1] if len(loops) > 1 else None
    shape_ok = inner_ok and edge_loop is not None and len(loops) == 2 and edge_loop.kind == "for"
    if shape_ok:
        it = strip_wrappers(fl.canon(edge_loop.ast.iter, edge_loop.id))
        shape_ok = _is_edges_of(it, bs.meta) and elem_of(edge_elem) and edge_elem[1] == (edge_loop.ast.lineno, edge_loop.ast.col_offset)
    (obs.append(ob_ok("TRIP.bond-loop", fi, lp.ast, construct="for edge in meta.edges: for _ in range(order): match", instance="nest",
                      reason="each base-graph edge is visited once and the matcher sits directly in its order loop")) if shape_ok else
     obs.append(ob_fail("TRIP.bond-loop", fi, lp.ast, construct="loop nest around the matcher", instance="nest",
                        reason="the matcher is not directly inside (edge loop over self.meta_graph.edges > order loop): bonds per edge are no longer bounded by the order")))
    # add_edge sits in the same loop nest, not deeper
    for call, nid, t in bs.adds:
        al = enclosing_loops(fi, nid)
        same = [l.id for l in al] == [l.id for l in loops]
        (obs.append(ob_ok("TRIP.bond-loop", fi, call, construct="add_edge in the order loop", instance="add-once",
                          reason="at most one bond per iteration of the order loop")) if same else
         obs.append(ob_fail("TRIP.bond-loop", fi, call, construct="add_edge loop nest differs from the matcher's", instance="add-once",
                            reason="the bond-creating call is not executed exactly once per successful match")))
    return obs


def pair_resolver_consume(repo, tier="quick"):
    """C03: from a successful match to the end of the iteration both matched descriptors are
    removed from exactly the lists they were matched in; the no-match path makes no bond."""
    bs = BondSite(repo)
    fi, fl, cfg = bs.fi, bs.fl, bs.fi.cfg
    obs = []
    need(len(bs.adds) >= 1, "anchor vanished: no add_edge on self.molecule in the bond loop", fi)
    removes = {0: set(), 1: set()}
    wrong = []
    for call, nid in fl.calls():
        t = fl.canon(call, nid)
        m = method_call(t, "remove")
        if not m:
            continue
        recv, _, args, _ = m
        na = node_attr(recv)
        if not na or len(args) != 1:
            continue
        for i, (G, N, D) in enumerate(((bs.G0, bs.N0, bs.D0), (bs.G1, bs.N1, bs.D1))):
            if na[0] == G and na[1] == N and na[2] == bs.battr and args[0] == D and na[3] is None:
                removes[i].add(nid)
                break
        else:
            if args[0] in (bs.D0, bs.D1) or na[1] in (bs.N0, bs.N1):
                wrong.append((call, t))
    for call, t in wrong:
        obs.append(ob_fail("PAIR.resolver-consume", fi, call, construct=show(t).replace(show(bs.M), "MATCH"), instance="mismatched-remove",
                           reason="a matched descriptor is removed from a list other than the one it was matched in "
                                  "(index 0 goes with the source graph and node, index 1 with the target)"))
    loops = enclosing_loops(fi, bs.mnode)
    iter_end = {loops[0].id} if loops else set()
    iter_end |= {cfg.exit}
    for call, a, t in bs.adds:
        for i in (0, 1):
            side = "source" if i == 0 else "target"
            if not removes[i]:
                obs.append(ob_fail("PAIR.resolver-consume", fi, call, construct="no %s.nodes[n%d]['bonding'].remove(d%d)" % (side, i, i),
                                   instance="remove-%s" % side,
                                   reason="the %s descriptor that formed the bond is never removed from the list it was matched in" % side))
                continue
            # a path match -> add_edge -> end of iteration that avoids the removal?
            r1 = cfg.reachable_from(bs.mnode, avoid=removes[i], edge_filter=_no_exc)
            bad = False
            if a in r1:
                r2 = cfg.reachable_from(a, avoid=removes[i], edge_filter=_no_exc)
                if r2 & iter_end:
                    bad = True
            (obs.append(ob_fail("PAIR.resolver-consume", fi, call, construct="path match -> add_edge -> next iteration without removing d%d" % i,
                                instance="remove-%s" % side, reason="on some path a bond is made but the %s descriptor stays available" % side)) if bad else
             obs.append(ob_ok("PAIR.resolver-consume", fi, call, construct="%s.nodes[n%d]['bonding'].remove(d%d) on every bonding path" % (side, i, i),
                              instance="remove-%s" % side, reason="the matched %s descriptor is consumed whenever a bond is made" % side)))
    # no-match path: handlers of the try around the matcher reach the loop head / exit without add_edge
    handlers = [dst for dst, label in cfg.succ[bs.mnode] if label == "exc"]
    for h in handlers:
        hn = cfg.nodes[h]
        catches = ast.unparse(hn.ast.type) if hn.ast.type is not None else "<bare>"
        reach = reachable_none_aware(fi, h, avoid=iter_end)
        hit = [a for _, a, _ in bs.adds if a in reach]
        (obs.append(ob_fail("PAIR.resolver-consume", fi, hn.ast, construct="except %s: ... add_edge" % catches, instance="no-match",
                            reason="after a failed match a bond is still created in the same iteration")) if hit else
         obs.append(ob_ok("PAIR.resolver-consume", fi, hn.ast, construct="except %s: no bond" % catches, instance="no-match",
                          reason="a failed match creates no bond")))
    return obs


def _no_exc(src, dst, label):
    return label != "exc"


def prov_bond_edge(repo, tier="quick"):
    """C01/C03: the bond joins the matcher's node pair, records the matcher's descriptor pair and
    takes its order from the matched descriptor's last character, or 1.5 when both ends are aromatic."""
    bs = BondSite(repo)
    fi, fl, cfg = bs.fi, bs.fl, bs.fi.cfg
    obs = []
    need(len(bs.adds) >= 1, "anchor vanished: no add_edge on self.molecule in the bond loop", fi)
    for call, nid, t in bs.adds:
        m = method_call(t)
        args, kw = m[2], m[3]
        if m[1] != "add_edge" or len(args) < 2:
            obs.append(ob_fail("PROV.bond-edge", fi, call, construct=show(t).replace(show(bs.M), "MATCH"), instance="endpoints",
                               reason="edges are not added one by one with explicit endpoints"))
            continue
        ends_ok = {args[0], args[1]} == {bs.N0, bs.N1}
        (obs.append(ob_ok("PROV.bond-edge", fi, call, construct="add_edge(n0, n1, ...)", instance="endpoints",
                          reason="the bond joins the two atoms the matcher returned")) if ends_ok else
         obs.append(ob_fail("PROV.bond-edge", fi, call, construct="add_edge(%s, %s)" % (show(args[0]).replace(show(bs.M), "MATCH"), show(args[1]).replace(show(bs.M), "MATCH")),
                            instance="endpoints", reason="the bond does not join the matcher's node pair")))
        b = kw.get("bonding")
        pair = _fold_sub(fl, bs.M, 1)
        b_ok = b is not None and (b == pair or b == ("tuple", (bs.D0, bs.D1)))
        (obs.append(ob_ok("PROV.bond-edge", fi, call, construct="bonding=(d0, d1)", instance="record",
                          reason="the descriptor pair is recorded on the bond in (source, target) order")) if b_ok else
         obs.append(ob_fail("PROV.bond-edge", fi, call, construct="bonding=%s" % (show(b).replace(show(bs.M), "MATCH") if b else "<missing>"),
                            instance="record", reason="the bond does not record the matched descriptor pair (squash reads it)")))
        o = kw.get("order")
        if o is None:
            obs.append(ob_fail("PROV.bond-order", fi, call, construct="add_edge without order=", instance="order",
                               reason="the bond gets no order"))
            continue
        obs += _judge_order(bs, call, nid, o)
    return obs


def _is_annotated_order(bs, t):
    c = is_call(t, "int")
    if c and t[2] == ("builtin", "int") and len(c[0]) == 1:
        x = c[0][0]
        if x[0] == "sub" and x[2] == ("const", -1) and x[1] in (bs.D0, bs.D1):
            return True
    return False


def _resolve_ast(fl, node, nid, depth=0):
    """Follow a Name through single, path-free assignments to the defining expression.
    Returns (ast expression, cfg node id where it is evaluated)."""
    while isinstance(node, ast.Name) and node.id in fl.locals and depth < 4:
        ds = [d for d in fl.reaching(node.id, nid) if d.kind != "unbound"]
        if len(ds) != 1 or ds[0].kind != "assign" or ds[0].path:
            break
        node, nid = ds[0].value, ds[0].node
        depth += 1
    return node, nid


def _judge_order(bs, call, nid, o):
    """o: canonical term of the order= argument at cfg node nid."""
    fi, fl, cfg = bs.fi, bs.fl, bs.fi.cfg
    obs = []
    kw = [k for k in call.keywords if k.arg == "order"][0]
    cases = []   # (kind, term, def/ast, guard info)
    v_ast, v_nid = _resolve_ast(fl, kw.value, nid)
    if isinstance(v_ast, ast.IfExp):
        t_ast, t_nid = _resolve_ast(fl, v_ast.test, v_nid)
        cases.append(("ifexp-true", fl.canon(v_ast.body, v_nid), v_ast, ("ifexp", t_ast, True, t_nid)))
        cases.append(("ifexp-false", fl.canon(v_ast.orelse, v_nid), v_ast, ("ifexp", t_ast, False, t_nid)))
    elif isinstance(v_ast, ast.Name) and v_ast.id in fl.locals:
        for d in fl.reaching(v_ast.id, v_nid):
            if d.kind == "unbound":
                continue
            if d.kind != "assign":
                cases.append(("other", ("opaque", d.kind, None), d, None))
                continue
            vt = fl._apply_path(fl.canon(d.value, d.node), d.path)
            cases.append(("def", vt, d, d.node))
    else:
        cases.append(("direct", o, kw.value, None))
    base_found = False
    for kind, vt, where, g in cases:
        if _is_annotated_order(bs, vt):
            base_found = True
            # an unconditional base: for defs, the def must dominate the add_edge or be the only non-aromatic def
            obs.append(ob_ok("PROV.bond-order", fi, call, construct="order = int(d[-1])", instance="annotated",
                             reason="order is the digit annotated on the matched descriptor"))
        elif vt == ("const", 1.5):
            # must be guarded by "both ends aromatic"
            if kind == "def":
                gs = [(t, pol, gid) for t, pol, gid in guards_of(fi, g) if gid not in [gg[2] for gg in guards_of(fi, nid)]]
                tests = [(t, pol, gid) for t, pol, gid in gs]
            elif kind.startswith("ifexp"):
                tests = [(g[1], g[2], g[3])]
            else:
                tests = []
            verdict = _aromatic_guard(bs, tests)
            (obs.append(ob_ok("TT.aromatic-guard", fi, call, construct="order = 1.5 if both ends aromatic", instance="aromatic",
                              reason="truth table over {True, False, missing}^2: 1.5 only when both endpoint atoms are aromatic")) if verdict is True else
             obs.append(ob_fail("TT.aromatic-guard", fi, call, construct="order = 1.5 under %s" % "; ".join(ast.unparse(t) for t, _, _ in tests),
                                instance="aromatic", reason=verdict)))
        else:
            obs.append(ob_fail("PROV.bond-order", fi, call, construct="order = %s" % show(vt).replace(show(bs.M), "MATCH"), instance="source",
                               reason="the bond order has a source other than the matched descriptor's annotated digit (or 1.5 for aromatic ends)"))
    if not base_found:
        obs.append(ob_fail("PROV.bond-order", fi, call, construct="order= never int(d[-1])", instance="annotated",
                           reason="the annotated order of the matched descriptor never reaches the bond"))
    return obs


def _aromatic_guard(bs, tests):
    """tests: [(test ast, polarity, node)] controlling the 1.5 assignment.  Returns True or a reason."""
    fi, fl = bs.fi, bs.fl
    if not tests:
        return "order 1.5 is assigned without a test on the endpoint atoms' aromaticity"
    from ..absint import MISSING
    from .common import resolve_ast
    import copy as _copy

    def normalise(test, gid):
        """a temporary holding the condition is followed to its definition; all(...) / any(...) over the two ends of the bond
        is written out as a conjunction / disjunction"""
        if isinstance(test, ast.Name):
            test, gid = resolve_ast(fl, test, gid)
        if isinstance(test, ast.Call) and isinstance(test.func, ast.Name) and test.func.id in ("all", "any") and len(test.args) == 1 and \
                isinstance(test.args[0], (ast.GeneratorExp, ast.ListComp)) and len(test.args[0].generators) == 1 and \
                not test.args[0].generators[0].ifs and isinstance(test.args[0].generators[0].target, ast.Name):
            g = test.args[0].generators[0]
            var = g.target.id
            parts = []
            for i in (0, 1):
                class Sub(ast.NodeTransformer):
                    def visit_Name(self, n):
                        if n.id == var and isinstance(n.ctx, ast.Load):
                            return ast.Subscript(value=_copy.deepcopy(g.iter), slice=ast.Constant(value=i), ctx=ast.Load())
                        return n
                parts.append(ast.fix_missing_locations(Sub().visit(_copy.deepcopy(test.args[0].elt))))
            new = ast.BoolOp(op=ast.And() if test.func.id == "all" else ast.Or(), values=parts)
            ast.copy_location(new, test)
            ast.fix_missing_locations(new)
            test = new
        return test, gid
    tests = [normalise(t, g) + (p,) for t, p, g in tests]
    tests = [(t, p, g) for t, g, p in tests]
    # the conjunction of all tests (with polarity) decides
    gets = []   # (Call node, which endpoint index)
    for test, pol, gid in tests:
        for sub in ast.walk(test):
            if isinstance(sub, ast.Call) and isinstance(sub.func, ast.Attribute) and sub.func.attr == "get":
                t = fl.canon(sub, gid)
                na = node_attr(t)
                if na and na[2] == ("const", "aromatic"):
                    if na[1] == bs.N0 and na[0] in (bs.molecule, bs.G0):
                        gets.append((sub, 0))
                    elif na[1] == bs.N1 and na[0] in (bs.molecule, bs.G1):
                        gets.append((sub, 1))
                    else:
                        return "aromaticity is read from %s, which is not an endpoint of the bond" % show(t).replace(show(bs.M), "MATCH")
    if {i for _, i in gets} != {0, 1}:
        return "the guard does not look at the 'aromatic' attribute of both endpoint atoms"
    # guards that do not consult aromaticity (for example the all-atom flag) only restrict where 1.5 can occur
    tests = [t for t in tests if any(x is c for c, _ in gets for x in ast.walk(t[0]))]
    import itertools
    states = [True, False, MISSING]
    for s0, s1 in itertools.product(states, repeat=2):
        val = True
        for test, pol, gid in tests:
            subst = [(c, i) for c, i in gets if any(x is c for x in ast.walk(test))]
            idx = {id(c): i for c, i in subst}

            def hook(ev, call, env, idx=idx, s=(s0, s1)):
                if id(call) in idx:
                    v = s[idx[id(call)]]
                    if v is MISSING:
                        return True, (ev.eval(call.args[1], env) if len(call.args) == 2 else None)
                    return True, v
                return False, None
            from ..absint import Evaluator, Unsupported
            ev = Evaluator(call_hook=hook)
            try:
                r = ev.truth(ev.eval(test, {}))
            except Unsupported as err:
                raise AnalysisError("aromatic guard outside the predicate language: %s" % err, fi.where(test))
            val = val and (r if pol else not r)
        want = (s0 is True and s1 is True)
        if val != want:
            name = lambda s: "missing" if s is MISSING else str(s)
            return "with endpoint aromaticity (%s, %s) the guard is %s; 1.5 is right only for (True, True)" % (name(s0), name(s1), val)
    return True


# ---------------------------------------------------------------------------
# squash_atoms
# ---------------------------------------------------------------------------

def _key_is(kt, key):
    """the key term is the literal key, or the loop variable of a loop over a literal sequence of keys that contains it"""
    if kt == ("const", key):
        return True
    e = elem_of(kt)
    if e and e[0] == "elem" and e[1][0] in ("tuple", "list") and all(x[0] == "const" for x in e[1][1]):
        return ("const", key) in e[1][1]
    return False


def prov_squash(repo, tier="quick"):
    """C10: contraction only for edges whose recorded pair starts with '!'; the contracted nodes
    are that edge's endpoints after remapping; self_loops=False; result assigned back; the kept
    node's fragid (and mapping) is extended by the removed node's."""
    fi = repo.function("resolve:MoleculeResolver.squash_atoms")
    fl, cfg = fi.flow, fi.cfg
    obs = []
    cs = fl.calls_to("networkx.contracted_nodes")
    need(len(cs) >= 1, "anchor vanished: squash_atoms no longer calls nx.contracted_nodes", fi)
    if len(cs) != 1:
        obs.append(ob_fail("PROV.squash-protocol", fi, construct="%d contracted_nodes calls" % len(cs), instance="single",
                           reason="more than one contraction per '!' bond"))
        return obs
    call, nid, _ = cs[0]
    t = fl.canon(call, nid)
    args, kw = t[3], dict(t[4])
    G = args[0] if args else kw.get("G")
    keep = args[1] if len(args) > 1 else kw.get("u")
    rem = args[2] if len(args) > 2 else kw.get("v")
    sl = kw.get("self_loops", args[3] if len(args) > 3 else ("const", True))
    cp = kw.get("copy", args[4] if len(args) > 4 else ("const", True))
    # loop over nx.get_edge_attributes(self.molecule, 'bonding').items()
    loops = enclosing_loops(fi, nid)
    need(loops, "contracted_nodes is not inside a loop over the bonds", fi, call)
    lp = loops[0]
    need(lp.kind == "for", "squash loop is not a for loop", fi, call)
    it = strip_wrappers(fl.canon(lp.ast.iter, lp.id))
    m = method_call(it, "items")
    attrs = strip_wrappers(m[0]) if m else None
    c = is_call(attrs, "get_edge_attributes") if attrs else None
    elem = ("iter", (lp.ast.lineno, lp.ast.col_offset), fl.canon(lp.ast.iter, lp.id))
    if c and len(c[0]) >= 2 and c[0][1] == ("const", "bonding"):
        edge_t = _fold_sub(fl, elem, 0)
        pair_t = _fold_sub(fl, elem, 1)
        obs.append(ob_ok("PROV.squash-protocol", fi, lp.ast, construct="for edge, pair in get_edge_attributes(molecule, 'bonding').items()",
                         instance="range", reason="every bond that recorded a descriptor pair is inspected"))
    else:
        c2 = is_call(it, "get_edge_attributes")
        raise AnalysisError("squash loop does not iterate nx.get_edge_attributes(self.molecule, 'bonding').items()", fi.where(lp.ast))
    # guard: contraction happens iff pair[0] kind is '!'
    gs = guards_of(fi, nid)
    # collect skip-guards of the form `if <test>: continue` that dominate the call inside the loop body
    skip_tests = []
    for n in cfg.nodes:
        if n.kind == "if" and lp.id in [l.id for l in enclosing_loops(fi, n.id)][:1]:
            body = n.ast.body
            if len(body) == 1 and isinstance(body[0], ast.Continue) and not n.ast.orelse and cfg.dominates(n.id, nid):
                skip_tests.append((n.ast.test, False, n.id))
    tests = skip_tests + [(t_, pol, g) for t_, pol, g in gs if g != lp.id and lp.id in [l.id for l in enclosing_loops(fi, g)]]
    if not tests:
        obs.append(ob_fail("PROV.squash-protocol", fi, call, construct="contracted_nodes without a '!' guard", instance="guard",
                           reason="atoms are merged for bonds that are not shared-atom bonds"))
    else:
        # evaluate over kinds: names in tests that canon to pair_t / pair_t[0] / pair_t[1]
        import itertools
        from ..absint import Evaluator, Unsupported, descriptor
        def about_pair(test, gid):
            for sub in ast.walk(test):
                if isinstance(sub, ast.Name) and sub.id in fl.locals:
                    ct = fl.canon(sub, gid)
                    if ct in (pair_t, _fold_sub(fl, pair_t, 0), _fold_sub(fl, pair_t, 1)):
                        return True
            return False
        extra_tests = [t_ for t_ in tests if not about_pair(t_[0], t_[2])]
        tests = [t_ for t_ in tests if about_pair(t_[0], t_[2])]
        # `if kept == removed: continue` -- both ends are one atom already (a ring of shared atoms): nothing left to merge
        same_atom = []
        for test, pol, gid in list(extra_tests):
            g = fl.canon(test, gid)
            if not pol and g[0] == "cmp" and g[1] == ("==",) and set(g[2]) == {keep, rem}:
                same_atom.append((test, pol, gid))
            elif pol and g[0] == "cmp" and g[1] == ("!=",) and set(g[2]) == {keep, rem}:
                same_atom.append((test, pol, gid))
        for x in same_atom:
            extra_tests.remove(x)
            obs.append(ob_ok("PROV.squash-protocol", fi, x[0], construct="skip when both ends are the same atom already", instance="guard:same-atom",
                             reason="contracting an atom with itself would only destroy it"))
        for test, pol, gid in extra_tests:
            obs.append(ob_undecided("PROV.squash-protocol", fi, test, construct="extra condition on the contraction: %s" % ast.unparse(test), instance="guard:extra",
                                    reason="a '!' bond is contracted only under an additional condition the rule cannot interpret"))
        table = {}
        for kl, kr in itertools.product(truth.KINDS, truth.KINDS):
            if not tests:
                break
            L, R = descriptor(kl, 1, 1), descriptor(kr, 1, 1)
            val = True
            for test, pol, gid in tests:
                env = {}
                for sub in ast.walk(test):
                    if isinstance(sub, ast.Name) and sub.id in fl.locals:
                        ct = fl.canon(sub, gid)
                        if ct == pair_t:
                            env[sub.id] = (L, R)
                        elif ct == _fold_sub(fl, pair_t, 0):
                            env[sub.id] = L
                        elif ct == _fold_sub(fl, pair_t, 1):
                            env[sub.id] = R
                ev = Evaluator()
                try:
                    r = ev.truth(ev.eval(test, env))
                except Unsupported as err:
                    raise AnalysisError("squash guard outside the predicate language: %s" % err, fi.where(test))
                val = val and (r if pol else not r)
            table[(kl, kr)] = val
        # a '!' pair is always ('!','!') (compatible); judge on the diagonal and on the left kind
        if not tests:
            table = {(k, k): True for k in truth.KINDS}
        bad = [(k, v) for k, v in table.items() if k[0] == k[1] and v != (k[0] == "!")]
        (obs.append(ob_fail("PROV.squash-protocol", fi, call, construct="guard over descriptor kinds", instance="guard",
                            reason="contraction for kinds %s; it must happen exactly for '!' pairs" % [k[0] for k, v in bad if v] if any(v for k, v in bad)
                            else "no contraction for '!' pairs")) if bad else
         obs.append(ob_ok("PROV.squash-protocol", fi, call, construct="guard over descriptor kinds", instance="guard",
                          reason="contraction exactly when the recorded pair is of the shared-atom kind '!'")))
    # endpoints through the remap dict
    def remapped(x, idx):
        # `if e in D: x = D[e]` / `else: x = e` is the conditional expression
        x = (fl.diamond(x, nid) or x) if x is not None else x
        m_ = method_call(x, "get")
        e = _fold_sub(fl, edge_t, idx)
        if m_ and len(m_[2]) == 2 and m_[2][0] == e and m_[2][1] == e:
            return m_[0]
        # D[e] if e in D else e   /   e if e not in D else D[e]
        if x is not None and x[0] == "ifexp" and x[1][0] == "cmp" and x[1][1] in (("in",), ("not in",)) and x[1][2][0] == e:
            D = x[1][2][1]
            hit, miss = (x[2], x[3]) if x[1][1] == ("in",) else (x[3], x[2])
            if hit == ("sub", D, e) and miss == e:
                return D
        return None
    def followed(x, idx):
        """x = e; while x in D: x = D[x]   -- the endpoint followed through every earlier merge; returns D"""
        if not (x is not None and x[0] == "var" and len(x) == 3 and len(x[2]) == 2):
            return None
        e = _fold_sub(fl, edge_t, idx)
        ds = [fl.defs[i] for i in x[2]]
        init = [d for d in ds if d.kind == "assign" and not d.path and d.value is not None and fl.canon(d.value, d.node) == e]
        step = [d for d in ds if d not in init and d.kind == "assign" and not d.path and d.value is not None]
        if len(init) != 1 or len(step) != 1:
            return None
        sv = fl.canon(step[0].value, step[0].node)
        if not (sv[0] == "sub" and sv[2][0] == "var" and sv[2][1] == x[1]):
            return None
        D = sv[1]
        wl = [l for l in enclosing_loops(fi, step[0].node) if l.kind == "while"]
        if not wl:
            return None
        tt = fl.canon(wl[0].ast.test, wl[0].id)
        if tt[0] == "cmp" and tt[1] == ("in",) and tt[2][0][0] == "var" and tt[2][0][1] == x[1] and tt[2][1] == D and \
                cfg.dominates(init[0].node, wl[0].id) and cfg.dominates(wl[0].id, nid):
            return D
        return None
    one_level = False
    d0 = followed(keep, 0) if keep else None
    d1 = followed(rem, 1) if rem else None
    if d0 is None and d1 is None and keep is not None and rem is not None:
        d0s, d1s = followed(keep, 1), followed(rem, 0)
        if d0s is not None and d1s is not None:
            d0, d1 = d0s, d1s
    if d0 is None or d1 is None:
        one_level = True
        d0 = remapped(keep, 0) if keep else None
        d1 = remapped(rem, 1) if rem else None
    if d0 is None and keep is not None:
        d0s = remapped(keep, 1)
        d1s = remapped(rem, 0) if rem else None
        if d0s is not None and d1s is not None:
            d0, d1 = d0s, d1s
    ends_ok = d0 is not None and d1 is not None and d0 == d1
    if ends_ok and one_level:
        # a single look-up is enough only if the record is kept flat: every entry that points to the atom removed now is
        # re-pointed to the atom it is merged into (for k, v in D.items(): if v == removed: D[k] = kept)
        flat = False
        for n in cfg.nodes:
            if n.kind == "stmt" and isinstance(n.ast, ast.Assign) and isinstance(n.ast.targets[0], ast.Subscript) and lp.id in [l.id for l in enclosing_loops(fi, n.id)]:
                tt = fl.canon(n.ast.targets[0], n.id)
                vv = fl.canon(n.ast.value, n.id)
                ek = elem_of(tt[2]) if tt[0] == "sub" else None
                if tt[0] == "sub" and tt[1] == d0 and vv == keep and ek and ek[0] == "key" and strip_wrappers(ek[1]) == d0:
                    for test, pol, gid in guards_of(fi, n.id):
                        g = fl.canon(test, gid)
                        if pol and g[0] == "cmp" and g[1] == ("==",) and rem in g[2]:
                            ev = elem_of([y for y in g[2] if y != rem][0]) if len(g[2]) == 2 else None
                            if ev and ev[0] == "value" and ev[1] == ek[1]:
                                flat = True
        if not flat:
            obs.append(ob_fail("PROV.squash-protocol", fi, call, construct="contracted_nodes(G, squashed.get(e0, e0), squashed.get(e1, e1))", instance="endpoints:followed",
                               reason="an endpoint is looked up in the record of earlier merges once only: when the atom it was merged into has been merged "
                                      "into a third one since, the contraction names an atom that no longer exists (one atom shared by four fragments, "
                                      "listed so that the kept copy is removed later)"))
        else:
            obs.append(ob_ok("PROV.squash-protocol", fi, call, construct="record kept flat: entries of the removed atom are re-pointed", instance="endpoints:followed",
                             reason="one look-up reaches the surviving atom"))
    elif ends_ok:
        obs.append(ob_ok("PROV.squash-protocol", fi, call, construct="x = e; while x in squashed: x = squashed[x]", instance="endpoints:followed",
                         reason="an endpoint is followed through every earlier merge to the atom that still exists"))
    if ends_ok:
        fresh = d0 == ("dict", ()) or (d0[0] == "call" and d0[2] == ("builtin", "dict") and not d0[3] and not d0[4])
        (obs.append(ob_ok("PROV.squash-protocol", fi, call, construct="merge record is a fresh local dict per call", instance="remap-fresh",
                          reason="node keys restart at every resolution level; a record kept from an earlier level would redirect unrelated atoms")) if fresh else
         obs.append(ob_fail("PROV.squash-protocol", fi, call, construct="merge record is %s" % show(d0), instance="remap-fresh",
                            reason="the record of earlier merges outlives the call: entries from a previous resolution level redirect '!' bonds of this level")))
    (obs.append(ob_ok("PROV.squash-protocol", fi, call, construct="contracted_nodes(G, <e0 through the merge record>, <e1 through the merge record>)", instance="endpoints",
                      reason="the merged atoms are the '!' bond's endpoints, read through the record of earlier merges")) if ends_ok else
     obs.append(ob_fail("PROV.squash-protocol", fi, call, construct="contracted_nodes(G, %s, %s)" % (show(keep), show(rem)), instance="endpoints",
                        reason="the merged atoms are not the endpoints of the '!' bond remapped through the record of earlier merges")))
    # the removed node is recorded: squashed[rem] = keep on every path to the contraction (or after)
    rec_ok = False
    for n in cfg.nodes:
        if n.kind == "stmt" and isinstance(n.ast, ast.Assign) and isinstance(n.ast.targets[0], ast.Subscript):
            tt = fl.canon(n.ast.targets[0], n.id)
            vv = fl.canon(n.ast.value, n.id)
            if ends_ok and tt == ("sub", d0, rem) and vv == keep:
                if lp.id in [l.id for l in enclosing_loops(fi, n.id)] and (cfg.dominates(n.id, nid) or cfg.postdominates(n.id, nid) or cfg.dominates(nid, n.id)):
                    rec_ok = True
    (obs.append(ob_ok("PROV.squash-protocol", fi, call, construct="squashed[removed] = kept", instance="remap-record",
                      reason="later '!' bonds of the removed atom are redirected to the kept one")) if rec_ok else
     obs.append(ob_fail("PROV.squash-protocol", fi, call, construct="squashed[removed] = kept", instance="remap-record",
                        reason="the removed atom is not recorded as merged into the kept one (one atom shared by three fragments breaks)")))
    # self_loops False, result assigned back, graph is self.molecule
    cur = fl.canon(ast.parse("self.molecule", mode="eval").body, nid)
    (obs.append(ob_ok("PROV.squash-protocol", fi, call, construct="self_loops=False", instance="self-loops", reason="the '!' bond itself does not survive as a loop"))
     if sl == ("const", False) else
     obs.append(ob_fail("PROV.squash-protocol", fi, call, construct="self_loops=%s" % show(sl), instance="self-loops",
                        reason="the provisional '!' bond survives as a self loop on the merged atom")))
    assigned_back = False
    st = cfg.nodes[nid].ast
    if G == cur:
        if isinstance(st, ast.Assign) and st.value is call and ast.unparse(st.targets[0]) == "self.molecule":
            assigned_back = True
        elif cp == ("const", False):
            assigned_back = True
    (obs.append(ob_ok("PROV.squash-protocol", fi, call, construct="self.molecule = contracted_nodes(self.molecule, ...)", instance="assign-back",
                      reason="the merged graph replaces the fine graph")) if assigned_back else
     obs.append(ob_fail("PROV.squash-protocol", fi, call, construct="%s = contracted_nodes(%s, ...)" % (ast.unparse(st.targets[0]) if isinstance(st, ast.Assign) else "<expr>", show(G)),
                        instance="assign-back", reason="the result of the contraction does not become the fine graph")))
    # PAIR: membership concatenation after every contraction
    for key in ("fragid", "mapping"):
        sites = set()
        for n in cfg.nodes:
            if n.kind == "stmt" and isinstance(n.ast, ast.AugAssign) and isinstance(n.ast.op, ast.Add):
                tt = fl.canon(n.ast.target, n.id)
                na = node_attr(tt)
                vv = fl.canon(n.ast.value, n.id)
                if na and na[1] == keep and _key_is(na[2], key):
                    # value: G.nodes[keep]['contraction'][rem][key]
                    ok_v = vv[0] == "sub" and vv[2] == na[2] and vv[1][0] == "sub" and vv[1][2] == rem and \
                        node_attr(vv[1][1]) and node_attr(vv[1][1])[1] == keep and node_attr(vv[1][1])[2] == ("const", "contraction")
                    if ok_v:
                        sites.add(n.id)
            elif n.kind == "stmt" and isinstance(n.ast, ast.Expr) and isinstance(n.ast.value, ast.Call):
                tt = fl.canon(n.ast.value, n.id)
                mm = method_call(tt, "extend")
                if mm and node_attr(mm[0]) and node_attr(mm[0])[1] == keep and _key_is(node_attr(mm[0])[2], key) and mm[2]:
                    vv = mm[2][0]
                    ok_v = vv[0] == "sub" and vv[2] == node_attr(mm[0])[2] and vv[1][0] == "sub" and vv[1][2] == rem
                    if ok_v:
                        sites.add(n.id)
        # a store inside `for attr in ('fragid', 'mapping'):` happens once per listed key: the loop as a whole is the site
        for site in list(sites):
            inner = enclosing_loops(fi, site)
            if inner and inner[0].id != lp.id and inner[0].kind == "for":
                itt = fl.canon(inner[0].ast.iter, inner[0].id)
                if itt[0] in ("tuple", "list") and ("const", key) in itt[1]:
                    entry = cfg.node_of_stmt.get(id(inner[0].ast.body[0]))
                    if entry is not None and (entry == site or inner[0].id not in cfg.reachable_from(entry, avoid={site}, edge_filter=_no_exc)):
                        sites.discard(site)
                        sites.add(inner[0].id)
        ends = {lp.id, cfg.exit}
        ok = bool(sites) and not (cfg.reachable_from(nid, avoid=sites, edge_filter=_no_exc) & ends)
        oid = "PAIR.squash-membership"
        if key == "mapping" and not sites:
            continue
        (obs.append(ob_ok(oid, fi, call, construct="kept['%s'] += contraction[removed]['%s']" % (key, key), instance=key,
                          reason="after every contraction the kept atom also records the removed atom's coarse node")) if ok else
         obs.append(ob_fail(oid, fi, call, construct="kept['%s'] += contraction[removed]['%s']" % (key, key), instance=key,
                            reason="a path from the contraction to the next iteration does not extend the kept atom's '%s' by the removed atom's" % key)))
    # the shared atom is ONE atom written twice: apart from the membership lists nothing of the two descriptions is added up
    summed = []
    n_stores = 0
    for n in cfg.nodes:
        if n.kind != "stmt" or not isinstance(n.ast, (ast.Assign, ast.AugAssign)):
            continue
        tgt = n.ast.target if isinstance(n.ast, ast.AugAssign) else n.ast.targets[0]
        if not isinstance(tgt, ast.Subscript):
            continue
        na = node_attr(fl.canon(tgt, n.id))
        if not na or na[1] != keep or _key_is(na[2], "fragid") or _key_is(na[2], "mapping") or na[2][0] != "const":
            continue
        n_stores += 1
        vv = fl.canon(n.ast.value, n.id)
        from_removed = lambda t: any(x[0] == "sub" and x[2] == rem for x in walk_term(t) if isinstance(x, tuple) and len(x) == 3)
        if isinstance(n.ast, ast.AugAssign) and isinstance(n.ast.op, (ast.Add, ast.Sub)) and from_removed(vv):
            summed.append((n, na[2][1]))
        else:
            for x in walk_term(vv):
                if isinstance(x, tuple) and x and x[0] == "binop" and x[1] in ("+", "-") and from_removed(x):
                    summed.append((n, na[2][1]))
                    break
    for n, key in summed:
        obs.append(ob_fail("PROV.squash-one-atom", fi, n.ast, construct="kept[%r] combined arithmetically with the removed atom's value" % key, instance="sum:" + str(key),
                           reason="the two marked atoms describe one atom; adding up an attribute of both descriptions (written identically in both "
                                  "fragments) doubles it, so the overlapping description no longer resolves to the molecule of the disjoint one"))
    if not summed:
        obs.append(ob_ok("PROV.squash-one-atom", fi, call, construct="%d other attribute stores on the kept atom, none adds up both descriptions" % n_stores,
                         instance="sum", reason="only the membership lists of the two atoms are concatenated"))
    return obs
